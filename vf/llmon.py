"""Monitors and tokenizer configurations for the LLParser checks (C01-C05)."""
import sys

import vf
vf.use_repo()
from ak import llparser  # noqa: E402
from vf.core import Inconclusive  # noqa: E402


class BudgetExceeded(BaseException):
    """the parse used more steps than the budget: the case is dropped as inconclusive"""


class StackBoundExceeded(BaseException):
    """the parse stack grew beyond the bound that holds for every grammar without
    left recursion: witness of unbounded expansion"""


class CtorStepBoundExceeded(BaseException):
    """the left-recursion check of the constructor executed far more lines than it ever needs
    for grammars of the generated size: 'terminates' restated as bounded progress"""


def _find_code(func, name):
    for const in func.__code__.co_consts:
        if hasattr(const, "co_name") and const.co_name == name:
            return const
    return None


class ParseMonitor:
    """sys.monitoring based observer of LLParser.parse:
    pushes / max stack length (PY_START of the local _put_on_stack), roll-backs (PY_START of
    _StackElement.switch_to_next_prod), loop steps (PY_START of _StackElement.get_cur_prod)."""

    TOOL = 3  # a free tool id

    def __init__(self, step_budget=300_000):
        self.step_budget = step_budget
        self.stack_bound = None
        self.reset()
        mon = sys.monitoring
        self.code_push = _find_code(llparser.LLParser.parse, "_put_on_stack")
        se = getattr(llparser, "_StackElement", None)
        self.code_rollback = getattr(getattr(se, "switch_to_next_prod", None), "__code__", None)
        self.code_step = getattr(getattr(se, "get_cur_prod", None), "__code__", None)
        self.code_verify = getattr(getattr(llparser.LLParser, "_verify_grammar_structure_part2", None),
                                   "__code__", None)
        self.ctor_lines = 0
        self.ctor_bound = None
        self.max_ctor_lines = 0
        if not (self.code_push and self.code_rollback and self.code_step):
            raise Inconclusive("monitored code objects of LLParser.parse not found "
                               "(_put_on_stack / switch_to_next_prod / get_cur_prod)")
        if mon.get_tool(self.TOOL) is None:
            mon.use_tool_id(self.TOOL, "vf-llparser")
        mon.register_callback(self.TOOL, mon.events.PY_START, self._on_start)
        for code in (self.code_push, self.code_rollback, self.code_step):
            mon.set_local_events(self.TOOL, code, mon.events.PY_START)
        if self.code_verify is not None:
            mon.register_callback(self.TOOL, mon.events.LINE, self._on_line)
            mon.set_local_events(self.TOOL, self.code_verify, mon.events.LINE)

    def _on_line(self, code, line):
        self.ctor_lines += 1
        if self.ctor_bound is not None and self.ctor_lines > self.ctor_bound:
            raise CtorStepBoundExceeded(self.ctor_lines)

    def start_ctor(self, bound):
        self.max_ctor_lines = max(self.max_ctor_lines, self.ctor_lines)
        self.ctor_lines = 0
        self.ctor_bound = bound

    def reset(self):
        self.pushes = 0
        self.max_stack = 0
        self.rollbacks = 0
        self.steps = 0

    def _on_start(self, code, offset):
        if code is self.code_step:
            self.steps += 1
            if self.steps > self.step_budget:
                raise BudgetExceeded()
        elif code is self.code_push:
            self.pushes += 1
            frame = sys._getframe(1)
            stack = frame.f_locals.get("parse_stack")
            if stack is not None:
                depth = len(stack) + 1
                if depth > self.max_stack:
                    self.max_stack = depth
                if self.stack_bound is not None and depth > self.stack_bound:
                    raise StackBoundExceeded(depth)
        elif code is self.code_rollback:
            self.rollbacks += 1

    def close(self):
        mon = sys.monitoring
        for code in (self.code_push, self.code_rollback, self.code_step):
            mon.set_local_events(self.TOOL, code, 0)
        if self.code_verify is not None:
            mon.set_local_events(self.TOOL, self.code_verify, 0)
            mon.register_callback(self.TOOL, mon.events.LINE, None)
        mon.register_callback(self.TOOL, mon.events.PY_START, None)
        mon.free_tool_id(self.TOOL)


# (the synonyms and keywords dictionaries are used by reference by the tokenizer: what a later change of them
# means is left open, they are not touched)
SCRAMBLED = ("span_matchers", "skip_tokens")


_MADE = [0]


def make_llparser(tokenizer_str, **kw):
    """LLParser(...) the way a caller does it who builds the configuration containers, hands them over and goes
    on using them for something else: the parser gets its own copies of the containers in SCRAMBLED, and after
    the construction these are emptied and filled with junk"""
    mine = {}
    for name in SCRAMBLED:
        if kw.get(name) is not None:
            mine[name] = kw[name] = type(kw[name])(kw[name]) if isinstance(kw[name], (dict, set, list)) else kw[name]
    _MADE[0] += 1
    if isinstance(kw.get("skip_tokens"), (set, list)) and _MADE[0] % 3 == 0:
        # (every third time the names of the skipped tokens come as a one-shot iterable: a generator expression)
        kw["skip_tokens"] = (t for t in list(kw["skip_tokens"]))
    parser = llparser.LLParser(tokenizer_str, **kw)
    for name, obj in mine.items():
        if isinstance(obj, dict):
            obj.clear()
            obj["SPACE"] = obj["A"] = obj["WORD"] = obj["TEXT"] = "<changed later>" if name != "span_matchers" else r"(?P<END_X>x)"
        elif isinstance(obj, set):
            obj.clear()
            obj.update(["A", "WORD", "a", "no such token"])
        elif isinstance(obj, list):
            del obj[:]
    return parser


def build_decoy(cfg):
    """another part of the program builds a parser of its own now: same group names and delimiters, but its
    multi-line tokens keep the closing delimiter as part of the value"""
    spans = {'TEXT': r"(?P<END_TEXT>(.|\n)*?''')", 'ML': r"(?P<END_ML>(.|\n)*?''')"}
    return llparser.LLParser(r"(?P<SPACE>\s+)|(?P<TEXT>''')|(?P<ML>!!!)|(?P<W>[a-z]+)", productions={'E': [('TEXT', 'ML', 'W')]},
                             span_matchers=spans)


class VfAlternatives(llparser.ProdsTemplate):
    """a template written by the user of the package: it only generates the alternatives of its symbol and
    leaves the result tree alone"""
    CAN_POST_PROCESS_TELEM = False

    def __init__(self, alternatives):
        super().__init__()
        self.alternatives = list(alternatives)

    def gen_productions(self):
        self._ensure_initialized()
        yield self.result_symbol, list(self.alternatives)


# ------------------------------------------------------------------ tokenizer configs
class TokCfg:
    """a tokenizer configuration + how the harness writes a token of each terminal"""

    def __init__(self, name, tokenizer_str, terminals, lexemes, fillers, **kwargs):
        self.name = name
        self.tokenizer_str = tokenizer_str
        self.terminals = terminals        # names usable in grammars
        self.lexemes = lexemes            # {terminal: [lexeme, ...]}
        self.fillers = fillers            # skipped pieces usable between tokens
        # context=True: which token a lexeme becomes depends on what precedes it on the line; the expected
        # tokens are then taken from reference_tokens(text), not from the terminals the text was rendered from
        self.context = kwargs.pop('context', False)
        self.kwargs = kwargs              # synonyms / keywords / span_matchers / skip_tokens

    def reference_tokens(self, text):
        """the documented scan: the pattern is matched at the current column of each line (look-behind and
        anchors see the rest of the line); -> [(terminal, value)] without skipped tokens"""
        import re
        ref = re.compile(self.tokenizer_str, re.VERBOSE)
        syn = self.kwargs.get('synonyms', {})
        skip = self.kwargs.get('skip_tokens')
        skip = {'SPACE', 'COMMENT'} if skip is None else skip
        out = []
        for line in text.split("\n"):
            col = 0
            while col < len(line):
                m = ref.match(line, col)
                if m is None or m.end() == col:
                    return None
                name = syn.get(m.lastgroup, m.lastgroup)
                if name not in skip:
                    out.append((name, m.group(m.lastgroup)))
                col = m.end()
        return out

    def make_parser(self, prods, start, **extra):
        return make_llparser(
            self.tokenizer_str,
            productions={k: v if isinstance(v, llparser.ProdsTemplate) else list(v) for k, v in prods.items()},
            start_symbol_name=start, **self.kwargs, **extra)

    def render(self, rng, terms, dense=False):
        """terminal names -> (text, expected [(name, value)])"""
        pieces = []
        expected = []
        if self.fillers == [""]:
            dense = False         # nothing is skipped in this configuration: no separators at all
        for t in terms:
            lex = rng.choice(self.lexemes[t])
            expected.append((t, self.value_of(t, lex)))
            if pieces and not dense:
                pieces.append(rng.choice(self.fillers))
            elif pieces:
                pieces.append(" ")
            pieces.append(lex)
            if self.fillers == [""] and t in ("SPACE", "COMMENT") and lex.endswith("\n"):
                pass
        if self.fillers == [""]:
            return "".join(pieces), expected
        if not dense and rng.random() < 0.3:
            pieces.insert(0, rng.choice(self.fillers))
        if not dense and rng.random() < 0.3:
            pieces.append(rng.choice(self.fillers))
        return "".join(pieces), expected

    def render_checked(self, rng, terms, dense=False):
        """-> (terminals, text, expected): for a context configuration the terminals and the expected tokens
        are what the reference scan finds in the rendered text (None, None, None if it finds an illegal character)"""
        text, expected = self.render(rng, terms, dense)
        if not self.context:
            return terms, text, expected
        ref = self.reference_tokens(text)
        if ref is None:
            return None, None, None
        return [n for n, _ in ref], text, ref

    def value_of(self, term, lexeme):
        if term in ("STR", "YES", "EMPTY", "QSTR"):
            return lexeme[1:-1]
        if term == "ECHAR":
            return lexeme[1:]
        if term == "HERE":
            return lexeme[5:-3]
        if term == "TEXT" or (term == "STRING" and lexeme.startswith("'''")):
            return lexeme[3:-3]
        return lexeme


TOKCFGS = [
    TokCfg(
        "letters+synonyms",
        r"(?P<SPACE>\s+)|(?P<COMMENT>//.*)|(?P<A>a)|(?P<B>b)|(?P<C>c)|(?P<D>d)",
        ['a', 'b', 'c', 'd'],
        {'a': ['a'], 'b': ['b'], 'c': ['c'], 'd': ['d']},
        [" ", "  ", "\n", " \n  ", "\t"],
        synonyms={'A': 'a', 'B': 'b', 'C': 'c', 'D': 'd'},
    ),
    TokCfg(
        "words+keywords+comments",
        r"""(?P<SPACE>\s+)|(?P<COMMENT>\#[^#\n]*\#)|(?P<W>[a-z]+)|(?P<NUM>[0-9]+)|(?P<SEMI>;)|"(?P<STR>[^"]*)\"""",
        ['WORD', 'IF', 'DO', 'n', ';', 'STR', 'PRAGMA', 'YES', 'EMPTY'],
        {'WORD': ['x', 'yy', 'iff', 'dodo', 'i', 'f', 'yes'], 'IF': ['if'], 'DO': ['do'], 'PRAGMA': ['#pragma#'],
         'YES': ['"yes"'], 'EMPTY': ['""'],
         'n': ['0', '17', '007'], ';': [';'], 'STR': ['" "', '"if"', '"a b"', '"#x#"', '"p\x0cq"', '"u\u2028v if"']},
        [" ", "\n", " # if do ; # ", "  ", "\n\n", " #1# #2# ", " #see\x0bpage 2 if# ", "\x0c"],
        synonyms={'NUM': 'n', 'SEMI': ';', 'W': 'WORD'},
        # (one keyword is keyed on a token name that is skipped by default: that comment is a real token)
        # (... and one on the string token: the string "yes" is a token of its own, the word yes is a word - and the
        # string "if" is a string)
        # (... and the string with nothing in it is a keyword, too)
        keywords={('WORD', 'if'): 'IF', ('WORD', 'do'): 'DO', ('COMMENT', '#pragma#'): 'PRAGMA', ('STR', 'yes'): 'YES',
                  ('STR', ''): 'EMPTY'},
    ),
    TokCfg(
        "explicit-skip+comment-as-token",
        r"(?P<SPACE>\s+)|(?P<COMMENT>\#[^#\n]*\#)|(?P<X>x)|(?P<A>a)|(?P<B>b)|(?P<C>c)",
        ['a', 'b', 'c', 'COMMENT'],
        {'a': ['a'], 'b': ['b'], 'c': ['c'], 'COMMENT': ['#k#', '# a b #']},
        [" ", " x ", "x", "\n", " xx\n x"],
        synonyms={'A': 'a', 'B': 'b', 'C': 'c'},
        skip_tokens={'SPACE', 'X'},
    ),
    TokCfg(
        "nothing-skipped(empty skip_tokens)",
        r"(?P<SPACE>~)|(?P<COMMENT>\#[^#\n]*\#)|(?P<A>a)|(?P<B>b)",
        ['a', 'b', 'SPACE', 'COMMENT'],
        {'a': ['a'], 'b': ['b'], 'SPACE': ['~'], 'COMMENT': ['#c#', '# x #']},
        [""],
        synonyms={'A': 'a', 'B': 'b'},
        skip_tokens=set(),
    ),
    TokCfg(
        "multi-line-blocks",
        # a span token whose opening group has no synonym: the group name itself is the grammar's terminal
        r"(?P<SPACE>\s+)|(?P<TEXT>''')|(?P<W>[a-z]+)|(?P<EQ>=)",
        ['TEXT', 'WORD', '='],
        {'TEXT': ["'''x y'''", "''''''", "'''p\nq = r'''", "''' '' '''",
                  # empty lines inside the token, a line break right behind the opener / in front of the closer
                  "'''p\n\nq'''", "'''\nx'''", "'''x\n\n'''", "'''\n'''"], 'WORD': ['a', 'bc'], '=': ['=']},
        [" ", "\n", "  "],
        synonyms={'W': 'WORD', 'EQ': '='},
        span_matchers={'TEXT': r"(?P<END_TEXT>(.|\n)*?)'''"},
    ),
    TokCfg(
        "minus-by-context",
        # '-' is a sign (NEG) unless a word or a closing bracket stands directly in front of it
        r"(?P<SPACE>\s+)|(?P<WORD>[a-z]+)|(?P<NEG>(?<![a-z)])-)|(?P<MINUS>-)|(?P<LP>\()|(?P<RP>\))",
        ['WORD', 'NEG', 'MINUS', '(', ')'],
        {'WORD': ['a', 'bc'], 'NEG': ['-'], 'MINUS': ['-'], '(': ['('], ')': [')']},
        [" ", "", "", "  "],
        synonyms={'LP': '(', 'RP': ')'},
        context=True,
    ),
    TokCfg(
        "chained-synonyms",
        # upper-case names are called WORD, what the pattern calls WORD is called CONST
        r"(?P<SPACE>\s+)|(?P<NAME>[A-Z]+)|(?P<WORD>[a-z]+)|(?P<NUM>[0-9]+)|(?P<EQ>=)",
        ['WORD', 'CONST', 'n', '='],
        {'WORD': ['A', 'XY'], 'CONST': ['a', 'xy'], 'n': ['1', '20'], '=': ['=']},
        [" ", "\n", "  "],
        synonyms={'NAME': 'WORD', 'WORD': 'CONST', 'NUM': 'n', 'EQ': '='},
    ),
    TokCfg(
        "chained-span-synonyms",
        # the multi-line token is called STRING; what the pattern calls STRING (a one-line literal) is called str
        r"""(?P<SPACE>\s+)|(?P<ML>''')|(?P<STRING>"[^"]*")|(?P<W>[a-z]+)|(?P<EQ>=)""",
        ['STRING', 'str', 'WORD', '='],
        {'STRING': ["'''x y'''", "''''''", "'''p\nq = r'''", "'''p\n\n\nq'''", "'''\nx\n'''"],
         'str': ['"a"', '""', '"b c"'], 'WORD': ['a', 'bc'],
         '=': ['=']},
        [" ", "\n", "  "],
        synonyms={'ML': 'STRING', 'STRING': 'str', 'W': 'WORD', 'EQ': '='},
        span_matchers={'ML': r"(?P<END_ML>(.|\n)*?)'''"},
    ),
    TokCfg(
        "skipped-name-is-also-a-synonym-key",
        # remarks (#...#) are called COMMENT and skipped by that name; what the pattern calls COMMENT (a quoted
        # note) is called DOC and is a token of the grammar
        r"""(?P<SPACE>\s+)|(?P<REM>\#[^#\n]*\#)|(?P<COMMENT>"[^"\n]*")|(?P<W>[a-z]+)|(?P<EQ>=)""",
        ['WORD', 'DOC', '='],
        {'WORD': ['a', 'bc'], 'DOC': ['"x"', '""', '"a b"', '"#r#"'], '=': ['=']},
        [" ", "\n", " #r# ", "#x y#", "  "],
        synonyms={'REM': 'COMMENT', 'COMMENT': 'DOC', 'W': 'WORD', 'EQ': '='},
        skip_tokens={'SPACE', 'COMMENT'},
    ),
    TokCfg(
        "catch-all-words",
        # a word is anything that is not blank, '=' or the mark character; the mark (U+FEFF, which text files may
        # start with) is a token of its own; words may hold other invisible characters
        r"(?P<SPACE>\s+)|(?P<EQ>=)|(?P<MARK>\ufeff)|(?P<W>[^\s=\ufeff]+)",
        ['WORD', '=', 'MARK'],
        {'WORD': ['a', '\u00e9t\u00e9', 'x\u200by', '\u2060z', '-', '#', "''", '%', '100%', '%s', '%(x)d', '{0}'],
         '=': ['='], 'MARK': ['\ufeff']},
        [" ", "\n", "  "],
        synonyms={'W': 'WORD', 'EQ': '='},
    ),
    TokCfg(
        "keyword-called-like-a-pattern",
        # the sign '!' and the word 'not' are two tokens: the pattern NOT is reported as '!', the keyword 'not' as NOT
        r"(?P<SPACE>\s+)|(?P<NOT>!)|(?P<W>[a-z]+)|(?P<EQ>=)|(?P<PCT>%)",
        # (... and the word 'end' is reported under the empty name)
        ['WORD', '!', 'NOT', '=', '%', ''],
        {'WORD': ['a', 'bc', 'no', 'nott'], '!': ['!'], 'NOT': ['not'], '=': ['='], '%': ['%'], '': ['end']},
        [" ", "\n", "  "],
        synonyms={'NOT': '!', 'W': 'WORD', 'EQ': '=', 'PCT': '%'},
        keywords={('WORD', 'not'): 'NOT', ('WORD', 'end'): ''},
    ),
    TokCfg(
        "two-kinds-of-comments",
        # block comments are a multi-line token whose opening group is itself called COMMENT; comments to the end of
        # the line are another pattern, reported as COMMENT too (both skipped by default)
        r"(?P<SPACE>\s+)|(?P<COMMENT>/\*)|(?P<COMMENT_EOL>//.*)|(?P<W>[a-z]+)|(?P<EQ>=)",
        ['WORD', '='],
        {'WORD': ['a', 'bc'], '=': ['=']},
        [" ", "\n", " // note = a\n", " /* x\n = y */ ", "//\n", " /**/ ", " // a /* b\n", "  "],
        synonyms={'COMMENT_EOL': 'COMMENT', 'W': 'WORD', 'EQ': '='},
        span_matchers={'COMMENT': r"(?P<END_COMMENT>(.|\n)*?)\*/"},
    ),
    TokCfg(
        "quoted-strings-over-several-lines",
        # a string runs to the next quote that has no backslash in front of it - on this line or on a later one (the
        # user's body pattern is tried from the place where the string stands, line by line)
        r'(?P<SPACE>\s+)|(?P<Q>")|(?P<W>[a-z]+)|(?P<EQ>=)',
        ['QSTR', 'WORD', '='],
        {'QSTR': ['"x y"', '""', '"ab\\"cd\nef"', '"p\\\\"', '"a\\"\n\\"b = c"', '"\\"\n"'], 'WORD': ['a', 'bc'], '=': ['=']},
        [" ", "\n", "  "],
        synonyms={'Q': 'QSTR', 'W': 'WORD', 'EQ': '='},
        span_matchers={'Q': r'(?P<END_Q>([^"\\]|\\.)*)"'},
    ),
    TokCfg(
        "inline-flag-in-the-tokenizer-pattern",
        # the tokenizer pattern switches case-insensitive matching on for itself; the pattern that ends a here-document
        # is another pattern: it ends at EOT in capitals only
        r"(?i)(?P<SPACE>\s+)|(?P<HD><<eot)|(?P<W>[a-z]+)|(?P<EQ>=)",
        ['HERE', 'WORD', '='],
        {'HERE': ['<<eot x EOT', '<<EOT a eot b EOT', '<<eot\neot\nEOT', '<<EoTEOT'], 'WORD': ['a', 'Bc', 'EOT'], '=': ['=']},
        [" ", "\n", "  "],
        synonyms={'HD': 'HERE', 'W': 'WORD', 'EQ': '='},
        span_matchers={'HD': r"(?P<END_HD>.*?)EOT"},
    ),
    TokCfg(
        "comments-with-the-documented-pattern",
        # the body pattern of block comments is the one the package's documentation shows: it does not run over a '*/'.
        # Tried from where the comment stands, it cannot end a line at '**/' (the second star is no '*' followed by
        # something else): such a comment goes on to the next '*/' it can reach that way
        r"(?P<SPACE>\s+)|(?P<COMMENT_ML>/\*)|(?P<W>[a-z]+)|(?P<EQ>=)",
        ['WORD', '='],
        {'WORD': ['a', 'bc'], '=': ['=']},
        [" ", "\n", " /* x */ ", " /* a **/ bc\n /* c */ ", " /* = **/\n*/ ", "/* * */", "  "],
        synonyms={'COMMENT_ML': 'COMMENT', 'W': 'WORD', 'EQ': '='},
        span_matchers={'COMMENT_ML': r"(?P<END_COMMENT>(\*[^/]|[^*])*)\*/"},
    ),
    TokCfg(
        "escapes-with-two-groups",
        # one alternative of the pattern has two named groups side by side: the backslash and the character behind it;
        # the token is what the last group that matched says (ECHAR with the character as its value)
        r"(?P<SPACE>\s+)|(?P<ESC>\\)(?P<ECHAR>.)|(?P<W>[a-z]+)|(?P<EQ>=)",
        ['ECHAR', 'WORD', '='],
        {'ECHAR': ['\\n', '\\t', '\\\\', '\\='], 'WORD': ['a', 'bc', 'n'], '=': ['=']},
        [" ", "\n", "  "],
        synonyms={'W': 'WORD', 'EQ': '='},
    ),
    TokCfg(
        "nine-letters",
        r"(?P<SPACE>\s+)|" + "|".join("(?P<%s>%s)" % (ch.upper(), ch) for ch in "abcdefghi"),
        list("abcdefghi"),
        {ch: [ch] for ch in "abcdefghi"},
        [" ", "\n", "  "],
        synonyms={ch.upper(): ch for ch in "abcdefghi"},
    ),
]


def tree_shape(t_elem, prods):
    """TElement tree (no cleanup) -> (name, [children]) / (terminal, None)"""
    if t_elem.name in prods:
        kids = t_elem.value or []
        return (t_elem.name, [tree_shape(c, prods) for c in kids])
    return (t_elem.name, None)


def validate_tree(t_elem, prods, start):
    """the C01 oracle. returns (errors, leaves[(name, value)])"""
    errs = []
    leaves = []
    if t_elem.name != start:
        errs.append(("root-is-not-start-symbol", t_elem.name))
    todo = [t_elem]
    while todo:
        x = todo.pop()
        if not hasattr(x, "name") or not hasattr(x, "value"):
            # (a bare value where an element of the tree has to be)
            errs.append(("child-is-not-a-tree-element", type(x).__name__, repr(x)[:40]))
            continue
        name = x.name
        if not isinstance(name, str) or '__' in name or name.startswith('$'):
            errs.append(("helper-symbol-in-tree", str(name)))
        if name in prods:
            if x.value is None:
                sig = ()
            elif isinstance(x.value, list):
                sig = tuple(getattr(c, "name", "?") for c in x.value)
            else:
                errs.append(("inner-node-value-not-list", name))
                continue
            if sig not in prods[name]:
                errs.append(("not-a-user-production", name, list(sig)))
            if x.value:
                todo.extend(reversed(x.value))
        else:
            leaves.append((name, x.value))
    return errs, leaves
