"""One shard of one check = one process.  python -m vf.shard <spec.json> <out.json>"""
import importlib
import json
import os
import sys
import traceback


def main():
    spec = json.load(open(sys.argv[1]))
    out_path = sys.argv[2]
    import vf
    vf.use_repo()
    from vf.core import Ctx, Inconclusive, CaseTimeout, unjson
    cover = None
    if os.environ.get("VF_COVER"):
        # line coverage of the repository's code under this shard (tools/cover.py): every line reports
        # once and is then switched off, so the cost is negligible and verdicts are unaffected
        cover = set()
        prefix = os.path.join(vf.REPO, "ak") + os.sep
        mon = sys.monitoring

        def _line(code, line):
            if code.co_filename.startswith(prefix):
                cover.add((code.co_filename[len(prefix):], line))
            return mon.DISABLE
        mon.use_tool_id(1, "vf-cover")
        mon.register_callback(1, mon.events.LINE, _line)
        mon.set_events(1, mon.events.LINE)
    mod = importlib.import_module(f"vf.checks.{spec['prop'].lower()}")
    ctx = Ctx(spec["prop"], spec["tier"], spec["seed"], spec["shard"],
              spec["n_shards"], spec["cases"], spec.get("params"))
    if (spec["shard"] % 4 == 1 and spec.get("replay") is None) or os.environ.get("VF_DEBUG_LOG"):
        # every fourth shard runs with the package's loggers at DEBUG (the messages go nowhere): code that only
        # runs when somebody listens is part of what a user executes
        import logging
        ak_log = logging.getLogger("ak")
        if not ak_log.handlers:
            ak_log.addHandler(logging.NullHandler())
        ak_log.propagate = False
        ak_log.setLevel(logging.DEBUG)
        ctx.counters["shards_run_with_the_package_loggers_at_DEBUG"] = 1
    if os.environ.get("VF_SHARD_ODD_ENV"):
        ctx.counters["shards_run_in_the_environment_of_a_minimal_machine"] = 1
    try:
        if spec.get("replay") is not None:
            mod.replay(ctx, unjson(spec["replay"]))
        else:
            mod.run_shard(ctx)
        ctx.disarm()
        res = ctx.result()
    except CaseTimeout:
        ctx.disarm()
        res = ctx.result()
        res["inconclusive"].append(
            f"shard {spec['shard']}: case {ctx._armed_for} exceeded {ctx.case_timeout:.0f}s of wall-clock "
            f"(cases take milliseconds); the shard stopped there, results so far are kept")
        res["fatal_inconclusive"] = True
    except Inconclusive as err:
        res = ctx.result()
        res["inconclusive"].append(f"shard {spec['shard']}: {err}")
        res["fatal_inconclusive"] = True
    except BaseException:  # harness failure: never a verdict
        res = ctx.result()
        res["harness_error"] = traceback.format_exc()[-3000:]
    if cover is not None:
        sys.monitoring.set_events(1, 0)
        res["cover"] = sorted(cover)
    tmp = out_path + ".tmp"
    with open(tmp, "w") as f:
        json.dump(res, f)
    os.replace(tmp, out_path)


if __name__ == "__main__":
    main()
