"""One shard of one check = one process.  python -m vf.shard <spec.json> <out.json>"""
import importlib
import json
import os
import sys
import traceback


def main():
    spec = json.load(open(sys.argv[1]))
    out_path = sys.argv[2]
    import vf
    vf.use_repo()
    from vf.core import Ctx, Inconclusive, CaseTimeout, unjson
    mod = importlib.import_module(f"vf.checks.{spec['prop'].lower()}")
    ctx = Ctx(spec["prop"], spec["tier"], spec["seed"], spec["shard"],
              spec["n_shards"], spec["cases"], spec.get("params"))
    try:
        if spec.get("replay") is not None:
            mod.replay(ctx, unjson(spec["replay"]))
        else:
            mod.run_shard(ctx)
        ctx.disarm()
        res = ctx.result()
    except CaseTimeout:
        ctx.disarm()
        res = ctx.result()
        res["inconclusive"].append(
            f"shard {spec['shard']}: case {ctx._armed_for} exceeded {ctx.case_timeout:.0f}s of wall-clock "
            f"(cases take milliseconds); the shard stopped there, results so far are kept")
        res["fatal_inconclusive"] = True
    except Inconclusive as err:
        res = ctx.result()
        res["inconclusive"].append(f"shard {spec['shard']}: {err}")
        res["fatal_inconclusive"] = True
    except BaseException:  # harness failure: never a verdict
        res = ctx.result()
        res["harness_error"] = traceback.format_exc()[-3000:]
    tmp = out_path + ".tmp"
    with open(tmp, "w") as f:
        json.dump(res, f)
    os.replace(tmp, out_path)


if __name__ == "__main__":
    main()
