"""Rendering requests for C10: used by the check (long-lived objects, history order) and by the
reference child process (brand-new objects per request, all kept alive, another order).

  python -m vf.render10 <scenario.json>   -> prints JSON list of renderings, one per request
"""
import contextlib
import io
import json
import logging
import sys

import vf
vf.use_repo()
from ak import color as akcolor  # noqa: E402
from ak.color import ColorsConfig, CHText  # noqa: E402
from ak.ppobj import PPTable, PrettyPrinter, PPRecordFmt, PPWrap  # noqa: E402
from ak.hdoc import HCommand, h_doc, BoundMethodNotes  # noqa: E402
from ak.mcaller_http import MCallerHttp, method_http  # noqa: E402
from ak.ghist import ReposCollection, GHistReport  # noqa: E402
from vf import tables as T  # noqa: E402
from vf import mockgit as mg  # noqa: E402
from vf.core import unjson  # noqa: E402

logging.disable(logging.CRITICAL)


class Caller(MCallerHttp):
    """Some caller
    details of the caller
    """
    _HDOC_ATTRS = [('http_conn', 'the connection')]

    @method_http('basic')
    def m1(self, a, b=3):
        """method one
        body text
        #tag1 #x
        """

    @method_http
    def m2(self):
        """method two"""


@h_doc
class Gadget:
    """A gadget of the application
    it documents itself with the package's help
    """
    # (ready-made notes, kept by the class: the same objects are handed out for several methods, again and again)
    _NOTES_OK = BoundMethodNotes(True, "", "")
    _NOTES_NA = BoundMethodNotes(False, "n/a", "! needs a licence !")

    def start(self):
        """start it
        #run
        """

    def stop(self, hard=False):
        """stop it"""

    def park(self):
        """park it for the night"""

    def _get_hdoc_method_notes(self, bound_method, _c):
        if bound_method.__name__ == 'park':
            # (notes made for this request, in the colours of the palette that is handed in: a line of blanks keeps the
            # place of a note free)
            return BoundMethodNotes(True, "", CHText(_c.warn("   ")))
        return self._NOTES_OK if bound_method.__name__ == 'start' else self._NOTES_NA


def build_object(spec, shared):
    """shared: dict for things several objects of one scenario share (the enum field type)"""
    kind = spec['kind']
    if kind == 'pp':
        return PrettyPrinter(fmt_json=spec['json'])
    if kind == 'ppwrap':
        return PPWrap(unjson(spec['value']))
    if kind in ('table', 'rec'):
        ft = shared.get('ft')
        if ft is None:
            ft = shared['ft'] = T.mk_field_types()
        recs = [tuple(r) for r in spec['recs']]
        if kind == 'table' and 'base_spec' in spec:
            # a table that takes its format from the format object of another table of the scenario (in the
            # history that table lives long and is rendered too, in the reference it is new and never rendered)
            base = shared.setdefault('tables', {}).get(spec['base_spec']['tid'])
            if base is None:
                base = build_object(spec['base_spec'], shared)
            return PPTable(recs, fmt_obj=base.fmt, header=spec.get('header'), footer=spec.get('footer'))
        if kind == 'table':
            titles = spec.get('titles')
            if titles:
                titles = {k: unjson(v) for k, v in titles.items()}
            tbl = PPTable(recs, fields=T.FIELDS, fmt=spec['fmt'], header=spec.get('header'),
                          footer=spec.get('footer'), fields_types=ft, fields_titles=titles)
            if 'tid' in spec:
                shared.setdefault('tables', {})[spec['tid']] = tbl
            return tbl
        return PPRecordFmt(spec['fmt'], fields=T.FIELDS, fields_types=ft)
    if kind == 'ghist':
        repo = mg.rebuild(spec['repo'])
        return ReposCollection({'r': mg.TRepo('r', repo, 'origin')}).make_report(spec['text'])
    if kind == 'hdoc':
        if spec.get('target') in ('gadget', 'gadget-method'):
            return Gadget() if spec['target'] == 'gadget' else Gadget().stop if spec.get('level', 1) % 2 else Gadget().park
        if spec.get('target') == 'method':
            return Caller("http://h").m1      # a method that is not available in this object (auth type)
        return Caller("http://h") if spec['bound'] else Caller
    raise AssertionError(kind)


_CUSTOM = {}


def custom_table_palette(variant=1):
    """a table palette that re-maps the palette of enum cells (SUB_PALETTES_MAP).  The classes are made by this
    factory: variant 1 and variant 2 are different classes with the SAME qualified names; the second one brings
    syntax ids and defaults of its own (each refers to a built-in id and adds effects to it)"""
    if variant not in _CUSTOM:
        from ak.ppobj import PPEnumFieldType
        from ak.color import ConfColor

        class VfEnumPalette(PPEnumFieldType.EnumPalette):
            if variant == 5:
                # (only the ids of its own: what the class it derives from describes comes through that class)
                SYNTAX_DEFAULTS = {"VFCUSTOM5.GOOD": "CYAN", "VFCUSTOM5.BAD": "MAGENTA:bold"}
                name_good = ConfColor('VFCUSTOM5.GOOD')
                name_warn = ConfColor('VFCUSTOM5.BAD')
            elif variant == 2:
                # (a class that declares defaults of its own repeats those of the class it derives from)
                SYNTAX_DEFAULTS = dict(PPEnumFieldType.EnumPalette.SYNTAX_DEFAULTS or {},
                                       **{"VFCUSTOM.VALUE": "NUMBER:bold,underline", "VFCUSTOM.GOOD": "OK:crossed"})
                value = ConfColor('VFCUSTOM.VALUE')
                name_good = ConfColor('VFCUSTOM.GOOD')
            elif variant != 5:
                value = ConfColor('NUMBER')
                name_good = ConfColor('OK')
            if variant != 5:
                name_warn = ConfColor('WARN')

        class VfTablePalette(PPTable.TablePalette):
            SUB_PALETTES_MAP = {PPEnumFieldType.EnumPalette: VfEnumPalette}
            if variant == 2:
                SYNTAX_DEFAULTS = dict(PPTable.TablePalette.SYNTAX_DEFAULTS or {}, **{"VFCUSTOM.BORDER": "WARN:underline", "VFCUSTOM.X": "KEYWORD:blink,crossed"})
                border = ConfColor('VFCUSTOM.BORDER')
            else:
                border = ConfColor('KEYWORD')

        if variant in (3, 4):
            # variant 4: a table palette with an id of its own; variant 3: a palette that names variant 4 as its PARENT
            # palette and declares the same id again, with another colour (the parent's description is the one that
            # counts: parents are registered first)
            # (both give the marker of cut cells and the padding a look of their own; the palette of enum cells is the
            # stock one - the very object the stock table palette of the same configuration uses)
            class VfParentTablePalette(PPTable.TablePalette):
                SYNTAX_DEFAULTS = dict(PPTable.TablePalette.SYNTAX_DEFAULTS or {},
                                       **{"VFCUSTOM.PB": "RED:underline", "VFCUSTOM.PW": "MAGENTA:underline"})
                border = ConfColor('VFCUSTOM.PB')
                warn = ConfColor('VFCUSTOM.PW')

            class VfChildTablePalette(PPTable.TablePalette):
                PARENT_PALETTES = [VfParentTablePalette]
                SYNTAX_DEFAULTS = dict(PPTable.TablePalette.SYNTAX_DEFAULTS or {},
                                       **{"VFCUSTOM.PB": "GREEN:bold", "VFCUSTOM.PT": "CYAN/g3"})
                border = ConfColor('VFCUSTOM.PB')
                text = ConfColor('VFCUSTOM.PT')

            _CUSTOM[3], _CUSTOM[4] = VfChildTablePalette, VfParentTablePalette
            return _CUSTOM[variant]
        _CUSTOM[variant] = VfTablePalette
    return _CUSTOM[variant]


def custom_pp_palette():
    """a palette of the application for printed values: no descriptions of its own - it names the palettes whose ids it
    uses as its parents (the printer's own palette, and the record palette from which it borrows the look of numbers)"""
    if 'pp' not in _CUSTOM:
        from ak.color import ConfColor
        from ak.ppobj import FieldType

        class VfPPPalette(PrettyPrinter.PPPalette):
            SYNTAX_DEFAULTS = None
            PARENT_PALETTES = [PrettyPrinter.PPPalette, FieldType.PALETTE_CLASS]
            number = ConfColor('RECORD.NUMBER')
        _CUSTOM['pp'] = VfPPPalette
    return _CUSTOM['pp']


PALETTE_CLASSES = {'table': lambda: PPTable.TablePalette, 'pp': lambda: PrettyPrinter.PPPalette,
                   'ghist': lambda: GHistReport.GHistPalette}


def render(obj, ospec, req, conf_dict, live_conf=None, observe=None):
    """one rendering request -> str.  req: {no_color, mode, via}"""
    kind = ospec['kind']
    no_color = req['no_color']
    via = req['via']
    if kind == 'hdoc' and via != 'global':
        # the help text generated with an explicit palette (what HCommand does with its own palette)
        palette = HCommand.HCmdPalette(live_conf if live_conf is not None else ColorsConfig(conf_dict), no_color)
        if observe is not None:
            observe(type("R", (), {"cp": palette})())
        return "\n".join(str(line) for line in obj._h_doc.gen_help_text(
            obj, HCommand._DFLT_FILT_ARG, palette, ospec['level'], False))
    if kind == 'ppwrap':
        # a console wrapper: its only configuration is the global one at the moment it is printed
        akcolor.set_global_colors_config(ColorsConfig(conf_dict, no_color=no_color))
        try:
            return str(obj)
        finally:
            akcolor.set_global_colors_config(None)
    if kind == 'hdoc':
        akcolor.set_global_colors_config(ColorsConfig(conf_dict, no_color=no_color))
        try:
            out = io.StringIO()
            with contextlib.redirect_stdout(out):
                HCommand(ospec['level'])(obj)
            text = out.getvalue()
            return text[:-1] if text.endswith("\n") else text   # print() adds the line break
        finally:
            akcolor.set_global_colors_config(None)
    if kind == 'table' and req.get('set_fmt') and 'base_spec' not in ospec:
        # the long-lived table is re-formatted (columns AND limits given) before this request; the reference
        # builds its table with that format right away
        if getattr(obj, '_vf_fmt', ospec['fmt']) != req['set_fmt']:
            obj.fmt = req['set_fmt']
            obj._vf_fmt = req['set_fmt']
    if kind == 'table' and req.get('removed'):
        # columns were removed from the long-lived table before this request (the reference removes them from
        # its brand-new table before the first rendering)
        obj.remove_columns(list(req['removed']))
    conf = live_conf if live_conf is not None else ColorsConfig(conf_dict)
    kw = {}
    made_global = False
    if via == 'global':
        akcolor.set_global_colors_config(conf)
        made_global = True
        kw = dict(no_color=no_color)
    elif via == 'palette_class' and kind in PALETTE_CLASSES:
        kw = dict(palette=PALETTE_CLASSES[kind](), colors_conf=conf, no_color=no_color)
    elif via in ('custom_palette', 'custom_palette2', 'custom_palette3', 'custom_palette4') and kind == 'table':
        kw = dict(palette=custom_table_palette(int(via[-1]) if via[-1].isdigit() else 1), colors_conf=conf,
                  no_color=no_color)
    elif via in ('custom_palette', 'custom_palette3') and kind == 'pp':
        kw = dict(palette=custom_pp_palette(), colors_conf=conf, no_color=no_color)
    elif via == 'palette_synced' and kind in ('pp', 'ghist'):
        # a palette OBJECT that follows the global configuration (synced=True) is given, with or without no_color
        akcolor.set_global_colors_config(conf)
        made_global = True
        kw = dict(palette=PALETTE_CLASSES[kind]()(synced=True), no_color=no_color)
    elif via == 'palette_obj' and kind in PALETTE_CLASSES:
        kw = dict(palette=PALETTE_CLASSES[kind]()(conf), no_color=no_color)
    else:
        kw = dict(colors_conf=conf, no_color=no_color)
    try:
        if kind == 'pp':
            res = obj(unjson(ospec['value']), **kw)
        elif kind == 'rec':
            if req.get('touch_columns'):
                # the caller formats the record, builds a line of its own from the returned column texts (in place)
                # and throws it away; then the record is formatted for real
                data = obj(tuple(ospec['recs'][ospec['rec_index']]), **kw)
                for col in data.columns:
                    col += " #"
            data = obj(tuple(ospec['recs'][ospec['rec_index']]), **kw)
            if req.get('touch_columns'):
                # ... and the caller takes the text of the record, puts a mark behind it and takes the text again
                first = data.ch_text()
                first += " <-"
            res = data.ch_text()
        else:
            res = obj.ch_text(**kw)
        if observe is not None:
            observe(res)
        if req.get('discard_conf') and live_conf is None and not made_global and req['mode'] != 'interleaved':
            # the caller made the configuration just for this call and keeps no reference to it: by the time the
            # result is consumed only the result itself can keep it alive
            import gc
            kw = conf = None
            gc.collect()
        if made_global and req.get('switch_conf') is not None:
            # the result exists, nobody has looked at it yet - and the application installs another global
            # configuration (the result keeps the one that was in force when it was made)
            akcolor.set_global_colors_config(ColorsConfig(req['switch_conf']))
        if req['mode'] == 'whole':
            return str(res)
        # other ways to take the whole text out of a result
        if req['mode'] == 'copy':
            return str(res.get_ch_text())
        if req['mode'] == 'concat':
            # (the sum with an empty text is a text of the caller's own: extending it leaves the result alone)
            mine = (res + "") if len(ospec.get('fmt', '')) % 2 else ("" + res)
            whole = str(mine)
            mine += " <- the caller's note"
            again = str(res)
            return whole if again == whole else "<the result changed with the caller's copy>" + again
        if req['mode'] == 'centred':
            # the whole text centred in a field 7 wider than it is, the filler taken off again
            width = len(res) + 7
            out = format(res, "_^%d" % width)
            return out[3:-4] if out.startswith("___") and out.endswith("____") else "<filler misplaced>" + out
        if req['mode'] == 'format':
            return format(res, "")
        if req['mode'] == 'zero_width':
            # the width of the field is written with a leading zero (as "%03d"-minded callers do): for a text that is
            # a width like any other - the same in colour and without
            out = format(res, "0%d" % (len(res) + 6))
            return out[:-6] if out.endswith(" " * 6) else "<filler misplaced>" + out
        if req['mode'] == 'plain':
            return res.plain_text() if no_color else str(res)
        if req['mode'] == 'slice':
            return str(res[0:len(res)]) if len(ospec.get('fmt', '')) % 2 else str(res[:])
        if req['mode'] == 'fixed':
            return str(res.fixed_len(len(res)))
        if req['mode'] == 'compared':
            # the result is compared with a copy of itself, and a result of the same request with it
            same = (res == res.get_ch_text())
            return str(res) if same else "<result differs from its own copy>" + str(res)
        if req['mode'] == 'lines_join':
            return str(CHText("\n").join(res))
        if req['mode'] == 'whole_then_lines':
            str(res)
            return str(CHText("\n").join(res))
        if req['mode'] == 'interleaved':
            # the result is consumed line by line while another rendering of the same object
            # (other colours) is produced in between
            it = iter(res)
            first = []
            for _ in range(3):
                try:
                    first.append(next(it))
                except StopIteration:
                    break
            kw2 = dict(kw, no_color=not no_color)
            other = obj(unjson(ospec['value']), **kw2) if kind == 'pp' else obj.ch_text(**kw2)
            other_lines = list(other)
            str(CHText("\n").join(other_lines))
            return str(CHText("\n").join(first + list(it)))
        if req['mode'] == 'lines_twice':
            list(res)
            return str(CHText("\n").join(res))
        return "\n".join(str(CHText(line)) for line in res)
    finally:
        if made_global:
            akcolor.set_global_colors_config(None)


def main():
    scenario = json.load(open(sys.argv[1]))
    keep = []
    out = [None] * len(scenario['requests'])
    # another order than the history, brand-new objects and configurations for every request
    for idx in reversed(range(len(scenario['requests']))):
        req = dict(scenario['requests'][idx])
        req.pop('switch_conf', None)      # (the reference renders without any switch in between)
        req.pop('discard_conf', None)     # (... and keeps its configuration until the text is taken)
        req.pop('touch_columns', None)    # (... and nobody touches the column texts of an earlier result)
        ospec = scenario['objects'][req['obj']]
        shared = {}
        if ospec['kind'] == 'table' and req.get('set_fmt') and 'base_spec' not in ospec:
            # (a format that gave only the limits again: the reference takes the columns that were in force then)
            ospec = dict(ospec, fmt=req.get('ref_fmt') or req['set_fmt'])
            req.pop('set_fmt')
        req.pop('ref_fmt', None)
        obj = build_object(ospec, shared)
        keep.append((obj, shared))
        try:
            out[idx] = render(obj, ospec, req, scenario['confs'][req['conf']], observe=keep.append)
        except Exception as err:  # reported by the check
            out[idx] = {"error": f"{type(err).__name__}: {err}"[:300]}
    json.dump(out, sys.stdout)


if __name__ == "__main__":
    main()
