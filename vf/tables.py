"""Generators and the independent layout model for PPTable checks (C12, C13, C10)."""
import re
from numbers import Number

import vf
vf.use_repo()
from ak.color import CHText  # noqa: E402
from ak.ppobj import PPTable, PPEnumFieldType, FieldType, ALIGN_CENTER  # noqa: E402

FIELDS = ['a', 'b', 'st', 'd']
# (the look of a name is the name of a colour of the enum palette; a word that is no such name - even the id of a
# syntax of the global configuration - means ordinary text)
ENUM_DEF = {1: "one", 2: ("two", "name_warn"), 30: "thirty", 400: ("four hundred", "name_good"),
            5: ("five", "WARN"), 6: ("six", "no_such_look")}
ENUM_MAX_VAL_LEN = 3
TITLES_POOL = {
    # (the items of a title list may be objects of any simple kind: numbers, None, a flag)
    'a': ["a", "Alpha", "Title\nA\nx", ["A1", 22], [None], [False, "x"], [0.0, None]],
    # (a title may read like the NAME of another field)
    'b': ["b", "B|col", "long title of b", "two\nlines", "a"],
    'st': ["st", "status"],
    'd': ["d", "D\n\nd3", "st"],
}


class CenteredFieldType(FieldType):
    """a user-defined field type (the documented way to customise cells): values are centered"""

    def make_desired_cell_ch_chunks(self, value, fmt_modifier, field_palette):
        chunks, _ = super().make_desired_cell_ch_chunks(value, fmt_modifier, field_palette)
        return chunks, ALIGN_CENTER


class TaggedFieldType(FieldType):
    """a user-defined field type with format modifiers of its own: any text is accepted as a modifier (slashes
    and percent signs included, as in a date pattern) and is shown behind the value"""
    ALIGN = None

    def make_desired_cell_ch_chunks(self, value, fmt_modifier, field_palette):
        chunks, align = super().make_desired_cell_ch_chunks(value, None, field_palette)
        if fmt_modifier is not None:
            # (for the modifiers 'x' and 'u' the mark has the look of numbers: in colour the cell has two pieces of
            # different looks, without colours they melt into one)
            look = field_palette.number if fmt_modifier in ('x', 'u') and hasattr(field_palette, 'number') else field_palette.text
            chunks = chunks + [look("~" + fmt_modifier)]
        if fmt_modifier in ('x', 'u'):
            # (the cell is handed over as ONE text object - pieces of the same look melt into one run of characters,
            # so the text has other pieces with colours than without)
            chunks = CHText(*chunks)
        return chunks, self.ALIGN if self.ALIGN is not None else align

    def get_cell_text_len(self, value, fmt_modifier):
        # (a field type that hands over text objects has to say how long its cells are)
        if fmt_modifier in ('x', 'u'):
            chunks, _ = FieldType.make_desired_cell_ch_chunks(self, value, None, self.PALETTE_CLASS(no_color=True))
            return CHText.calc_chunks_len(chunks) + 1 + len(fmt_modifier)
        return super().get_cell_text_len(value, fmt_modifier)

    def is_fmt_modifier_ok(self, fmt_modifier):
        return True, ""


class TaggedCenteredFieldType(TaggedFieldType):
    ALIGN = ALIGN_CENTER


# (the empty modifier - "d/" - is a modifier too: the field type shows its mark with nothing behind it)
D_MODIFIERS = ['u', 'p/q', '%d/%m/%y', 'x', 'full', '']


def mk_field_types(centered=None, bounded=None):
    """bounded = (field, lo, hi): the width bounds are set on the field type, not in the column description"""
    ft = {'st': PPEnumFieldType(dict(ENUM_DEF)), 'd': TaggedFieldType()}
    if centered:
        ft[centered] = CenteredFieldType() if centered != 'd' else TaggedCenteredFieldType()
    if bounded:
        field, lo, hi = bounded
        ft[field] = (TaggedCenteredFieldType if field == centered else TaggedFieldType)(lo, hi) if field == 'd' else \
            CenteredFieldType(lo, hi) if field == centered else FieldType(lo, hi)
    return ft


def gen_val(rng, sgr_data=False):
    k = rng.random()
    if k < 0.3:
        return rng.choice([0, 1, 7, -12, 123456, 3.5, -0.25, 10 ** 12])
    if k < 0.4:
        return rng.choice([None, True, False])
    if k < 0.43 and sgr_data:
        # text that carries a terminal's colour sequences as data (a log line, the rendering of another text)
        return rng.choice(["a\x1b[1;31mb", "\x1b[m", "x\x1b[0m"])
    return "".join(rng.choice("ab|+-. xyz") for _ in range(rng.choice([0, 1, 2, 3, 5, 9, 20])))


def twin(rng, v):
    """a value that compares equal to v but is shown differently (1 / True / 1.0), where there is one"""
    if v is True or v is False:
        return int(v)
    if isinstance(v, int):
        return bool(v) if v in (0, 1) and rng.random() < 0.5 else float(v)
    return v


def gen_records(rng, counts=(0, 1, 2, 3, 5, 8, 13), sgr_data=False):
    n = rng.choice(counts)
    recs = []
    same_b = rng.random() < 0.4
    b_pool = [gen_val(rng, sgr_data) for _ in range(2)]
    for _ in range(n):
        if recs and rng.random() < 0.08:
            # a record that compares equal to an earlier one, field by field, but reads differently
            r = rng.choice(recs)
            recs.append((twin(rng, r[0]), twin(rng, r[1]), r[2], twin(rng, r[3])))
            continue
        recs.append((gen_val(rng, sgr_data), rng.choice(b_pool) if same_b else gen_val(rng, sgr_data),
                     # (the enum field also meets strings that READ like its values: "1", "None")
                     # (... and values that are no members of the enum and falsy: 0, 0.0, the empty text)
                     rng.choice([1, 2, 30, 400, 4, 55555, None, "x", 1, 2, None, "1", "2", "None", 5, 6, 0, 0.0, ""]),
                     gen_val(rng, sgr_data)))
    return recs


def gen_col(rng, allow_hidden=False):
    """-> dict(field, mod, brk, lo, hi, spec)"""
    f = rng.choice(FIELDS)
    spec = f
    mod = None
    if f == 'st' and rng.random() < 0.7:
        mod = rng.choice(['full', 'val', 'name'])
        spec += "/" + mod
    if f == 'd' and rng.random() < 0.35:
        mod = rng.choice(D_MODIFIERS)
        spec += "/" + mod
    brk = rng.random() < 0.25
    if brk:
        spec += "!"
    r = rng.random()
    lo, hi = 1, 999
    hidden = False
    if r < 0.3:
        lo = rng.choice([0, 0, 1, 2, 3, 5, 6])
        hi = lo + rng.choice([0, 0, 1, 3, 8, 10, 100])
        # (a range may be typed with blanks around its numbers)
        spec += rng.choice([":%d-%d", ":%d-%d", ":%d-%d", ":%d - %d", ": %d -%d", ":%d- %d "]) % (lo, hi)
    elif r < 0.5:
        lo = hi = rng.choice([0, 1, 2, 3, 4, 5, 8])
        spec += ":%d" % lo
    elif r < 0.58 and allow_hidden:
        hidden = True
        spec += ":-1"
    return dict(field=f, mod=mod, brk=brk, lo=lo, hi=hi, spec=spec, hidden=hidden)


def gen_fmt(rng, allow_hidden=False, with_limits=True):
    cols = [gen_col(rng, allow_hidden) for _ in range(rng.randint(1, 5))]
    if all(c['hidden'] for c in cols):
        cols.append(dict(field='a', mod=None, brk=False, lo=1, hi=999, spec='a', hidden=False))
    fmt = ",".join(c['spec'] for c in cols)
    limits = None
    if with_limits:
        r = rng.random()
        if r < 0.35:
            limits = rng.choice([(0, 0), (1, 1), (2, 0), (0, 3), (2, 2), (5, 5), (1, 0), (3, 1)])
            fmt += ";%d:%d" % limits
        elif r < 0.42:
            fmt += ";*"
    return fmt, cols, limits


def enum_text(value, mod):
    if value is None:
        return "None"
    try:
        known = value in ENUM_DEF
    except TypeError:
        known = False
    if known:
        name = ENUM_DEF[value]
        name = name[0] if isinstance(name, tuple) else name
        val_len = ENUM_MAX_VAL_LEN
    else:
        name = "<???>"
        val_len = max(ENUM_MAX_VAL_LEN, len(str(value)))
    if mod == 'val':
        return str(value)
    if mod == 'name':
        return name
    return str(value).rjust(val_len) + " " + name


def cell_text(rec, col):
    v = rec[FIELDS.index(col['field'])]
    if col['field'] == 'st':
        return enum_text(v, col['mod'])
    if col['field'] == 'd' and col.get('mod') is not None:
        return str(v) + "~" + col['mod']
    return str(v)


def cell_ok(cell, text, w):
    if len(cell) != w:
        return False
    if len(text) <= w:
        free = w - len(text)
        return any(cell == " " * a + text + " " * (free - a) for a in range(free + 1))
    d = min(3, w)
    return cell == text[:w - d] + "." * d


def fit_left(text, w):
    if len(text) <= w:
        return text.ljust(w)
    d = min(3, w)
    return text[:w - d] + "." * d


def title_lines(title):
    if isinstance(title, (list, tuple)):
        return [str(x) for x in title]
    return str(title).split("\n")


BORDER_RE = re.compile(r"(\+-*)+\+")
SKIP_RE = re.compile(r"^\.\.\. (\d+) records skipped *$")


def check_layout(lines, recs, cols, limits, header, footer, titles, first_print=False):
    """independent layout model. returns list of (mechanism, detail); `cols` = visible columns"""
    problems = []

    def P(mech, **detail):
        problems.append((mech, detail))

    if not lines:
        return [("no-output", {})]
    W = len(lines[0])
    uneven = [i for i, l in enumerate(lines) if len(l) != W]
    if uneven:
        P("lines-of-different-width", line=uneven[0], width=len(lines[uneven[0]]), expected=W)
        return problems
    border = lines[0]
    if not BORDER_RE.fullmatch(border):
        P("malformed-border", border=border)
        return problems
    plus = [i for i, ch in enumerate(border) if ch == '+']
    widths = [b - a - 1 for a, b in zip(plus, plus[1:])]
    if len(widths) != len(cols):
        P("wrong-number-of-columns", got=len(widths), expected=len(cols))
        return problems
    for w, c in zip(widths, cols):
        if not c['lo'] <= w <= c['hi']:
            P("column-width-out-of-bounds", width=w, lo=c['lo'], hi=c['hi'], col=c['spec'])
    bidx = [i for i, l in enumerate(lines) if l == border]
    if len(bidx) < 3:
        P("missing-border-line", borders=len(bidx))
        return problems
    # the three borders: first line, the one closing the titles, the one closing the body.
    # (a record row can never equal the border: it starts with '|')
    b0, b1, b2 = bidx[0], bidx[1], bidx[-1]
    if len(bidx) != 3:
        P("extra-border-line", borders=len(bidx))
        return problems

    def split_row(line):
        """cells of a row whose separators must sit at the '+' columns"""
        if any(line[i] != '|' for i in plus):
            return None
        return [line[a + 1:b] for a, b in zip(plus, plus[1:])]

    # ---- head: header + titles
    head = lines[b0 + 1:b1]
    if header:
        if not head or head[0] != "|" + fit_left(header, W - 2) + "|":
            P("header-line-wrong", got=head[0] if head else None)
        head = head[1:]
    tl_per_col = [title_lines(titles[c['field']]) for c in cols]
    n_title = max(len(t) for t in tl_per_col)
    if len(head) != n_title:
        P("wrong-number-of-title-lines", got=len(head), expected=n_title)
    else:
        for j, line in enumerate(head):
            cells = split_row(line)
            if cells is None:
                P("title-separators-not-under-plus", line=line)
                continue
            for cell, tls, w, c in zip(cells, tl_per_col, widths, cols):
                text = tls[j] if j < len(tls) else ""
                if not cell_ok(cell, text, w):
                    P("title-cell-wrong", cell=cell, title=text, width=w)
                elif first_print and len(text) > w and w < c['hi']:
                    P("title-cut-although-the-column-may-be-wider", cell=cell, title=text, width=w)
    # ---- body
    body = lines[b1 + 1:b2]
    brk = [c for c in cols if c['brk']]
    tl = []
    prev = None
    for r in recs:
        cur = [r[FIELDS.index(c['field'])] for c in brk]
        if prev is not None and prev != cur:
            tl.append('BRK')
        tl.append(r)
        prev = cur
    n_first = n_last = None
    if limits is not None:
        n_first, n_last = limits
        expect_skip = len(tl) > n_first + n_last + 1
    else:
        expect_skip = None
    # locate the skipped-line by structure: body shorter than tl
    if len(body) == len(tl):
        shown = list(tl)
        skip_idx = None
        if expect_skip:
            P("record-limits-not-applied", lines=len(tl), limits=limits)
    else:
        if expect_skip is False:
            P("records-missing-although-limits-do-not-apply", body=len(body), lines=len(tl), limits=limits)
            return problems
        # find k: first k lines + skip + last m lines
        skip_idx = None
        fallback = None
        for i in range(len(body)):
            k, m = i, len(body) - i - 1
            if limits is not None and (k, m) != (n_first, n_last):
                continue
            if k + m < len(tl) and _rows_match(body[:k], tl[:k], cols, widths, plus, W) \
                    and _rows_match(body[i + 1:], tl[len(tl) - m:] if m else [], cols, widths, plus, W):
                n_sh = sum(1 for x in tl[:k] + (tl[len(tl) - m:] if m else []) if x != 'BRK')
                if body[i][1:-1] == fit_left("... %d records skipped" % (len(recs) - n_sh), W - 2):
                    skip_idx = i
                    break
                if fallback is None:
                    fallback = i
        if skip_idx is None:
            skip_idx = fallback
        if skip_idx is None:
            P("body-is-not-first-n-lines-skip-line-last-m-lines", body=body[:6], limits=limits)
            return problems
        k, m = skip_idx, len(body) - skip_idx - 1
        shown = tl[:k] + ['SKIP'] + (tl[len(tl) - m:] if m else [])
        n_shown = sum(1 for x in shown if x not in ('BRK', 'SKIP'))
        n_skipped = len(recs) - n_shown
        full = "... %d records skipped" % n_skipped
        got = body[skip_idx][1:-1]
        mm = SKIP_RE.match(got)
        if mm:
            if int(mm.group(1)) + n_shown != len(recs):
                P("skipped-plus-shown-differs-from-total", announced=int(mm.group(1)), shown=n_shown,
                  total=len(recs))
        elif got != fit_left(full, W - 2):
            P("skipped-records-line-wrong", got=got, expected=fit_left(full, W - 2))
    if len(body) != len(shown):
        P("wrong-number-of-body-lines", got=len(body), expected=len(shown))
        return problems
    for line, x in zip(body, shown):
        if x == 'SKIP':
            continue
        if x == 'BRK':
            if line != "|" + " " * (W - 2) + "|":
                P("break-line-wrong", line=line)
            continue
        cells = split_row(line)
        if cells is None:
            P("record-separators-not-under-plus", line=line, border=border)
            continue
        for cell, c, w in zip(cells, cols, widths):
            text = cell_text(x, c)
            if not cell_ok(cell, text, w):
                P("cell-shows-wrong-text", cell=cell, value=text, width=w, col=c['spec'])
            elif first_print and len(text) > w and w < c['hi']:
                # (a value is cut when it is too long for the column's MAXIMUM: on the first print of a table - when the
                # widths are made for these very records - a column that may still grow shows it)
                P("cell-cut-although-the-column-may-be-wider", cell=cell, value=text, width=w, hi=c['hi'], col=c['spec'])
    # ---- footer
    tail = lines[b2 + 1:]
    exp_footer = footer if footer is not None else "Total %d records" % len(recs)
    if exp_footer:
        if tail != [fit_left(exp_footer, W)]:
            P("footer-line-wrong", got=tail[:2], expected=fit_left(exp_footer, W))
    elif tail:
        P("unexpected-lines-after-table", got=tail[:2])
    return problems


def _rows_match(lines, items, cols, widths, plus, W):
    if len(lines) != len(items):
        return False
    for line, x in zip(lines, items):
        if x == 'BRK':
            if line != "|" + " " * (W - 2) + "|":
                return False
            continue
        if any(line[i] != '|' for i in plus):
            return False
        cells = [line[a + 1:b] for a, b in zip(plus, plus[1:])]
        if not all(cell_ok(cell, cell_text(x, c), w) for cell, c, w in zip(cells, cols, widths)):
            return False
    return True


class PlainTextDiffers(Exception):
    pass


def render(table):
    # the real no-colour output (str), not plain_text(): leaked escape sequences must show
    res = table.ch_text(no_color=True)
    out = str(res)
    # ... and the other documented way to take the text of a no-colour result gives the same characters
    if hasattr(res, "plain_text") and res.plain_text() != out:
        raise PlainTextDiffers("plain_text() of the no-colour result differs from its str(): %r" % res.plain_text()[:80])
    return out
