"""Grammar generators and textbook reference algorithms (independent of ak.llparser).

A grammar is {non_terminal: [tuple_of_symbols, ...]} with ordered alternatives; a symbol is a
non-terminal iff it is a key of the dict.
"""
import itertools

NT_NAMES = ['E', 'P', 'Q', 'R', 'S', 'T', 'U']


# ----------------------------------------------------------------- generators
def gen_grammar(rng, terms, lr_bias=0.93, max_nts=4, max_alts=4, max_len=5, start='E'):
    """random grammar with common-prefix groups; `lr_bias` = probability to avoid a symbol
    that could make the grammar left recursive (0 switches the bias off)"""
    nts = [start] + rng.sample([n for n in NT_NAMES if n != start], rng.randint(0, max_nts - 1))
    rng.shuffle(nts)
    prods = {}
    for nt in nts:
        alts = []
        for _ in range(rng.randint(1, max_alts)):
            if alts and rng.random() < 0.45:
                base = rng.choice(alts)
                alt = list(base[:rng.randint(0, len(base))])
            else:
                alt = []
            for _ in range(rng.randint(0, 3)):
                if rng.random() < 0.6:
                    alt.append(rng.choice(terms))
                else:
                    later = nts[nts.index(nt) + 1:]
                    nullable_so_far = all(x not in terms for x in alt)
                    if nullable_so_far and later and rng.random() < lr_bias:
                        alt.append(rng.choice(later))
                    elif nullable_so_far and not later and rng.random() < lr_bias:
                        alt.append(rng.choice(terms))
                    else:
                        alt.append(rng.choice(nts))
            alt = tuple(alt[:max_len])
            if alt == () and () in alts:
                alt = (rng.choice(terms),)
            while alts and alt == alts[-1]:
                # adjacent duplicates make the constructor assert: out of domain
                alt = alt + (rng.choice(terms),)
            alts.append(alt)
        prods[nt] = alts
    return prods


def gen_ll1_candidate(rng, terms, start='E', max_nts=4):
    """grammar that is LL(1) with good probability (to be filtered by is_ll1):
    alternatives of one symbol start with different terminals, at most one alternative is
    nullable, nullable symbols are used in front of / at the end of productions so that
    FOLLOW sets decide."""
    nts = [start] + rng.sample([n for n in NT_NAMES if n != start], rng.randint(1, max_nts - 1))
    prods = {}
    for idx, nt in enumerate(nts):
        later = nts[idx + 1:]
        n_alts = rng.randint(1, min(4, len(terms)))
        firsts = rng.sample(terms, n_alts)
        alts = []
        for k, f in enumerate(firsts):
            alt = [f]
            for _ in range(rng.randint(0, 3)):
                r = rng.random()
                if r < 0.45:
                    alt.append(rng.choice(terms))
                elif r < 0.8 and later:
                    alt.append(rng.choice(later))
                elif r < 0.9:
                    alt.append(nt)  # right recursion
                else:
                    alt.append(rng.choice(nts))
            if later and rng.random() < 0.3:
                # start with a (possibly nullable) later symbol instead of the terminal
                alt = [rng.choice(later)] + (alt if rng.random() < 0.5 else alt[1:])
            alts.append(tuple(alt[:5]))
        if nt != start and rng.random() < 0.55 or (nt == start and rng.random() < 0.15):
            alts.insert(rng.randint(0, len(alts)), ())
        # no adjacent duplicates
        alts = [a for i, a in enumerate(alts) if i == 0 or a != alts[i - 1]]
        prods[nt] = alts
    return prods


def _gen_group(rng, terms, later, prefix, depth):
    """alternatives that all start with `prefix`; continuations start with different terminals,
    some continuations are nested groups (common prefixes inside common prefixes)"""
    n_branches = rng.randint(2, min(5, len(terms)))
    firsts = rng.sample(terms, n_branches)
    blocks = []
    for f in firsts:
        if depth < 2 and rng.random() < 0.35:
            blocks.append(_gen_group(rng, terms, later, prefix + (f,), depth + 1))
        else:
            tail = tuple(rng.choice(later) if later and rng.random() < 0.4 else rng.choice(terms)
                         for _ in range(rng.choice([0, 1, 1, 2, 2, 3])))
            blocks.append([prefix + (f,) + tail])
    if rng.random() < 0.3:
        blocks.insert(rng.randint(0, len(blocks)), [prefix])
    if rng.random() < 0.5:
        rng.shuffle(blocks)
    return [alt for block in blocks for alt in block]


def gen_prefix_group_grammar(rng, terms, start='E', max_nts=3):
    """grammars whose alternatives come in groups sharing a prefix, the continuations of one
    group starting with different terminals (at most one empty), groups nested up to three
    levels (a b c | a b d | a x y): not LL(1) as written, but conflict-free after left
    factorization with good probability. Groups of up to 7 alternatives."""
    nts = [start] + rng.sample([n for n in NT_NAMES if n != start], rng.randint(0, max_nts - 1))
    prods = {}
    for idx, nt in enumerate(nts):
        later = nts[idx + 1:]
        heads = rng.sample(terms, min(rng.randint(1, 2), len(terms)))
        alts = []
        for head in heads:
            prefix = (head,) + tuple(rng.choice(terms) for _ in range(rng.choice([0, 0, 1, 2])))
            if rng.random() < 0.5:
                group = _gen_group(rng, terms, later, prefix, 0)
                if rng.random() < 0.35:
                    # the user lists the alternatives in any order: members of an inner group need not be
                    # neighbours (a b c | a x y | a b d)
                    rng.shuffle(group)
                alts.extend(group)
            else:
                size = rng.randint(1, min(7, len(terms) + 1))
                conts = rng.sample(terms, min(size, len(terms)))
                group = []
                for c in conts:
                    alt = [c]
                    for _ in range(rng.randint(0, 2)):
                        alt.append(rng.choice(later) if later and rng.random() < 0.4 else rng.choice(terms))
                    group.append(prefix + tuple(alt))
                if size > len(conts) or rng.random() < 0.3:
                    group.insert(rng.randint(0, len(group)), prefix)
                alts.extend(group)
        if nt != start and rng.random() < 0.3:
            alts.append(())
        alts = [a for i, a in enumerate(alts) if i == 0 or a != alts[i - 1]]
        prods[nt] = alts
    return prods


def gen_prefix_divergence_grammar(rng, terms, start='E'):
    """three to five alternatives behind one first symbol; two of them share a longer prefix, the others leave
    it after the first symbol; every alternative is longer than the shortest common prefix of any two; the order
    of the alternatives is random (a b c | a b d | a x y, a b c | a x y | a b d, a x y | a b c | a b d, ...).
    Conflict-free after left factorization: the continuations start with different terminals."""
    ts = list(terms)
    rng.shuffle(ts)
    a, b = ts[0], ts[1 % len(ts)]
    rest = ts[2:] or ts
    inner = rng.sample(rest, min(len(rest), rng.randint(2, 3)))
    outer = [t for t in ts if t not in (b,)][:] 
    outer = rng.sample([t for t in ts if t != b], min(len([t for t in ts if t != b]), rng.randint(1, 2)))

    def tail():
        return tuple(rng.choice(ts) for _ in range(rng.randint(0, 2)))
    alts = [(a, b, c) + tail() for c in inner] + [(a, x) + (rng.choice(ts),) + tail() for x in outer]
    rng.shuffle(alts)
    prods = {start: alts}
    if rng.random() < 0.4:
        # the same group one level down
        other = 'P'
        prods[other] = prods[start]
        prods[start] = [(rng.choice(ts), other), (other,)] if rng.random() < 0.5 else [(other, rng.choice(ts))]
    return prods


def gen_nullable_led_grammar(rng, terms, start='E'):
    """several alternatives of the start symbol begin with (different) nullable symbols, some of which have a
    longer non-empty alternative that can fail after matching something: the parser has to give up collected
    EMPTY children when it switches to the next alternative.  E -> N M a | Q c d ; N, M, Q nullable; M -> c g | ()"""
    names = [n for n in NT_NAMES if n != start]
    rng.shuffle(names)
    nullables = names[:rng.randint(2, 4)]
    prods = {}
    alts = []
    for _ in range(rng.randint(2, 3)):
        lead = [rng.choice(nullables) for _ in range(rng.randint(1, 2))]
        tail = [rng.choice(terms) for _ in range(rng.randint(1, 3))]
        alts.append(tuple(lead + tail))
    alts = [a for i, a in enumerate(alts) if a not in alts[:i]]
    prods[start] = alts
    for n in nullables:
        non_empty = tuple(rng.choice(terms) for _ in range(rng.randint(1, 2)))
        prods[n] = [non_empty, ()] if rng.random() < 0.7 else [(), non_empty]
    return prods


def gen_shared_rhs_candidate(rng, terms, start='E'):
    """LL(1) candidates in which two different symbols have an identical alternative that ends in
    a nullable symbol N, and are used in contexts with different followers: FOLLOW(N) must
    collect the followers of both."""
    x, y, p, c = rng.sample(terms, 4) if len(terms) >= 4 else (terms * 4)[:4]
    others = [t for t in terms if t not in (x, y)]
    n_tok = rng.choice(others) if others else x
    a_name, c_name, n_name = rng.sample([nm for nm in NT_NAMES if nm != start], 3)
    shared = (p, n_name) if rng.random() < 0.7 else (n_name,)
    extra_a = [(y,)] if rng.random() < 0.3 and y not in shared else []
    prods = {
        start: [(x, a_name, x), (c, c_name, y)] if c != x else [(x, a_name, x), (y, c_name, y)],
        a_name: [shared] + extra_a,
        c_name: [shared],
        n_name: [(n_tok,), ()] if rng.random() < 0.5 else [(), (n_tok,)],
    }
    if rng.random() < 0.5:
        prods[start].reverse()
    items = list(prods.items())
    rng.shuffle(items)
    return dict(items)


def shuffle_declaration_order(rng, prods):
    """the same grammar with its symbols declared in another order (dict order)"""
    items = list(prods.items())
    r = rng.random()
    if r < 0.4:
        rng.shuffle(items)
    elif r < 0.7:
        items.reverse()      # bottom-up declaration
    return dict(items)


def right_recursion_behind_nullables(rng, terms, order):
    """NOT left recursive: X -> N1..Nk B X tail | t with nullable N1..Nk and a non-nullable
    non-terminal B in front of the recursive X. `order` = relative alphabetical order of the
    names of X (index 0), B (index 1) and N1..Nk."""
    k = len(order) - 2
    pool = ['A', 'B', 'C', 'D', 'F', 'G', 'H', 'K']
    sorted_names = sorted(pool[:k + 2])
    names = [None] * (k + 2)
    for rank, who in enumerate(order):
        names[who] = sorted_names[rank]
    x, b, nulls = names[0], names[1], names[2:]
    prods = {}
    for n in nulls:
        alts = [(), (rng.choice(terms),)]
        rng.shuffle(alts)
        prods[n] = alts
    prods[b] = [(rng.choice(terms),)] + ([(rng.choice(terms), rng.choice(terms))] if rng.random() < 0.4 else [])
    if rng.random() < 0.35:
        # B has no token of its own: it is the same nullable symbol two or three times and a symbol that is not
        # nullable (fewer DISTINCT symbols than positions; B is not nullable, whatever is counted)
        q = nulls[0] if nulls and rng.random() < 0.7 else 'P'
        if q == 'P':
            prods['P'] = [(), (rng.choice(terms),)]
        prods['M'] = [(rng.choice(terms),)]
        body = [q] * rng.choice([2, 2, 3]) + ['M']
        if rng.random() < 0.4:
            rng.shuffle(body)
        prods[b] = [tuple(body)]
    tail = tuple(rng.choice(terms) for _ in range(rng.randint(0, 1)))
    alts = [tuple(nulls) + (b, x) + tail, (rng.choice(terms),)]
    rng.shuffle(alts)
    prods[x] = alts
    mode = rng.randrange(3)
    if mode == 0:
        start = x
    else:
        start = 'E' if 'E' not in prods else 'Z'
        prods[start] = [(rng.choice(terms), x) if mode == 1 else (x, rng.choice(terms))]
    items = list(prods.items())
    rng.shuffle(items)
    return dict(items), start


def gen_follow_context_candidate(rng, terms, start='E'):
    """LL(1) candidates in which a nullable symbol N occurs in two contexts with different
    followers (x after 'M N', y elsewhere) and the nullable symbol M in front of it has an
    alternative starting with y: FOLLOW(M) must not inherit the whole FOLLOW(N)."""
    x, y, n, p = rng.sample(terms, 4)
    names = rng.sample([nm for nm in NT_NAMES if nm != start], 3)
    m_name, n_name, x_name = names

    def tail(k):
        return tuple(rng.choice(terms) for _ in range(rng.randint(0, k)))

    m_alts = [(), (y,) + tail(2)]
    n_alts = [(), (n,) + tail(1)]
    if rng.random() < 0.4:
        n_alts.append((p,) + tail(1))
    rng.shuffle(m_alts)
    rng.shuffle(n_alts)
    main = (m_name, n_name, x) + tail(1)
    if rng.random() < 0.3:
        main = (m_name, n_name, n_name, x)
    second = (p, x_name) if rng.random() < 0.7 else (p, n_name, y)
    e_alts = [main, second]
    rng.shuffle(e_alts)
    prods = {start: e_alts, m_name: m_alts, n_name: n_alts, x_name: [(n_name, y) + tail(1)]}
    if rng.random() < 0.5:
        # one more level: FIRST of a symbol whose alternative starts with nullable symbols is needed
        # by the production that uses it
        w_name = next(nm for nm in NT_NAMES + ['W'] if nm not in prods)
        prods[w_name] = prods[start]
        prods[start] = [(w_name,) + tail(1)] if rng.random() < 0.7 else [(w_name, w_name)]
    items = list(prods.items())
    rng.shuffle(items)
    return dict(items)


def gen_epsilon_only_grammar(rng, terms, start='E'):
    """LL(1) grammars with a symbol that derives the empty string and nothing else (a placeholder of the grammar
    author): in front of a token inside a production that is reached through another symbol, or behind an optional
    symbol"""
    x, y, z = rng.sample(terms, 3)
    names = rng.sample([nm for nm in NT_NAMES if nm != start], 4)
    a, n, m, b = names
    eps = {n: [()]} if rng.random() < 0.5 else {n: [(m,), ()][:rng.randint(1, 2)], m: [()]}
    if rng.random() < 0.5:
        # E -> A y | z ;  A -> N x
        prods = {start: [(a, y), (z,)], a: [(n, x)] if rng.random() < 0.6 else [(n, n, x)]}
    else:
        # E -> B N x | y ;  B -> z | e
        prods = {start: [(b, n, x), (y,)], b: [(z,), ()]}
    prods.update(eps)
    for alts in prods.values():
        rng.shuffle(alts)
    items = list(prods.items())
    rng.shuffle(items)
    return dict(items)


def gen_follow_ring_grammar(rng, terms):
    """LL(1) grammar whose FOLLOW sets depend on each other in a RING of 3-6 optional symbols:
    E -> t N0 end;  Ni -> ti N(i+1) | e;  the last one refers to N0 again. What may follow one of them may follow all"""
    k = rng.randint(3, 6)
    end = rng.choice(terms)
    leads = [t for t in terms if t != end] or terms
    names = ['A', 'B', 'C', 'D', 'F', 'G'][:k]
    rng.shuffle(names)
    prods = {'E': [(rng.choice(terms), names[0], end)]}
    for i, n in enumerate(names):
        first = rng.choice(leads)
        alts = [(first, names[(i + 1) % k]), ()]
        others = [t for t in leads if t != first]
        if others and rng.random() < 0.3:
            alts.append((rng.choice(others),))
        rng.shuffle(alts)
        prods[n] = alts
    return prods


def hidden_cycle_grammar(rng, terms, order):
    """grammar with left recursion X -> N1..Nk X ... hidden behind k nullable symbols.
    `order` is a permutation of range(k+1): relative alphabetical order of the names of
    the cycle symbol (index 0) and of the nullable prefix symbols."""
    k = len(order) - 1
    pool = ['A', 'B', 'C', 'D', 'F', 'G', 'H', 'K'][:k + 1 + 2]
    names = [None] * (k + 1)
    sorted_names = sorted(pool[:k + 1])
    for rank, who in enumerate(order):
        names[who] = sorted_names[rank]
    x, nulls = names[0], names[1:]
    prods = {}
    for n in nulls:
        alts = [(), (rng.choice(terms),)]
        rng.shuffle(alts)
        prods[n] = alts
    tail = tuple(rng.choice(terms) for _ in range(rng.randint(0, 2)))
    rec_alt = tuple(nulls) + (x,) + tail
    if nulls and rng.random() < 0.3:
        # one of the optional symbols stands twice in the prefix (optional blanks on both sides of an optional sign)
        prefix = list(nulls)
        prefix.insert(rng.randint(1, len(prefix)), rng.choice(nulls))
        rec_alt = tuple(prefix) + (x,) + tail
    other = [(rng.choice(terms),)]
    if rng.random() < 0.5:
        other.append((rng.choice(terms), rng.choice(terms)))
    alts = other + [rec_alt]
    rng.shuffle(alts)
    prods[x] = alts
    # where is the start symbol?
    mode = rng.randrange(3)
    if mode == 0:
        start = x
    else:
        start = 'E' if 'E' not in prods else 'Z'
        prods[start] = [(rng.choice(terms), x) if mode == 1 else (x, rng.choice(terms))]
    items = list(prods.items())
    rng.shuffle(items)
    return dict(items), start


# ----------------------------------------------------------------- analyses
def has_adjacent_duplicates(prods):
    return any(a == b for alts in prods.values() for a, b in zip(alts, alts[1:]))


def nullable_set(prods):
    n = set()
    changed = True
    while changed:
        changed = False
        for nt, alts in prods.items():
            if nt not in n and any(all(s in n for s in alt) for alt in alts):
                n.add(nt)
                changed = True
    return n


def left_recursion_cycle(prods):
    """return a cycle [X, ..., X] of symbols reachable from each other without consuming
    a token, or None"""
    n = nullable_set(prods)
    edges = {nt: [] for nt in prods}
    for nt, alts in prods.items():
        for alt in alts:
            for s in alt:
                if s in prods and s not in edges[nt]:
                    edges[nt].append(s)
                if s not in n:
                    break
    color = {}
    path = []

    def dfs(u):
        color[u] = 1
        path.append(u)
        for v in edges[u]:
            if color.get(v) == 1:
                return path[path.index(v):] + [v]
            if v not in color:
                r = dfs(v)
                if r:
                    return r
        color[u] = 2
        path.pop()
        return None

    for u in prods:
        if u not in color:
            r = dfs(u)
            if r:
                return r
    return None


def first_follow(prods, start, end='$'):
    n = nullable_set(prods)
    first = {nt: set() for nt in prods}
    changed = True
    while changed:
        changed = False
        for nt, alts in prods.items():
            for alt in alts:
                for s in alt:
                    add = first[s] if s in prods else {s}
                    if not add <= first[nt]:
                        first[nt] |= add
                        changed = True
                    if s not in n:
                        break
    follow = {nt: set() for nt in prods}
    follow[start].add(end)
    changed = True
    while changed:
        changed = False
        for nt, alts in prods.items():
            for alt in alts:
                for i, s in enumerate(alt):
                    if s not in prods:
                        continue
                    add = set()
                    rest_nullable = True
                    for t in alt[i + 1:]:
                        add |= first[t] if t in prods else {t}
                        if t not in n:
                            rest_nullable = False
                            break
                    if rest_nullable:
                        add |= follow[nt]
                    if not add <= follow[s]:
                        follow[s] |= add
                        changed = True
    return n, first, follow


def predict_sets(prods, start, end='$'):
    n, first, follow = first_follow(prods, start, end)
    res = {}
    for nt, alts in prods.items():
        sets = []
        for alt in alts:
            ps = set()
            nul = True
            for s in alt:
                ps |= first[s] if s in prods else {s}
                if s not in n:
                    nul = False
                    break
            if nul:
                ps |= follow[nt]
            sets.append(ps)
        res[nt] = sets
    return res


def is_ll1(prods, start):
    for sets in predict_sets(prods, start).values():
        for x, y in itertools.combinations(sets, 2):
            if x & y:
                return False
    return True


def needs_follow(prods, start):
    """some symbol has >= 2 alternatives one of which is nullable (FOLLOW selects it)"""
    n = nullable_set(prods)
    for nt, alts in prods.items():
        if len(alts) >= 2 and any(all(s in n for s in alt) for alt in alts):
            return True
    return False


def reachable(prods, start):
    seen = {start}
    todo = [start]
    while todo:
        for alt in prods[todo.pop()]:
            for s in alt:
                if s in prods and s not in seen:
                    seen.add(s)
                    todo.append(s)
    return seen


def earley(prods, start, toks):
    """recogniser: is the token-name list a sentence?"""
    n = nullable_set(prods)
    S = [set() for _ in range(len(toks) + 1)]
    for i, _ in enumerate(prods[start]):
        S[0].add((start, i, 0, 0))
    for k in range(len(toks) + 1):
        work = list(S[k])
        while work:
            nt, ai, dot, org = work.pop()
            alt = prods[nt][ai]
            if dot < len(alt):
                s = alt[dot]
                if s in prods:
                    for j, _ in enumerate(prods[s]):
                        it = (s, j, 0, k)
                        if it not in S[k]:
                            S[k].add(it)
                            work.append(it)
                    if s in n:
                        it = (nt, ai, dot + 1, org)
                        if it not in S[k]:
                            S[k].add(it)
                            work.append(it)
                elif k < len(toks) and toks[k] == s:
                    S[k + 1].add((nt, ai, dot + 1, org))
            else:
                for (pnt, pai, pdot, porg) in list(S[org]):
                    palt = prods[pnt][pai]
                    if pdot < len(palt) and palt[pdot] == nt:
                        it = (pnt, pai, pdot + 1, porg)
                        if it not in S[k]:
                            S[k].add(it)
                            work.append(it)
    return any(nt == start and dot == len(prods[nt][ai]) and org == 0
               for (nt, ai, dot, org) in S[len(toks)])


def ll1_parse(prods, start, toks):
    """table-driven LL(1) parse of a grammar that is LL(1) as written.
    returns the derivation tree (name, [children]) / (terminal, None), or None"""
    ps = predict_sets(prods, start)
    toks = list(toks) + ['$']
    pos = [0]

    def parse_nt(nt, depth):
        if depth > 400:
            raise RecursionError
        la = toks[pos[0]]
        chosen = [alt for alt, s in zip(prods[nt], ps[nt]) if la in s]
        if len(chosen) != 1:
            return None
        children = []
        for s in chosen[0]:
            if s in prods:
                sub = parse_nt(s, depth + 1)
                if sub is None:
                    return None
                children.append(sub)
            else:
                if toks[pos[0]] != s:
                    return None
                children.append((s, None))
                pos[0] += 1
        return (nt, children)

    tree = parse_nt(start, 0)
    if tree is None or toks[pos[0]] != '$' or pos[0] != len(toks) - 1:
        return None
    return tree


def gen_sentence(prods, rng, start, maxdepth=8, maxlen=14):
    out = []

    def exp(s, d):
        if s not in prods:
            out.append(s)
            return len(out) <= maxlen
        alts = prods[s]
        if not alts:
            return False          # a symbol without productions derives nothing
        if d > maxdepth:
            alts = sorted(alts, key=len)[:1]
        if d > maxdepth + 6:
            return False
        return all(exp(x, d + 1) for x in rng.choice(alts))

    return out if exp(start, 0) else None


def fmt_grammar(prods):
    return {nt: [" ".join(a) if a else "<empty>" for a in alts] for nt, alts in prods.items()}
