"""C15 SQL filters select exactly the intended rows; values are always bound."""
import itertools
import logging
import random
import re
import sqlite3

import vf
vf.use_repo()
from ak.mtd_sql import SqlMethod  # noqa: E402
try:
    from ak.mtd_sql import SqlFieldValCondition  # noqa: E402
except ImportError:     # pragma: no cover
    SqlFieldValCondition = None
try:
    from ak.mcaller_sql import MCallerSql, method_sql  # noqa: E402
except Exception:  # pragma: no cover
    MCallerSql = method_sql = None
try:
    from ak.mcaller_sql import SqlMethodT  # noqa: E402
except Exception:  # pragma: no cover
    SqlMethodT = None
from vf.core import sig_of  # noqa: E402

ID = "C15"
LEVEL = "exploration"
RULE = ("[later additions: a TIMESTAMP column filtered with datetime values; in mode 'all' another request runs on the same connection after the first row was taken; NULL operands of ordering comparisons; backslashes in LIKE patterns] "
        "an sqlite3 in-memory table (0-12 rows, INTEGER and TEXT columns with NULLs, '', quotes, % and _, SQL "
        "fragments) is queried through SqlMethod.list / all / one / one_or_none with 0-4 generated conditions: "
        "comparisons, = / != with None, list or tuple, IN / NOT IN with list / tuple / set incl. empty and NULL "
        "members, IS [NOT] NULL, [NOT] LIKE, OR groups (also empty, single-operand, nested, with keyword operands, with static operands that contain a bare OR), static "
        "conditions with lower-case string literals, a column whose name starts with an underscore, the SqlMethodT wrapper (list / one / one_or_none returning a table), IN / NOT IN lists of 999-2001 values, keyword filters, interleaved None arguments, _order_by, _as_scalars, GROUP BY methods; 20% "
        "of the cases through a connection whose type name selects %s placeholders. A cursor proxy records "
        "(sql, params). Oracle: harness evaluator of SQL three-valued logic over the Python rows gives the "
        "expected ids in the requested order; placeholders == number of params; params == the multiset of values the "
        "harness collects from the condition tree (matching order is decided by the returned rows); no bound string of length >= 2 occurs in the SQL text; table "
        "unchanged. Non-trivial = query with >= 2 conditions, one of them an OR group or an IN / NOT IN with a "
        "NULL member or an empty list, over a table with >= 3 rows; distinct by (rows, conditions).")
ASSUMPTIONS = ["sqlite3 executes the statement as given; LIKE is ASCII case-insensitive with % and _ wildcards",
               "'=' with a set is not generated (only list/tuple are normalised to IN)"]
TIERS = {
    "quick": {"shards": 4, "cases": 2500, "timeout": 300},
    "thorough": {"shards": 16, "cases": 30000, "timeout": 3000},
}
FLOORS = {"quick": {"keyword_filters_on_a_column_with_two_underscores": 300,
                    "queries_through_a_method_caller": 70, "queries_whose_records_are_plain_tuples": 65, "queries_whose_select_text_holds_a_question_mark": 180, "tables_over_repeated_column_names": 20,
                    "distinct_nontrivial": 1500, "queries_checked": 9000, "non_empty_results": 1800,
                    "bound_values_checked": 8000, "percent_s_queries": 1000, "one_row_semantics_checked": 1500,
                    "hostile_strings_bound": 800},
          "thorough": {"keyword_filters_on_a_column_with_two_underscores": 1200,
                       "queries_through_a_method_caller": 280, "queries_whose_records_are_plain_tuples": 270, "queries_whose_select_text_holds_a_question_mark": 740, "tables_over_repeated_column_names": 80,
                       "distinct_nontrivial": 70000, "queries_checked": 450000, "non_empty_results": 90000,
                       "bound_values_checked": 400000, "percent_s_queries": 50000,
                       "one_row_semantics_checked": 70000, "hostile_strings_bound": 40000}}
LEVEL_TEXT = ("Runtime exploration with a reference evaluator: every generated query runs through the real SqlMethod "
              "against sqlite3 while a cursor proxy records the statement; the returned rows are compared with a "
              "three-valued-logic evaluation of the same condition tree in Python and the recorded statement with "
              "the values the harness collected from the tree.")
LEVEL_NOTE = "one table, two filter columns; trusts sqlite3 and the 40-line evaluator"
TECHNIQUE = "runtime monitoring: three-valued-logic reference evaluator + recording cursor proxy"

INTS = [None, 0, 1, 2, 5, -3]
# binary values (a scalar like any other: one placeholder, one bound value)
BLOBS = [None, b"", b"a", b"ab", b"ab", b"\x00\xff", b"a'b", b"abc"]
STRS = [None, "", "a", "ab", "A", "a%", "a_b", "x'y", "c:\\tmp\\a", "c:tmpa", "\\_", "\\x", "c:\\tmp\\a", "\\", "c:\\tmp\\b", "'; DROP TABLE t; --", '"q"', "abc", "1 OR 1=1", "%",
        "IS NULL", "is not null", "IN", "LIKE", "=", "NULL", "?", "%s",
        # (texts that differ in their blanks only)
        "a  b", "a b", "a\tb", "a  b"]
HOSTILE = {"x'y", "'; DROP TABLE t; --", '"q"', "1 OR 1=1", "IS NULL", "is not null", "IN", "LIKE", "=", "NULL", "?",
           "%s"}


# values spelled like pieces of the statement itself: their presence in the text proves nothing (that they
# are BOUND is decided by the multiset of parameters and by the returned rows)
SQL_WORDS = {"IS NULL", "IS NOT NULL", "IN", "LIKE", "NULL", "%S", "OR", "AND", "NOT", "NOT IN"}


# (the application registers its adapter for time stamps, as the sqlite3 documentation recommends since 3.12)
import datetime as _datetime    # noqa: E402
sqlite3.register_adapter(_datetime.datetime, lambda d: d.isoformat(" "))
SCHEMA = "CREATE TABLE t (id INTEGER, n INTEGER, s TEXT, _d INTEGER, b BLOB, x__y INTEGER, ts TIMESTAMP)"
INSERT = "INSERT INTO t VALUES (:id, :n, :s, :_d, :b, :x__y, :ts)"


class Cur:
    def __init__(self, c, log, percent_s):
        self.c = c
        self.log = log
        self.percent_s = percent_s

    def execute(self, sql, params=()):
        self.log.append((sql, list(params)))
        if self.percent_s:
            # like the real connector: EVERY %s of the statement stands for a value, quoted or not, and the
            # numbers have to agree; a question mark is just a character there
            if sql.replace("%%", "").count("%s") != len(params):
                raise sqlite3.ProgrammingError("Not all parameters were used in the SQL statement / not enough "
                                               "parameters (%d values, statement %r)" % (len(params), sql[:120]))
            parts = sql.split("%s")
            sql = "?".join(p.replace("'?'", "'' || char(63) || ''").replace("%%", "%") for p in parts)
        res = self.c.execute(sql, params)
        # (what execute() returns is the driver's business: sqlite3 hands back the cursor, the mysql connector nothing)
        return None if self.percent_s else res

    def __iter__(self):
        return iter(self.c)

    @property
    def description(self):
        return self.c.description

    def close(self):
        self.c.close()


class Conn:
    percent_s = False

    def __init__(self, c):
        self.c = c
        self.log = []

    def cursor(self):
        return Cur(self.c.cursor(), self.log, self.percent_s)


class MysqlLikeConn(Conn):
    percent_s = True


MysqlLikeConn.__module__ = "mysql.connector.fake"


def like(pat, s):
    rx = "".join(".*" if ch == '%' else "." if ch == '_' else re.escape(ch) for ch in pat)
    return re.fullmatch(rx, s, re.S | re.I) is not None


def NOT(x):
    return None if x is None else not x


def AND(xs):
    xs = list(xs)
    if any(x is False for x in xs):
        return False
    if any(x is None for x in xs):
        return None
    return True


def OR(xs):
    xs = list(xs)
    if any(x is True for x in xs):
        return True
    if any(x is None for x in xs):
        return None
    return False


def cmp(op, a, b):
    if a is None or b is None:
        return None
    if type(b).__name__ == 'datetime':
        b = str(b)
    return {'=': a == b, '!=': a != b, '<': a < b, '>': a > b, '<=': a <= b, '>=': a >= b}[op]


def ev(cond, row):
    k = cond[0]
    if k == 'or':
        return OR(ev(c, row) for c in cond[1]) if cond[1] else False
    if k == 'and':
        return AND(ev(c, row) for c in cond[1])
    if k == 'static':
        return STATICS[cond[1]][1](row)
    _, col, op, val = cond
    x = row[col]
    op = op.upper()
    if op in ('=', '!='):
        if val is None:
            r = x is None
            return r if op == '=' else not r
        if isinstance(val, (list, tuple)):
            op = 'IN' if op == '=' else 'NOT IN'
        else:
            return cmp(op, x, val)
    if op in ('IN', 'NOT IN'):
        vals = list(val)
        r = OR(cmp('=', x, v) for v in vals) if vals else False
        return r if op == 'IN' else NOT(r)
    if op == 'IS NULL':
        return x is None
    if op == 'IS NOT NULL':
        return x is not None
    if op in ('LIKE', 'NOT LIKE'):
        r = None if x is None else like(val, x)
        return r if op == 'LIKE' else NOT(r)
    return cmp(op, x, val)


def bound_values(cond):
    """values the statement must carry for this condition, in order"""
    k = cond[0]
    if k in ('or', 'and'):
        return [v for c in cond[1] for v in bound_values(c)]
    if k == 'static':
        return []
    _, col, op, val = cond
    val = as_param(col, val)
    op = op.upper()
    if op in ('=', '!='):
        if val is None:
            return []
        if isinstance(val, (list, tuple)):
            return list(val)
        return [val]
    if op in ('IN', 'NOT IN'):
        return list(val)
    if op in ('IS NULL', 'IS NOT NULL'):
        return []
    return [val]


def _in(x, vals):
    return OR(cmp('=', x, v) for v in vals)


# static conditions (text given by the caller, goes into the statement as it is) and their meaning
STATICS = [
    ("n = id", lambda row: cmp('=', row['n'], row['id'])),
    ("s = 'ab'", lambda row: cmp('=', row['s'], 'ab')),
    ("s != 'a'", lambda row: cmp('!=', row['s'], 'a')),
    ("s IN ('a', 'abc', 'A')", lambda row: _in(row['s'], ['a', 'abc', 'A'])),
    ("s > 'a'", lambda row: cmp('>', row['s'], 'a')),
    ("(n is null or s = 'abc')", lambda row: OR([row['n'] is None, cmp('=', row['s'], 'abc')])),
    ("s LIKE 'a%'", lambda row: None if row['s'] is None else like('a%', row['s'])),
    ("id % 2 = 1", lambda row: row['id'] % 2 == 1),
    # (blanks inside a quoted literal are data)
    ("s = 'a  b'", lambda row: cmp('=', row['s'], 'a  b')),
    ("s   !=   'a\tb'", lambda row: cmp('!=', row['s'], 'a\tb')),
]
# static texts with a bare OR: only the parentheses an OR group promises make them safe, so they are
# generated as operands of OR groups only (first N_TOP entries of STATICS may stand at the top level)
N_TOP = len(STATICS)
STATICS += [
    ("n = id OR s = 'ab'", lambda row: OR([cmp('=', row['n'], row['id']), cmp('=', row['s'], 'ab')])),
    ("s is null or n > 1", lambda row: OR([row['s'] is None, cmp('>', row['n'], 1)])),
]


def gen_cond(rng, depth=0):
    r = rng.random()
    if depth and r > 0.9:
        # (inside a group: 'this column has no value' - given as a keyword of the group most of the time)
        return ('f', rng.choice(['n', 's', '_d']), '=', None)
    if depth < 2 and r < 0.2:
        ops = [gen_cond(rng, depth + 1) for _ in range(rng.choice([0, 1, 1, 2, 3]))]
        if len(ops) >= 2 and rng.random() < 0.3 and not any(x[0] == 'static' and x[1] >= N_TOP for x in ops[-2:]):
            # (static texts with a bare OR are only safe inside the parentheses of an OR group)
            # two of the operands are tied together by a group class of the application (derived from the package's
            # OR-group, joining its operands with AND): "a OR (b AND c)"
            ops = ops[:-2] + [('and', ops[-2:])]
        return ('or', ops)
    if r < 0.24:
        return ('static', rng.randrange(len(STATICS) if depth else N_TOP))
    if r < 0.28:
        return ('f', '_d', '=', rng.choice([0, 1, None]))
    col = rng.choice(['n', 's', 'n', 's', 'b'])
    dom = INTS if col == 'n' else STRS if col == 's' else BLOBS
    nn = [v for v in dom if v is not None]
    op = rng.choice(['=', '!=', '<', '>', '<=', '>=', 'IN', 'NOT IN', 'in', 'not in', 'IS NULL', 'IS NOT NULL',
                     'is null'] + (['LIKE', 'NOT LIKE', 'like'] if col == 's' else []))
    if op in ('=', '!=') and rng.random() < 0.05:
        val = list(range(50, 50 + rng.choice([1000, 1001, 1200]))) if col == 'n' else ["w%d" % i for i in range(1001)] \
            if col == 's' else [b"w%d" % i for i in range(1001)]
        val = val + [v for v in dom if v is not None][:1]
    elif op in ('=', '!='):
        val = rng.choice([rng.choice(dom), rng.choice(dom),
                          [rng.choice(dom) for _ in range(rng.randint(0, 3))],
                          tuple(rng.choice(nn) for _ in range(rng.randint(0, 2)))])
    elif op.upper() in ('IN', 'NOT IN'):
        val = rng.choice([list, tuple, set])(rng.choice(dom) for _ in range(rng.randint(0, 3)))
        if rng.random() < 0.08:
            # a very long list (databases often limit the number of items: code may split it)
            n_items = rng.choice([999, 1000, 1001, 1500, 2001])
            filler = list(range(100, 100 + n_items)) if col == 'n' else ["v%d" % i for i in range(n_items)] \
                if col == 's' else [b"v%d" % i for i in range(n_items)]
            keep = [v for v in val if v is not None][:2]
            val = rng.choice([list, tuple])(filler[:n_items - len(keep)] + keep)
            rng_pos = rng.randrange(len(val))
            val = type(val)(list(val)[rng_pos:] + list(val)[:rng_pos])
    elif op.upper() in ('IS NULL', 'IS NOT NULL'):
        val = None
    elif op.upper() in ('LIKE', 'NOT LIKE'):
        val = rng.choice(["a%", "%b", "_", "%", "a_b", "x'y", "A%", "", "%'%", "a\\%", "c:\\t%", "%\\%", "c:\\tmp\\a", "\\_",
                          "a", "A", "AB", "Ab", "ABC", "abc", "X'Y", '"Q"',
                          # (patterns without a wildcard are patterns all the same: LIKE is not '=')
                          "A", "AB", "aBc", "A  B", "C:TMPA"])
        if val == "a\\%":
            val = "a%"
        if rng.random() < 0.25:
            # (a backslash is an ordinary character of a pattern)
            val = rng.choice(["c:\\t%", "%\\%", "c:\\tmp\\a", "\\_", "\\%", "%\\a", "c:\\tmp\\_"])
    else:
        # (an ordering comparison with NULL is a comparison like any other: one placeholder, one bound value, no row)
        val = rng.choice(nn) if rng.random() < 0.93 else None
    return ('f', col, op, val)


TS_VALUES = ["2024-03-05 23:59:59", "2024-03-05 00:00:00", "2023-12-31 12:00:00", "2024-03-06 00:00:00"]


def as_param(col, v):
    """the value the caller gives for column `col`: time stamps are given as datetime objects (the database stores
    them the way the standard adapter of the sqlite3 module writes them: 'YYYY-MM-DD HH:MM:SS')"""
    if col == 'ts' and isinstance(v, str):
        import datetime
        return datetime.datetime.strptime(v, "%Y-%m-%d %H:%M:%S")
    if col == 'ts' and isinstance(v, (list, tuple)):
        return type(v)(as_param(col, x) for x in v)
    return v


class VfAndGroup(SqlMethod._or):
    """a condition group of the application: derived from the package's OR-group, it joins its operands with AND"""

    def make_text_update_values(self, values_list, placeholders_type):
        if not self.operands:
            return "TRUE"
        return "(" + " AND ".join(op.make_text_update_values(values_list, placeholders_type) for op in self.operands) + ")"


def to_arg(c, rng):
    if c[0] == 'and':
        return VfAndGroup(*[to_arg(x, rng) for x in c[1]])
    if c[0] == 'or':
        pos, kw = [], {}
        for x in c[1]:
            # operands 'column = value' may be given as keywords of the group
            if x[0] == 'f' and x[2] == '=' and x[1] not in kw and (rng.random() < 0.4 or (x[3] is None and rng.random() < 0.8)):
                kw[x[1]] = as_param(x[1], x[3])
            else:
                pos.append(to_arg(x, rng))
        return SqlMethod._or(*pos, **kw)
    if c[0] == 'static':
        return STATICS[c[1]][0]
    _, col, op, val = c
    val = as_param(col, val)
    if op == '=' and rng.random() < 0.5:
        return (col, val)
    return (col, op, val) if rng.random() < 0.8 else [col, op, val]


def interesting(c):
    if c[0] in ('or', 'and'):
        return True
    if c[0] == 'f':
        op = c[2].upper()
        v = c[3]
        if op in ('IN', 'NOT IN') or (op in ('=', '!=') and isinstance(v, (list, tuple))):
            vals = list(v)
            return not vals or None in vals
    return False


_METHODS = {}


def method(kind):
    """SqlMethod objects are module-level objects in real use: created once, used for many queries"""
    if kind not in _METHODS:
        if kind == "group":
            _METHODS[kind] = SqlMethod("SELECT n, count(*) AS cnt FROM t", group_by="n", order_by="n")
        elif kind == "nested":
            _METHODS[kind] = SqlMethod(
                "SELECT t.id AS id, t.n AS n, t.s AS s FROM t "
                "LEFT JOIN (SELECT id AS uid FROM t WHERE n = 1) AS u ON u.uid = t.id", order_by="id")
        elif kind == "commented":
            # a select text written over several lines, with line comments
            _METHODS[kind] = SqlMethod("SELECT id, -- the key\n       n, s -- payload\nFROM t -- the only table\n",
                                       order_by="id")
        elif kind == "count":
            # an aggregate without GROUP BY always gives exactly one row
            _METHODS[kind] = SqlMethod("SELECT count(*) AS cnt, max(id) AS top FROM t")
        elif kind == "qmark":
            # the select text itself holds a question mark and a percent sign - as text, not as placeholders
            _METHODS[kind] = SqlMethod("SELECT id, n, s, '?' AS mark, 'x' AS pct FROM t", order_by="id")
        elif kind == "no-key":
            # no selected column is unique: two different rows may give the same record
            _METHODS[kind] = SqlMethod("SELECT n, s FROM t", order_by="id")
        elif kind == "keyword-names":
            # (names a record class cannot have although they are identifiers: a keyword, a leading underscore)
            _METHODS[kind] = SqlMethod('SELECT id, n AS "class", s AS _s FROM t', order_by="id")
        elif kind == "odd-names":
            _METHODS[kind] = SqlMethod('SELECT id, n AS "class", s AS "2 s" FROM t', order_by="id")
        else:
            _METHODS[kind] = SqlMethod("SELECT id, n, s FROM t", order_by="id")
    return _METHODS[kind]


def sql_caller(conn):
    """the application's method caller for its database: it owns the connection, its methods are the queries"""
    if 'cls' not in _CALLER:
        class VfSqlCaller(MCallerSql):
            @method_sql
            def rows(self, m, *args, **kw):
                return m.list(self.get_sql_conn(), *args, **kw)
        _CALLER['cls'] = VfSqlCaller
    return _CALLER['cls'](conn) if len(conn.log) % 2 else _CALLER['cls'](db_connector=lambda c: c, connector_args=[conn])


_CALLER = {}


def table_method(m):
    key = "table-m:%s" % getattr(m, 'sql_select_from', None) if m is not None else "table-sql"
    if m == "dups":
        # the statement selects some columns twice (as a join does): the table has to invent names for them
        key = "table-dups"
        if key not in _METHODS:
            _METHODS[key] = SqlMethodT("SELECT t.id, t.n, t.s, t.id, t.n, t.id AS id_1 FROM t", order_by="t.id")
        return _METHODS[key]
    if key not in _METHODS:
        _METHODS[key] = SqlMethodT(m) if m is not None else SqlMethodT("SELECT id, n, s FROM t", order_by="id")
    return _METHODS[key]


_LOG = logging.getLogger("ak.mtd_sql")
_LOG.addHandler(logging.NullHandler())
_LOG.propagate = False


def run_case(ctx, rng):
    ctx.evaluated()
    # every fifth query runs with the module's debug log switched on (the messages go nowhere)
    debug = rng.random() < 0.2
    _LOG.setLevel(logging.DEBUG if debug else logging.WARNING)
    if debug:
        ctx.count("queries_with_debug_logging")
    db = sqlite3.connect(":memory:")
    # (id is an ordinary column and the rows are stored in another order: a statement that lost its ORDER BY
    # does not give the requested order by accident)
    # (b holds binary values; x__y is a column whose name has two underscores in the middle)
    # (ts holds time stamps)
    db.execute(SCHEMA)
    rows = [{'id': i, 'n': rng.choice(INTS), 's': rng.choice(STRS), '_d': rng.choice([0, 0, 1, None]),
             'b': rng.choice(BLOBS), 'x__y': rng.choice([0, 1, 2, None])}
            for i in range(rng.randint(0, 12))]
    for k, r in enumerate(rows):
        r['ts'] = (TS_VALUES + [None])[(k * 7 + len(rows) + (r['n'] or 0)) % 5]
    if len(rows) >= 2 and len(rows) % 3 == 2:
        # two rows that differ in nothing but the id
        a, b = rng.sample(range(len(rows)), 2)
        rows[b] = dict(rows[a], id=b)
        ctx.count("tables_with_two_rows_that_differ_only_in_the_id")
    stored = list(rows)
    random.Random(len(rows) * 7 + sum(r['n'] or 0 for r in rows)).shuffle(stored)
    db.executemany(INSERT, stored)
    if len(rows) % 2:
        # (the database has an index on the column the grouping method groups by - a descending one)
        db.execute("CREATE INDEX t_n_desc ON t (n DESC)")
    percent_s = rng.random() < 0.2
    conn = (MysqlLikeConn if percent_s else Conn)(db)
    conds = [gen_cond(rng) for _ in range(rng.choice([0, 1, 1, 2, 2, 3, 4]))]
    if len(rows) % 4 == 1:
        # a filter on the time stamp column, the value given as a datetime object
        k = len(rows) + len(conds)
        conds.append(('f', 'ts', ['=', '<', '>=', '!=', 'IN'][k % 5],
                      [TS_VALUES[k % 4], TS_VALUES[(k + 1) % 4]] if k % 5 == 4 else TS_VALUES[k % 4]))
        ctx.count("filters_with_datetime_values")
    args = []
    for c in conds:
        if rng.random() < 0.15:
            args.append(None)
        args.append(to_arg(c, rng))
        if rng.random() < 0.15:
            args.append(None)
    kw = {}
    kw_conds = []
    if rng.random() < 0.3:
        v = rng.choice(INTS + [[1, 2], (0,)])
        kw['n'] = v
        kw_conds.append(('f', 'n', '=', v))
    if rng.random() < 0.15:
        v = rng.choice(STRS)
        kw['s'] = v
        kw_conds.append(('f', 's', '=', v))
    if rng.random() < 0.12:
        v = rng.choice([0, 1, 2, None, [0, 2]])
        kw['x__y'] = v
        kw_conds.append(('f', 'x__y', '=', v))
        ctx.count("keyword_filters_on_a_column_with_two_underscores")
    if rng.random() < 0.12:
        v = rng.choice(BLOBS)
        kw['b'] = v
        kw_conds.append(('f', 'b', '=', v))
    if rng.random() < 0.15:
        v = rng.choice([0, 1])
        kw['_d'] = v           # a column whose name starts with an underscore, like the method's own options
        kw_conds.append(('f', '_d', '=', v))
    kw_conds.sort(key=lambda c: c[1])
    all_conds = conds + kw_conds
    # (an ORDER BY text may be an expression and may be written in capitals)
    order = rng.choice(["id", "id DESC", None, "id", "id DESC", None, "ROUND(id)", "ROUND(id) DESC", "ID DESC"])
    mode = rng.choice(["list", "list", "all", "one", "one_or_none", "scalars", "group", "table", "count"])
    if mode == "table" and SqlMethodT is None:
        mode = "list"
    case = {"rows": rows, "stored_order": [r['id'] for r in stored], "conds": all_conds, "order": order, "mode": mode,
            "percent_s": percent_s}
    exp = [r['id'] for r in rows if AND(ev(c, r) for c in all_conds) is True]
    if order is not None and order.endswith("DESC"):
        exp.reverse()
    force_scalar = False
    if len(exp) == 1 and not rows[exp[0]]['id'] and mode in ("list", "all", "table") and rng.random() < 0.6:
        # (exactly one row is asked for, and the first thing in it is a zero)
        mode, force_scalar = "one", True
        case["mode"] = mode
    call_kw = dict(kw)
    if order is not None:
        call_kw['_order_by'] = order
    if rng.random() < 0.05:
        # a call with a malformed condition is refused (ValueError) - and leaves nothing behind in the
        # long-lived method object
        bad = rng.choice([('n', 'BETWEEN', 3), ('n', 'IN', 5), ('n', 'IS NULL', 3), ('s', 'LIKE', 5),
                          ('s', 'NOT LIKE', None), 42, ('n',), ('n', '=', 1, 2), {'n': 1}, ('n', 'IS NOT NULL', 0)])
        try:
            method("rows").list(conn, bad)
            ctx.violation("unsupported-operation-accepted", {"condition": repr(bad)}, case)
        except ValueError:
            ctx.count("malformed_conditions_refused")
        except Exception as err:
            ctx.violation("query-raises", {"type": type(err).__name__, "msg": str(err)[:150], "stmt": None}, case)
        del conn.log[:]
    try:
        if mode == "count":
            m = method("count") if rng.random() < 0.8 else SqlMethod("SELECT count(*) AS cnt, max(id) AS top FROM t")
            call_kw.pop('_order_by', None)
            how = rng.choice(["list", "one", "all"])
            ctx.count("aggregate_queries_without_group_by")
            try:
                got = ([tuple(m.one(conn, *args, **call_kw))] if how == "one" else
                       [tuple(r) for r in getattr(m, how)(conn, *args, **call_kw)])
            except ValueError as err:
                got = "ValueError: " + str(err)
            want = [(len(exp), max(exp) if exp else None)]
            if got != want:
                ctx.violation("aggregate-result-differs", {"got": repr(got)[:100], "expected": want, "how": how,
                                                           "stmt": conn.log[-1] if conn.log else None}, case)
        elif mode == "group":
            m = method("group") if rng.random() < 0.8 else SqlMethod(
                "SELECT n, count(*) AS cnt FROM t", group_by="n", order_by="n")
            call_kw.pop('_order_by', None)
            if SqlMethodT is not None and rng.random() < 0.3:
                # (the grouping method presented as a table: the wrapper is made from the method OBJECT)
                if "table-group" not in _METHODS:
                    _METHODS["table-group"] = SqlMethodT(method("group"))
                got = [tuple(r) for r in _METHODS["table-group"].list(conn, *args, **call_kw).r]
                ctx.count("grouped_queries_through_SqlMethodT")
            else:
                got = [tuple(r) for r in m.list(conn, *args, **call_kw)]
            cnt = {}
            for r in rows:
                if r['id'] in exp:
                    cnt[r['n']] = cnt.get(r['n'], 0) + 1
            want = sorted(cnt.items(), key=lambda kv: (kv[0] is not None, kv[0] if kv[0] is not None else 0))
            if got != want:
                ctx.violation("grouped-result-differs", {"got": got, "expected": want, "stmt": conn.log[-1]}, case)
        else:
            m = method("rows") if rng.random() < 0.8 else SqlMethod("SELECT id, n, s FROM t", order_by="id")
            if rng.random() < 0.15:
                # the select text itself has a nested select with a WHERE of its own (same rows: a left join
                # on a unique column)
                m = method("nested" if rng.random() < 0.5 else "commented")
                ctx.count("queries_on_a_select_with_a_nested_where")
            elif rng.random() < 0.12:
                m = method("qmark")
                ctx.count("queries_whose_select_text_holds_a_question_mark")
            if mode in ("one", "one_or_none"):
                ctx.count("one_row_semantics_checked")
                scalar = rng.random() < 0.3 or force_scalar     # the single row may be asked for as a scalar (id 0 is falsy)
                if scalar:
                    call_kw['_as_scalars'] = True
                no_key = rng.random() < 0.3
                if no_key and not scalar and rng.random() < 0.5:
                    scalar = True       # (the first column of that select is one that holds NULLs)
                    call_kw['_as_scalars'] = True
                if no_key:
                    # the select list has no unique column: rows that satisfy the filters stay that many rows even
                    # when they read the same
                    m = method("no-key")
                    ctx.count("one_row_semantics_checked_on_a_select_without_a_unique_column")
                    if scalar and len(exp) == 1 and rows[exp[0]]['n'] is None:
                        # (a single NULL asked for as a scalar reads like 'no record': the interface cannot tell
                        # them apart, whatever the code does - not judged)
                        ctx.count("single_NULL_scalars_not_judged(out of domain)")
                        scalar = False
                        del call_kw['_as_scalars']
                try:
                    rec = getattr(m, mode)(conn, *args, **call_kw)
                    if rec is not None and scalar:
                        rec = (rec,)
                    if len(exp) > 1 or (mode == "one" and not exp):
                        ctx.violation("one-row-method-does-not-raise", {"mode": mode, "rows": len(exp),
                                                                        "select": m.sql_select_from}, case)
                    elif (rec is None) != (not exp) or (rec is not None and (
                            tuple(rec) != (rows[exp[0]]['n'], rows[exp[0]]['s'])[:len(rec)] if no_key else rec[0] != exp[0])):
                        ctx.violation("one-row-method-wrong-record", {"mode": mode, "got": repr(rec)}, case)
                except ValueError:
                    if len(exp) == 1 or (mode == "one_or_none" and not exp):
                        ctx.violation("one-row-method-raises", {"mode": mode, "rows": len(exp)}, case)
                got = None
            elif mode == "table":
                # the same query through the wrapper that presents the records as a printable table
                mt = table_method(m if rng.random() < 0.5 else None)
                if rng.random() < 0.2 and order in (None, "id"):
                    mt = table_method("dups")
                    call_kw.pop('_order_by', None)
                    ctx.count("tables_over_repeated_column_names")
                sub = rng.choice(["list", "list", "one", "one_or_none"])
                ctx.count("queries_through_SqlMethodT")
                try:
                    tbl = getattr(mt, sub)(conn, *args, **call_kw)
                    got = [r[0] for r in tbl.r]
                    if (sub == "one" and len(exp) != 1) or (sub == "one_or_none" and len(exp) > 1):
                        ctx.violation("one-row-method-does-not-raise", {"mode": "table." + sub, "rows": len(exp)}, case)
                        got = None
                except ValueError:
                    if sub == "list" or len(exp) == 1 or (sub == "one_or_none" and not exp):
                        ctx.violation("one-row-method-raises", {"mode": "table." + sub, "rows": len(exp)}, case)
                    got = None
            elif mode == "all":
                # the rows are taken one by one; after the first one ANOTHER request runs on the same connection
                # (a nested loop of the caller), then the rest of the first result is taken
                it = iter(m.all(conn, *args, **call_kw))
                got = [r[0] for r in itertools.islice(it, 1)]
                inner = sorted(r[0] for r in m.list(conn))
                ctx.count("requests_made_while_another_result_was_partly_consumed")
                if inner != sorted(r['id'] for r in rows):
                    ctx.violation("rows-differ-from-three-valued-evaluation",
                                  {"got": inner, "expected": sorted(r['id'] for r in rows),
                                   "request": "all rows, asked for while another result was partly consumed"}, case)
                    return case
                del conn.log[-1]
                got += [r[0] for r in it]
            elif mode == "scalars":
                got = list(m.list(conn, *args, _as_scalars=True, **call_kw))
            else:
                via = rng.random()
                if via < 0.12:
                    # the selected columns have names that cannot be attribute names: the records are plain tuples
                    if via >= 0.06 and len(rows) % 2:
                        _METHODS.pop("keyword-names", None)     # (a method object that meets its first request)
                    recs = method("odd-names" if via < 0.06 else "keyword-names").list(conn, *args, **call_kw)
                    ctx.count("queries_whose_records_are_plain_tuples")
                elif via < 0.24 and MCallerSql is not None:
                    # the query is a method of the application's sql method caller, which owns the connection
                    recs = sql_caller(conn).rows(m, *args, **call_kw)
                    ctx.count("queries_through_a_method_caller")
                elif via < 0.30 and MCallerSql is not None and not args and not call_kw:
                    # ... or an ad-hoc statement handed to the method caller, answered with a table
                    recs = [tuple(r) for r in sql_caller(conn)("SELECT id, n, s FROM t ORDER BY id").r]
                    ctx.count("queries_through_a_method_caller")
                else:
                    recs = m.list(conn, *args, **call_kw)
                got = [r[0] for r in recs]
                for r in recs:
                    src = rows[r[0]]
                    if (r[1], r[2]) != (src['n'], src['s']) or (hasattr(r, 'n') and (r.id, r.n, r.s) != tuple(r)[:3]):
                        ctx.violation("record-fields-differ-from-row", {"got": tuple(r)}, case)
            if got is not None:
                if order is None:
                    order_ok = got == sorted(got)   # default order_by of the method
                else:
                    order_ok = True
                if got != exp or not order_ok:
                    mech = "rows-differ-from-three-valued-evaluation"
                    if sorted(got) == sorted(exp):
                        mech = "rows-in-wrong-order"
                    ctx.violation(mech, {"got": got, "expected": exp, "stmt": conn.log[-1]}, case)
    except Exception as err:
        ctx.violation("query-raises", {"type": type(err).__name__, "msg": str(err)[:150],
                                       "stmt": conn.log[-1] if conn.log else None}, case)
        return
    ctx.count("queries_checked")
    if exp:
        ctx.count("non_empty_results")
    if percent_s:
        ctx.count("percent_s_queries")
    if not conn.log:
        # (no statement reached the database: the rows were judged above, there is no statement to inspect)
        ctx.count("queries_answered_without_a_statement")
        return case
    sql, params = conn.log[-1]
    ph = "%s" if percent_s else "?"
    own_text = getattr(m, 'sql_select_from', None) or "\x00"
    if percent_s and own_text.replace("?", "%s") != own_text and own_text.replace("?", "%s") in sql:
        ctx.violation("select-text-of-the-method-was-rewritten", {"sql": sql[:200]}, case)
    n_ph = sql.replace(own_text, "").count(ph)      # (question marks in the method's own select text are text)
    want_params = [v for c in all_conds for v in bound_values(c)]
    if n_ph != len(params):
        ctx.violation("placeholders-differ-from-bound-values", {"sql": sql, "params": params}, case)
    # the multiset of bound values is compared; that placeholders and values are in MATCHING order
    # is decided by the rows sqlite returns (conditions may legitimately be emitted in another order)
    def key(v):
        # (a time stamp may be bound as the object the caller gave or in a text form of it: which text form is
        # right is decided by the rows)
        if type(v).__name__ == 'datetime':
            return ("time stamp", str(v))
        if isinstance(v, str) and re.fullmatch(r"\d{4}-\d\d-\d\d[ T]\d\d:\d\d:\d\d", v):
            return ("time stamp", v.replace("T", " "))
        return (type(v).__name__, repr(v))
    if sorted(map(key, params)) != sorted(map(key, want_params)):
        ctx.violation("bound-values-differ-from-condition-values", {"sql": sql, "params": params,
                                                                    "expected": want_params}, case)
    ctx.count("bound_values_checked", len(params))
    sql_dyn = sql.replace(getattr(m, 'sql_select_from', None) or "\x00", "")   # (the method's own select text)
    for text, _ in STATICS:
        sql_dyn = sql_dyn.replace(text, "")   # static conditions are the caller's own text
    for p in want_params:
        if isinstance(p, str):
            if p in HOSTILE:
                ctx.count("hostile_strings_bound")
            if len(p) >= 2 and p in sql_dyn and p.upper() not in SQL_WORDS:
                ctx.violation("value-inlined-into-sql-text", {"sql": sql[:300], "value": p}, case)
    if percent_s and "?" in sql.replace(own_text, ""):
        ctx.violation("mixed-placeholder-styles", {"sql": sql}, case)
    if len(conn.log) != 1:
        ctx.violation("more-than-one-statement-executed", {"log": conn.log[:3]}, case)
    if db.execute("SELECT count(*) FROM t").fetchone()[0] != len(rows):
        ctx.violation("table-modified", {"sql": sql}, case)
    if len(all_conds) >= 2 and len(rows) >= 3 and any(interesting(c) for c in all_conds):
        ctx.nontrivial(sig_of([rows, all_conds]))
    star_scalars(ctx, db, conn, rows, case)
    reused_condition(ctx, rng, conn, rows, case)
    return case


def reused_condition(ctx, rng, conn, rows, case):
    """ONE condition object of the caller (also inside an OR group) given to two requests; the list or set it was made
    with grows or shrinks in between, as the caller's working set does"""
    if len(rows) % 5 != 3 or SqlFieldValCondition is None:
        return
    pool = [0, 1, 2, 5, -3, 7]
    vals = rng.sample(pool, rng.choice([1, 2, 3]))
    holder = set(vals) if rng.random() < 0.3 else list(vals)
    op = rng.choice(['IN', 'NOT IN', '=', '!='])
    if isinstance(holder, set) and op in ('=', '!='):
        op = 'IN'
    cond = SqlFieldValCondition('n', op, holder)
    in_group = rng.random() < 0.4
    arg = SqlMethod._or(cond, ('s', '=', 'abc')) if in_group else cond
    m = method("rows")
    for step in range(3):
        now = list(holder)
        positive = op in ('IN', '=')
        def holds(r):
            v = None if r['n'] is None else ((r['n'] in now) == positive if now else (not positive))
            if not now:
                v = not positive     # (an empty list: nothing is in it, also not NULL)
            return OR([v, cmp('=', r['s'], 'abc')]) if in_group else v
        want = [r['id'] for r in rows if holds(r) is True]
        del conn.log[:]
        try:
            got = [r[0] for r in m.list(conn, arg)]
        except Exception as err:
            ctx.violation("query-raises", {"type": type(err).__name__, "msg": str(err)[:150], "request": step + 1,
                                           "stmt": conn.log[-1] if conn.log else None,
                                           "condition_object_used_again": True}, case)
            return
        ctx.count("requests_with_a_condition_object_used_before")
        if got != want:
            ctx.violation("rows-differ-from-three-valued-evaluation",
                          {"got": got, "expected": want, "stmt": conn.log[-1] if conn.log else None,
                           "condition_object_used_again": True, "values_now": now}, case)
            return
        if conn.log:
            sql, params = conn.log[-1]
            if sorted(map(repr, params)) != sorted(map(repr, now + (['abc'] if in_group else []))):
                ctx.violation("bound-values-differ-from-condition-values", {"sql": sql, "params": params,
                                                                            "expected": now}, case)
                return
        # the caller's working set changes
        if isinstance(holder, set):
            (holder.add if step == 0 or not holder else holder.discard)(rng.choice(pool) if step == 0 or not holder else next(iter(holder)))
        elif step == 0 or not holder:
            holder.append(rng.choice(pool))
        else:
            holder.pop(rng.randrange(len(holder)))


_STAR = [0]


def star_scalars(ctx, db, conn, rows, case):
    """a long-lived method "SELECT * ..." made with as_scalars=True over a view whose definition differs between the
    databases it meets (an older schema has one column, a newer one three): the first elements of the rows, whatever
    the method has seen before"""
    _STAR[0] += 1
    if _STAR[0] % 4 not in (1, 2):
        return
    if "star-scalars" not in _METHODS:
        _METHODS["star-scalars"] = SqlMethod("SELECT * FROM v", as_scalars=True, order_by="id")
    db.execute("CREATE VIEW v AS SELECT id FROM t" if _STAR[0] % 4 == 1 else "CREATE VIEW v AS SELECT id, n, s FROM t")
    try:
        got = list(_METHODS["star-scalars"].list(conn))
    except Exception as err:
        ctx.violation("query-raises", {"type": type(err).__name__, "msg": str(err)[:150], "select": "SELECT * FROM v"}, case)
        return
    ctx.count("scalars_of_a_select_star_over_changing_schemas")
    want = sorted(r['id'] for r in rows)
    if got != want:
        ctx.violation("rows-differ-from-three-valued-evaluation", {"got": got[:12], "expected": want[:12],
                                                                   "stmt": conn.log[-1], "as_scalars": True}, case)


def run_shard(ctx):
    for i in range(ctx.cases):
        case = run_case(ctx, ctx.rng(i))
        if i < 2 and case:
            ctx.sample({"conditions": case["conds"], "mode": case["mode"], "rows": case["rows"][:4]})


def replay(ctx, case):
    # replays re-run the recorded conditions on the recorded rows through `list`
    ctx.evaluated()
    db = sqlite3.connect(":memory:")
    db.execute(SCHEMA)
    by_id = {r['id']: dict({'_d': None, 'b': None, 'x__y': None, 'ts': None}, **r) for r in case["rows"]}
    db.executemany(INSERT, [by_id[i] for i in case.get("stored_order", sorted(by_id))])
    conn = (MysqlLikeConn if case.get("percent_s") else Conn)(db)
    import random
    rng = random.Random(0)
    args = [to_arg(c, rng) for c in case["conds"]]
    m = SqlMethod("SELECT id, n, s FROM t", order_by="id")
    exp = [r['id'] for r in case["rows"] if AND(ev(c, r) for c in case["conds"]) is True]
    try:
        got = [r[0] for r in m.list(conn, *args)]
    except Exception as err:
        ctx.violation("query-raises", {"type": type(err).__name__, "msg": str(err)[:150]}, case)
        return
    if got != exp:
        ctx.violation("rows-differ-from-three-valued-evaluation", {"got": got, "expected": exp,
                                                                   "stmt": conn.log[-1]}, case)
    sql, params = conn.log[-1]
    want_params = [v for c in case["conds"] for v in bound_values(c)]
    def key(v):
        if type(v).__name__ == 'datetime' or (isinstance(v, str) and
                                              re.fullmatch(r"\d{4}-\d\d-\d\d[ T]\d\d:\d\d:\d\d", v)):
            return "time stamp " + str(v).replace("T", " ")
        return repr(v)
    if sorted(map(key, params)) != sorted(map(key, want_params)):
        ctx.violation("bound-values-differ-from-condition-values", {"sql": sql, "params": params}, case)
