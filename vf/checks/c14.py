"""C14 Syntax colors resolve by inheritance, independent of registration order."""
import vf
vf.use_repo()
from ak import color as akcolor  # noqa: E402
from ak.color import ColorsConfig, Palette, ConfColor  # noqa: E402
from vf import sgr  # noqa: E402
from vf.core import sig_of  # noqa: E402

ID = "C14"
LEVEL = "exploration"
RULE = ("acyclic description sets (2-8 ids, flat and dotted, parents among earlier ids, built-in ids and sometimes an "
        "id that is never / only later registered; overrides of built-in ids in the explicit configuration), each "
        "description generated structurally (parent?, fg, bg in {inherit, '-', name, int, cube, gray}, modifiers "
        "on/off) and written in one of its admissible string forms; every set is registered in 3 random splits "
        "between the initial nested dict, later add_new_items batches and Palette subclasses with SYNTAX_DEFAULTS, "
        "in random order, later batches also carrying conflicting descriptions for already registered ids; half of the "
        "histories also keep an early palette with accessors for ids registered only later; 10% of the histories "
        "run on the global configuration with synced palettes and end with a swap to another global "
        "configuration (synced palettes and ak.color.global_palette must follow), 10% with no_color. After the "
        "construction and after every batch the formatter of every id is compared (through the SGR terminal "
        "model) with the harness' own resolver; the same through palette accessors and get_palette()[id]. "
        "Non-trivial = set with an inheritance chain of length >= 3 or a chain through a late / missing id; "
        "distinct by (set, split).")
ASSUMPTIONS = ["ids are unique within a set; conflicting descriptions are only offered for ids that are already "
               "registered (first registration wins, the explicit configuration is always first)",
               "an id that was never registered falls back to the TEXT colour (documented); not judged beyond that"]
TIERS = {
    "quick": {"shards": 4, "cases": 1000, "timeout": 300},
    "thorough": {"shards": 16, "cases": 6000, "timeout": 3000},
}
FLOORS = {"quick": {"deep_copies_of_the_global_configuration_extended": 120,
                    "global_configuration_swaps": 300, "distinct_nontrivial": 1500, "formatter_checks": 40000, "palette_accessor_checks": 3000,
                    "pending_chains_resolved_later": 200, "conflicting_late_descriptions_ignored": 1000,
                    "synced_palette_checks": 200, "no_color_checks": 1000,
                    "palettes_obtained_through_the_user_helper": 20000},
          "thorough": {"deep_copies_of_the_global_configuration_extended": 480,
                       "distinct_nontrivial": 60000, "formatter_checks": 2000000, "palette_accessor_checks": 150000,
                       "pending_chains_resolved_later": 10000, "conflicting_late_descriptions_ignored": 50000,
                       "synced_palette_checks": 10000, "no_color_checks": 50000,
                       "palettes_obtained_through_the_user_helper": 500000}}
LEVEL_TEXT = ("Runtime exploration over registration histories: the same description set is pushed through the real "
              "ColorsConfig in several splits/orders and, after every step, every formatter is compared with an "
              "independent inheritance resolver through the SGR terminal model.")
LEVEL_NOTE = "sets <= 8 ids; description strings in the documented forms only; the harness resolver is ~20 lines"
TECHNIQUE = "runtime monitoring: reference resolver + SGR model checked after every step of a registration history"

EFFECTS = ['bold', 'faint', 'underline', 'blink', 'crossed']
BUILT = {"TEXT": (None, None, {}), "NAME": (('c', 2), None, {'bold': True}),
         "KEYWORD": (('c', 4), None, {'bold': True}), "NUMBER": (('c', 3), None, {}),
         "OK": (('c', 2), None, {'bold': True}), "WARN": (('c', 1), None, {}),
         "ERROR": (('c', 1), None, {'bold': True})}
_UNIQ = [0]


def color_spec(rng):
    k = rng.random()
    if k < 0.3:
        return ('inherit', "")
    if k < 0.42:
        return ('default', "-")
    if k < 0.7:
        n = rng.choice(sgr.NAMES)
        return (('c', sgr.NAMES.index(n)), n)
    if k < 0.8:
        v = rng.randint(0, 255)
        # (a number may be written with a sign or with an underscore between its digits, as in source code)
        text = rng.choice([str(v), str(v), str(v), "+%d" % v, str(v) if v < 10 else str(v)[0] + "_" + str(v)[1:]])
        return (('c', v), text)
    if k < 0.9:
        r, g, b = [rng.randint(0, 5) for _ in range(3)]
        s = "(%d,%d,%d)" % (r, g, b) if rng.random() < 0.7 else "( %d, %d ,%d )" % (r, g, b)
        return (('c', 16 + 36 * r + 6 * g + b), s)
    v = rng.randint(0, 23)
    return (('c', 232 + v), "g%d" % v)


def pad(rng, token):
    """blanks around a colour token are not significant"""
    return rng.choice(["", " "]) + token + rng.choice(["", " ", "  "])


def render_descr(rng, parent, fgs, bgs, mods):
    if rng.random() < 0.15:
        fgs, bgs = pad(rng, fgs), pad(rng, bgs)
        if not fgs.strip():
            fgs = fgs.strip()
        if not bgs.strip():
            bgs = bgs.strip()
    modstr = ",".join((e if v else "no_" + e) for e, v in mods.items())
    if rng.random() < 0.2 and modstr:
        # (blanks of any kind around the names: a plain one, a no-break space pasted from a document, a form feed)
        modstr = modstr.replace(",", rng.choice([", ", ", ", ",\xa0", "\u3000, ", ",\x0c ", " ,\u2028"]))
    both_inherit = fgs == "" and bgs == ""
    if bgs == "" and rng.random() < 0.5:
        colstr = fgs
    else:
        colstr = fgs + "/" + bgs
    if parent:
        if both_inherit:
            if not modstr:
                return parent if rng.random() < 0.8 else parent + ":/"
            # (the colours section may be spelled out as empty: "P:bold", "P:/:bold", "P::bold", "P: :bold")
            return parent + ":" + modstr if rng.random() < 0.6 else parent + rng.choice([":/:", "::", ": :"]) + modstr
        if colstr == "":
            colstr = "/"
        return parent + ":" + colstr + (":" + modstr if modstr else "")
    return colstr + (":" + modstr if modstr else "")


def gen_set(rng, prefix, dangling=False):
    n = rng.randint(2, 8)
    ids = [prefix + ("S%d" % i if rng.random() < 0.5 else "G%d.I%d" % (i % 2, i) if rng.random() < 0.7
                     else "G%d.SUB.I%d" % (i % 2, i) if rng.random() < 0.7 else "APP.G%d.SUB%d.I%d" % (i % 2, i % 2, i))
           for i in range(n)]
    # some ids live in a group that is called like another id (S1 and S1.K3; NAME.K2 next to the built-in NAME)
    for i in range(1, n):
        if rng.random() < 0.15:
            ids[i] = rng.choice(ids[:i] + ([] if prefix else ["NAME", "ERROR", "NUMBER"])) + ".K%d" % i
    if rng.random() < 0.15:
        # a syntax id spelled like a colour name in small letters (colour names are written in capitals; "red" is an id
        # like any other, and others refer to it)
        lookalike = rng.choice(["red", "Cyan", "blue", "Green", "magenta", "white"])
        if lookalike not in ids:
            ids[rng.randrange(min(3, n))] = lookalike
    late_missing = prefix + "MISSING.X"
    items = {}
    for i, sid in enumerate(ids):
        cands = ids[:i] + list(BUILT) + ([late_missing] if rng.random() < 0.2 else [])
        parent = rng.choice(cands) if rng.random() < 0.65 else None
        fg, fgs = color_spec(rng)
        bg, bgs = color_spec(rng)
        mods = {}
        for e in EFFECTS:
            r = rng.random()
            if r < 0.2:
                mods[e] = True
            elif r < 0.3:
                mods[e] = False
        items[sid] = dict(parent=parent, fg=fg, bg=bg, mods=mods,
                          descr=render_descr(rng, parent, fgs, bgs, mods), initial_only=False)
    if dangling:
        # an item whose parent is never registered: something stays pending during the whole history
        items[prefix + "DANGLING"] = dict(parent=prefix + "NEVER.REGISTERED", fg=('c', 1), bg='inherit', mods={},
                                          descr=prefix + "NEVER.REGISTERED:RED", initial_only=rng.random() < 0.5)
        items[prefix + "DANGLING2"] = dict(parent=prefix + "DANGLING", fg='inherit', bg=('c', 4), mods={'bold': True},
                                           descr=prefix + "DANGLING:/BLUE:bold", initial_only=rng.random() < 0.5)
    if rng.random() < 0.5:
        # the explicit configuration overrides a built-in id (often TEXT, the fallback colour)
        b = rng.choice(list(BUILT) + ["TEXT"] * 5)
        fg, fgs = color_spec(rng)
        bg, bgs = color_spec(rng)
        def reaches(sid, target):
            seen = set()
            while sid is not None and sid not in seen:
                if sid == target:
                    return True
                seen.add(sid)
                sid = items[sid]['parent'] if sid in items else None
            return False
        free = [i for i in ids if not reaches(i, b)]
        parent = rng.choice(free) if (b != "TEXT" and free and rng.random() < 0.4) else None
        items[b] = dict(parent=parent, fg=fg, bg=bg, mods={}, descr=render_descr(rng, parent, fgs, bgs, {}),
                        initial_only=True)
    if rng.random() < 0.25:
        # an id of the explicit configuration spelled like one of the accessor names of the standard palette
        low = rng.choice(["ok", "warn", "text", "name", "keyword", "error", "number"])
        fg, fgs = color_spec(rng)
        bg, bgs = color_spec(rng)
        mods = {'underline': True} if rng.random() < 0.5 else {}
        items[low] = dict(parent=None, fg=fg, bg=bg, mods=mods, descr=render_descr(rng, None, fgs, bgs, mods),
                          initial_only=True)
    if rng.random() < 0.5 and any(it['parent'] == late_missing for it in items.values()):
        # the missing id gets registered in some later batch
        fg, fgs = color_spec(rng)
        items[late_missing] = dict(parent=None, fg=fg, bg='inherit', mods={'underline': True},
                                   descr=render_descr(rng, None, fgs, "", {'underline': True}),
                                   initial_only=False, late=True)
    return items


def resolve(items, sid, registered):
    """harness resolver -> (fg, bg, mods) or 'UNRES'"""
    if sid in items and sid in registered:
        it = items[sid]
    elif sid in BUILT:
        return BUILT[sid]
    else:
        return 'UNRES'
    if it['parent'] is None:
        base = (None, None, {})
    else:
        base = resolve(items, it['parent'], registered)
        if base == 'UNRES':
            return 'UNRES'
    fg = base[0] if it['fg'] == 'inherit' else None if it['fg'] == 'default' else it['fg']
    bg = base[1] if it['bg'] == 'inherit' else None if it['bg'] == 'default' else it['bg']
    return (fg, bg, {**base[2], **it['mods']})


def chain_len(items, sid, registered):
    n = 0
    while sid in items and sid in registered and items[sid]['parent'] is not None:
        n += 1
        sid = items[sid]['parent']
    return n


def nest(flat):
    """flat dotted ids -> nested dictionaries (as deep as the ids have components); an id that lives in a group
    called like another id OF THE SAME DICTIONARY stays a flat dotted key (a name cannot be item and group at once)"""
    out = {}
    for k, v in flat.items():
        parts = k.split('.')
        prefixes = {'.'.join(parts[:n]) for n in range(1, len(parts))}
        if prefixes & set(flat) or any(o.startswith(k + '.') for o in flat):
            out[k] = v
            continue
        d = out
        clash = False
        for p in parts[:-1]:
            nxt = d.setdefault(p, {})
            if not isinstance(nxt, dict):
                clash = True
                break
            d = nxt
        if clash or isinstance(d.get(parts[-1]), dict):
            out[k] = v       # cannot be nested next to an item of the same name: keep it flat
        else:
            d[parts[-1]] = v
    return out


def shown_state(fmt_obj):
    """state the terminal model reads for one character printed through the formatter"""
    out = str(fmt_obj("t"))
    cells = sgr.cells(out)
    if len(cells) != 1 or cells[0][0] != "t":
        raise sgr.SgrError("formatter changed the text: %r" % out)
    return cells[0][1]


class Stop(Exception):
    pass


class VfStablePalette(Palette):
    """a component palette that lives as long as the process and is used with many configurations, sometimes
    only through its effect-free variant"""
    SYNTAX_DEFAULTS = {"VFS.A": "RED", "VFS.B": "VFS.A:/BLUE:bold"}
    a = ConfColor("VFS.A")
    b = ConfColor("VFS.B")


STABLE_ITEMS = {
    "VFS.A": dict(parent=None, fg=('c', 1), bg='inherit', mods={}, descr="RED", initial_only=False, stable=True),
    "VFS.B": dict(parent="VFS.A", fg='inherit', bg=('c', 4), mods={'bold': True}, descr="VFS.A:/BLUE:bold",
                  initial_only=False, stable=True),
}


def run_history(ctx, items, plan, mode, case):
    """plan = {"init": [ids], "batches": [[kind, [ids], [conflict ids]], ...]}"""
    registered = set()
    unresolved_before = set()
    made_global = False
    nontrivial = False

    def fail(mech, detail):
        ctx.violation(mech, detail, case)
        raise Stop()

    def want_of(sid):
        exp = resolve(items, sid, registered)
        if exp == 'UNRES':
            return sgr.DEFAULT, True
        if mode == "no_color":
            return sgr.DEFAULT, False
        return (exp[0], exp[1], frozenset(e for e, v in exp[2].items() if v)), False

    def verify(conf, tag, palettes):
        nonlocal nontrivial
        pal = conf.get_palette()
        for sid in items:
            if sid not in registered:
                continue
            want, unres = want_of(sid)
            for how, getter in (("get_color", lambda: conf.get_color(sid)), ("get_palette", lambda: pal[sid]),
                                ("palette.get_color", lambda: pal.get_color(sid))):
                try:
                    got = shown_state(getter())
                except sgr.SgrError as err:
                    fail("malformed-formatter-output", {"id": sid, "err": str(err)})
                ctx.count("formatter_checks")
                if mode == "no_color":
                    ctx.count("no_color_checks")
                if got != want:
                    mech = "formatter-differs-from-resolved-description"
                    if unres:
                        mech = "unresolvable-id-is-coloured"
                    elif sid in unresolved_before:
                        mech = "pending-chain-not-resolved-after-registration"
                    elif mode == "no_color":
                        mech = "no-color-configuration-emits-effects"
                    fail(mech, {"id": sid, "descr": items[sid]['descr'], "via": how, "step": tag,
                                "shown": repr(got), "expected": repr(want)})
            if unres:
                unresolved_before.add(sid)
            else:
                if sid in unresolved_before:
                    unresolved_before.discard(sid)
                    ctx.count("pending_chains_resolved_later")
                    nontrivial = True
                if chain_len(items, sid, registered) >= 3:
                    nontrivial = True
        # palettes obtained from the configuration now reflect its current state
        for pcls, accessors, synced in palettes:
            try:
                if isinstance(pcls, tuple):
                    # (compound palette class, sub-palette class): the sub-palette is obtained through the compound one
                    p = pcls[0](conf, mode == "no_color").get_sub_palette(pcls[1])
                else:
                    p = pcls(synced=True) if synced else pcls(conf, mode == "no_color")
            except Exception as err:
                fail("palette-construction-raises", {"type": type(err).__name__, "msg": str(err)[:150]})
            views = [("accessor", p)]
            if not isinstance(pcls, tuple) and not synced:
                # the same palette as a class that uses colours obtains it (the PaletteUser helper): from its
                # declared palette class, from a class given by the caller, from a ready palette object
                user = type("VfUser", (akcolor.PaletteUser,), {"PALETTE_CLASS": pcls})
                bare = type("VfOtherUser", (akcolor.PaletteUser,), {"PALETTE_CLASS": VfStablePalette})
                try:
                    views += [("user:declared-class", user._mk_palette(None, mode == "no_color", conf)),
                              ("user:given-class", bare._mk_palette(pcls, mode == "no_color", conf)),
                              ("user:given-object", bare._mk_palette(p, mode == "no_color", None))]
                except Exception as err:
                    fail("palette-construction-raises", {"type": type(err).__name__, "msg": str(err)[:150],
                                                         "route": "PaletteUser"})
            for acc, sid in accessors.items():
                if sid not in registered:
                    continue
                want, _ = want_of(sid)
                for via, pv in views:
                    # (Palette.get_color is not used: its documentation speaks of syntax ids, its table is keyed
                    # by accessor names - what it should return is left open)
                    got = shown_state(getattr(pv, acc))
                    ctx.count("palette_accessor_checks")
                    if via != "accessor":
                        ctx.count("palettes_obtained_through_the_user_helper")
                    if synced:
                        ctx.count("synced_palette_checks")
                    if got != want:
                        fail("synced-palette-is-stale" if synced else "palette-accessor-differs",
                             {"id": sid, "step": tag, "via": via, "shown": repr(got), "expected": repr(want)})

    palettes = []
    try:
        init = {i: items[i]['descr'] for i in plan["init"]}
        try:
            if mode == "global" and plan.get("via_app_configure"):
                # the application's start-up helper builds the explicit configuration from one or several dictionaries
                # of amendments and installs it as the global one
                import types
                from ak.cli_tools import std_app_configure
                keys = sorted(init)
                cut = len(keys) // 2 if plan["via_app_configure"] == "list" else len(keys)
                parts = [nest({k: init[k] for k in keys[:cut]}), nest({k: init[k] for k in keys[cut:]})]
                args = types.SimpleNamespace(color="always", _no_log=True)
                std_app_configure(args, syntax_amends=parts if plan["via_app_configure"] == "list" else parts[0])
                conf = akcolor.get_global_colors_config()
                made_global = True
                ctx.count("configurations_built_by_the_start_up_helper")
            else:
                conf = ColorsConfig(nest(init), no_color=(mode == "no_color"))
        except Exception as err:
            fail("valid-configuration-rejected", {"type": type(err).__name__, "msg": str(err)[:200], "init": init})
        registered |= set(init)
        if plan.get("plain_global_palette") and mode == "local":
            # somebody asks for the effect-free variant of this configuration's global palette
            try:
                akcolor.GlobalPalette(colors_conf=conf, no_color=True)
            except Exception as err:
                fail("palette-construction-raises", {"type": type(err).__name__, "msg": str(err)[:150]})
        if plan.get("early_palette"):
            # a component palette obtained before most ids are known; it is obtained again after every step
            _UNIQ[0] += 1
            acc_all = {"e%d" % k: sid for k, sid in enumerate(sorted(items))}
            body = {acc: ConfColor(sid) for acc, sid in acc_all.items()}
            early = type("VfEarlyPalette%d" % _UNIQ[0], (Palette,), body)
            try:
                early(conf, mode == "no_color")
            except Exception as err:
                fail("palette-construction-raises", {"type": type(err).__name__, "msg": str(err)[:150]})
            palettes.append((early, acc_all, False))
        if mode == "global":
            akcolor.set_global_colors_config(conf)
            made_global = True
            # the global configuration is global: a worker thread of the application sees the one that was installed
            import threading
            seen = []
            worker = threading.Thread(target=lambda: seen.append(akcolor.get_global_colors_config()))
            worker.start()
            worker.join(30)
            ctx.count("global_configuration_asked_for_from_another_thread")
            if not seen or seen[0] is not conf:
                fail("another-thread-sees-another-global-configuration", {"seen": repr(seen[:1])[:80]})
        verify(conf, "init", palettes)
        twin = None
        for bi, (kind, batch, conflicts) in enumerate(plan["batches"]):
            new = {i: items[i]['descr'] for i in batch}
            if plan.get("shallow_copy_before_batch") == bi and mode == "local":
                # somebody takes a copy of the configuration (copy.copy) while descriptions are still missing
                import copy
                try:
                    twin = copy.copy(conf)
                except Exception as err:
                    fail("registration-raises", {"type": type(err).__name__, "msg": str(err)[:200], "on": "copy.copy"})
            if plan.get("reports_read") and (bi + len(batch)) % 2 == 0:
                # somebody reads the report of the configuration (the documented way to look at it)
                try:
                    str(conf.make_report())
                    ctx.count("reports_read_between_registrations")
                except Exception:
                    ctx.count("report_raises(observed, not judged)")
            for i in ([] if kind == "palette-synced" else conflicts):
                if i in registered and i not in new:
                    new[i] = "MAGENTA/CYAN:blink"
                    ctx.count("conflicting_late_descriptions_ignored")
            try:
                if kind == "add":
                    conf.add_new_items(new, "batch%d" % bi)
                elif kind == "component":
                    # the defaults of a component that is no palette class (a plug-in's file, read into a dictionary
                    # that is dropped right away), registered through the documented method
                    _UNIQ[0] += 1
                    conf.register_color_conf_component(nest(dict(new)), "component %d" % _UNIQ[0])
                    ctx.count("components_registered_from_dictionaries_that_are_dropped")
                elif kind == "palette-stable":
                    # the long-lived component palette comes to this configuration, here through its
                    # effect-free variant (which exists once per class, whatever the configuration)
                    VfStablePalette(conf, plan.get("stable_no_color", True))
                    ctx.count("long_lived_palette_class_met_a_new_configuration")
                else:
                    _UNIQ[0] += 1
                    accessors = {"a%d" % k: sid for k, sid in enumerate(batch)}
                    body = {"SYNTAX_DEFAULTS": nest(new) if kind == "palette-nested" else dict(new)}
                    body.update({acc: ConfColor(sid) for acc, sid in accessors.items()})
                    synced = mode == "global" and kind == "palette-synced"
                    if kind == "palette-derived":
                        # the defaults are declared in a base palette class; the class that is used derives from it
                        # (python inheritance) and declares no defaults of its own
                        basecls = type("VfBasePalette%d" % _UNIQ[0], (Palette,), {"SYNTAX_DEFAULTS": dict(new)})
                        pcls = type("VfDerivedPalette%d" % _UNIQ[0], (basecls,),
                                    {acc: ConfColor(sid) for acc, sid in accessors.items()})
                        pcls(conf, mode == "no_color")
                        palettes.append((pcls, accessors, False))
                        registered |= set(batch)
                        verify(conf, "batch%d" % bi, palettes)
                        continue
                    if kind == "palette-child":
                        # the defaults live in a parent palette class that is never instantiated itself
                        parent = type("VfParentPalette%d" % _UNIQ[0], (Palette,), {"SYNTAX_DEFAULTS": dict(new)})
                        body = {"PARENT_PALETTES": [parent]}
                        body.update({acc: ConfColor(sid) for acc, sid in accessors.items()})
                    # (half of the histories give all their component classes one and the same name, as a class
                    # factory or a re-executed class statement does)
                    pcls = type("VfPalette" if plan.get("same_class_names") else "VfPalette%d" % _UNIQ[0],
                                (Palette,), body)
                    if kind == "palette-compound":
                        # ... or in a palette class that is only reached as a sub-palette of a compound palette
                        comp = type("VfCompound%d" % _UNIQ[0], (akcolor.CompoundPalette,), {"SUB_PALETTES_MAP": {}})
                        comp(conf, mode == "no_color").get_sub_palette(pcls)
                        palettes.append(((comp, pcls), accessors, False))
                    else:
                        if synced:
                            pcls(synced=True)
                        else:
                            pcls(conf, mode == "no_color")
                        palettes.append((pcls, accessors, synced))
            except Stop:
                raise
            except Exception as err:
                fail("registration-raises", {"type": type(err).__name__, "msg": str(err)[:200], "batch": new})
            registered |= set(batch)
            verify(conf, "batch%d" % bi, palettes)
        if twin is not None and hasattr(twin, "syntax_map"):
            # whatever the copy shares with the original: what it shows for an id follows from the descriptions IT has
            known = {sid for sid in items if sid in twin.syntax_map}
            ctx.count("copies_taken_while_descriptions_were_missing")
            for sid in sorted(known):
                exp = resolve(items, sid, known)
                want = sgr.DEFAULT if exp == 'UNRES' else (exp[0], exp[1], frozenset(e for e, v in exp[2].items() if v))
                try:
                    got = shown_state(twin.get_color(sid))
                except sgr.SgrError as err:
                    fail("malformed-formatter-output", {"id": sid, "err": str(err)})
                ctx.count("formatter_checks")
                if got != want:
                    fail("unresolvable-id-is-coloured" if exp == 'UNRES' else "formatter-differs-from-resolved-description",
                         {"id": sid, "descr": items[sid]['descr'], "via": "a copy.copy of the configuration",
                          "ids_the_copy_has": len(known), "ids_the_original_has": len(registered)})
        if mode == "global" and plan.get("copy_probe"):
            # somebody works on a deep copy of the global configuration (tries out more colours): the copy is a
            # configuration of its own, the global one and its palettes are not concerned
            import copy
            try:
                trial = copy.deepcopy(conf)
                trial.add_new_items({"VFTRIAL.X": "GREEN:bold", "VFTRIAL.Y": "VFTRIAL.X:/RED"}, "trial")
            except Exception as err:
                fail("registration-raises", {"type": type(err).__name__, "msg": str(err)[:200], "on": "deep copy"})
            ctx.count("deep_copies_of_the_global_configuration_extended")
            if akcolor.get_global_colors_config() is not conf:
                fail("copy-of-the-global-configuration-became-the-global-one", {})
            verify(conf, "after a deep copy was extended", palettes)
        if mode == "global" and plan.get("swap") is not None:
            # another global configuration is installed: the synced palettes of this history register
            # their defaults in it (in the order they were created) and must reflect the result
            init2 = {i: items[i]['descr'] for i in plan["swap"]}
            conf2 = ColorsConfig(nest(init2))
            # somebody obtained the palette of the first configuration while it was the global one, and keeps it
            kept = conf.get_palette()
            kept_want = {sid: want_of(sid)[0] for sid in items if sid in registered}
            akcolor.set_global_colors_config(conf2)
            for sid, want in kept_want.items():
                ctx.count("kept_palette_checks_after_a_global_switch")
                got = shown_state(kept[sid])
                if got != want:
                    fail("palette-kept-across-a-global-switch-follows-the-new-configuration",
                         {"id": sid, "shown": repr(got), "expected": repr(want)})
            synced_palettes = [p for p in palettes if p[2]]
            registered.clear()
            registered.update(init2)
            for _pcls, accessors, _ in synced_palettes:
                registered.update(accessors.values())
            unresolved_before.clear()
            verify(conf2, "swap", synced_palettes)
            ctx.count("global_configuration_swaps")
            gp = getattr(akcolor, "global_palette", None)
            if gp is not None:
                for attr, sid in (("text", "TEXT"), ("name", "NAME"), ("keyword", "KEYWORD"), ("ok", "OK"),
                                  ("warn", "WARN"), ("error", "ERROR")):
                    exp = resolve(items, sid, registered)
                    want = sgr.DEFAULT if exp == 'UNRES' else (
                        exp[0], exp[1], frozenset(e for e, v in exp[2].items() if v))
                    got = shown_state(getattr(gp, attr))
                    ctx.count("synced_palette_checks")
                    if got != want:
                        fail("synced-palette-is-stale", {"palette": "ak.color.global_palette", "attr": attr,
                                                         "shown": repr(got), "expected": repr(want)})
    except Stop:
        pass
    finally:
        if made_global:
            # forget the synced palettes of this history (as a new process would): they would be
            # re-registered, nested, on every later change of the global configuration and the
            # recursion depth would grow with the number of histories run in this process
            registry = getattr(akcolor, '_GSYNCED_PALETTES', None)
            if isinstance(registry, dict):
                for pcls, _acc, _synced in palettes:
                    if not isinstance(pcls, tuple):
                        registry.pop(pcls, None)
            akcolor.set_global_colors_config(None)
    if nontrivial:
        ctx.nontrivial(sig_of([{k: v['descr'] for k, v in items.items()}, plan]))


def make_plan(rng, items, mode):
    ids = [i for i in items if not items[i]['initial_only'] and not items[i].get('stable')]
    rng.shuffle(ids)
    late = [i for i in ids if items[i].get('late')]
    ids = [i for i in ids if not items[i].get('late')]
    k = rng.randint(0, len(ids))
    init = ids[:k] + [i for i in items if items[i]['initial_only']]
    rest = ids[k:]
    batches = []
    while rest:
        m = rng.randint(1, len(rest))
        batch, rest = rest[:m], rest[m:]
        kinds = ["add", "add", "palette", "palette-nested", "palette-child", "palette-compound", "palette-derived",
                 "component", "component", "component"] + (
            ["palette-synced"] * 3 if mode == "global" else [])
        conflicts = rng.sample(sorted(items), min(2, len(items)))
        batches.append([rng.choice(kinds), batch, conflicts])
    for i in late:
        batches.insert(rng.randint(0, len(batches)), ["add", [i], []])
    if any(it.get('stable') for it in items.values()):
        batches.insert(rng.randint(0, len(batches)), ["palette-stable", sorted(STABLE_ITEMS), []])
    swap = None
    if mode == "global" and rng.random() < 0.7:
        pool = [i for i in items if not items[i].get('late')]
        swap = [i for i in pool if items[i]['initial_only'] or rng.random() < 0.4]
    return {"init": init, "batches": batches, "early_palette": rng.random() < 0.5, "swap": swap,
            "plain_global_palette": rng.random() < 0.3, "stable_no_color": rng.random() < 0.7,
            "same_class_names": rng.random() < 0.5, "copy_probe": rng.random() < 0.4,
            "reports_read": rng.random() < 0.5, "shallow_copy_before_batch": rng.choice([None, None, 0, 1, 2]),
            "via_app_configure": rng.choice([None, None, "dict"])}       # (a LIST of amendment dictionaries, which the
            # helper's doc string also offers, is refused by the unchanged code with a TypeError: outside C14, see DESIGN)


def long_chain_case(ctx, n=1500):
    """a reference chain of n links, registered in three batches with the root in the last one: when it arrives
    the whole chain is pending, and the id that sorts first is the one farthest from the root"""
    ctx.evaluated()
    ids = ["LC.N%04d" % k for k in range(n)]
    descr = {ids[k]: ids[k + 1] for k in range(n - 1)}
    descr[ids[-1]] = "RED/BLUE:bold"
    case = {"kind": "long-chain", "links": n}
    try:
        conf = ColorsConfig({})
        conf.add_new_items({k: descr[k] for k in ids[n // 3: 2 * n // 3]}, "middle")
        conf.add_new_items({k: descr[k] for k in ids[: n // 3]}, "far end")
        conf.add_new_items({k: descr[k] for k in ids[2 * n // 3:]}, "root part")
        want = (('c', 1), ('c', 4), frozenset(['bold']))
        for k in (ids[0], ids[n // 2], ids[-1]):
            got = shown_state(conf.get_color(k))
            ctx.count("formatter_checks")
            if got != want:
                ctx.violation("formatter-differs-from-resolved-description",
                              {"id": k, "chain_links": n, "shown": repr(got), "expected": repr(want)}, case)
                return
        ctx.count("long_reference_chains_resolved")
    except (Exception, RecursionError) as err:
        ctx.violation("registration-raises", {"type": type(err).__name__, "msg": str(err)[:120], "chain_links": n}, case)


def built_in_amended_case(ctx, k):
    """an application's configuration class with built-in descriptions of its own; the application adds to them (a
    plug-in was loaded) after a configuration object exists already: configurations made afterwards have them all"""
    ctx.evaluated()
    base = dict(ColorsConfig.BUILT_IN_CONFIG)
    app_conf = type("VfAppConfig%d" % k, (ColorsConfig,), {"BUILT_IN_CONFIG": dict(base, VFAPP={"FIRST": "GREEN:bold"})})
    case = {"kind": "built-in-amended", "k": k}
    try:
        first = app_conf({})
        app_conf.BUILT_IN_CONFIG = dict(app_conf.BUILT_IN_CONFIG, VFPLUG={"ITEM": "VFAPP.FIRST:underline", "OWN": "RED"})
        second = app_conf({"VFUSER": "VFPLUG.ITEM:/BLUE"})
        got = {sid: shown_state(second.get_color(sid)) for sid in ("VFAPP.FIRST", "VFPLUG.ITEM", "VFPLUG.OWN", "VFUSER")}
        got_first = shown_state(first.get_color("VFAPP.FIRST"))
    except Exception as err:
        ctx.violation("valid-configuration-rejected", {"type": type(err).__name__, "msg": str(err)[:200]}, case)
        return
    ctx.count("configuration_classes_whose_built_in_items_were_amended")
    green, red, blue = (('c', 2), ('c', 1), ('c', 4))
    want = {"VFAPP.FIRST": (green, None, frozenset({'bold'})),
            "VFPLUG.ITEM": (green, None, frozenset({'bold', 'underline'})),
            "VFPLUG.OWN": (red, None, frozenset()),
            "VFUSER": (green, blue, frozenset({'bold', 'underline'}))}
    if got != want or got_first != want["VFAPP.FIRST"]:
        bad = sorted(s for s in want if got.get(s) != want[s])
        ctx.violation("formatter-differs-from-resolved-description",
                      {"ids": bad, "shown": str({s: got[s] for s in bad})[:200], "step": "built-in items amended"}, case)


def bare_class_case(ctx, k):
    """a configuration class without built-in descriptions (an application that wants none of the package's items): all
    it knows is what its constructor was given - items that refer to each other, looked at right away; the middle
    section of a description may be left empty"""
    ctx.evaluated()
    import random as _random
    rng = _random.Random(k)
    bare = type("VfBareConfig%d" % k, (ColorsConfig,), {"BUILT_IN_CONFIG": {}})
    red, blue, green = (('c', 1), ('c', 4), ('c', 2))
    mid = rng.choice(["", " ", ""])
    flat = [("B0.ROOT", "RED:bold"), ("B0.KID", "B0.ROOT:/BLUE"), ("B1.GRAND", "B0.KID:%s:underline,no_bold" % mid),
            ("SOLO", "GREEN"), ("B1.LAST", "B1.GRAND:%s:bold" % mid), ("ECHO", "SOLO")]
    rng.shuffle(flat)
    init = {}
    for sid, descr in flat:
        if "." in sid:
            init.setdefault(sid.split(".")[0], {})[sid.split(".")[1]] = descr
        else:
            init[sid] = descr
    # (... and one refers to an id that is a built-in item of the package's own class: here it is nobody's item until
    # somebody registers it)
    init["TITLE"] = "NAME:underline"
    want = {"B0.ROOT": (red, None, frozenset({'bold'})), "B0.KID": (red, blue, frozenset({'bold'})),
            "B1.GRAND": (red, blue, frozenset({'underline'})), "SOLO": (green, None, frozenset()),
            "B1.LAST": (red, blue, frozenset({'underline', 'bold'})), "ECHO": (green, None, frozenset())}
    case = {"kind": "bare-class", "k": k}
    try:
        conf = bare(init, no_color=False) if k % 2 else bare(init)
        got = {sid: shown_state(conf.get_color(sid)) for sid in want}
        pal_cls = type("VfBarePalette%d" % k, (Palette,), {"last": ConfColor("B1.LAST"), "echo": ConfColor("ECHO")})
        pal = pal_cls(conf)
        got_pal = (shown_state(pal.last), shown_state(pal.echo))
    except Exception as err:
        ctx.violation("valid-configuration-rejected", {"type": type(err).__name__, "msg": str(err)[:200],
                                                       "init": str(init)[:300]}, case)
        return
    ctx.count("configuration_classes_without_built_in_items")
    try:
        before = shown_state(conf.get_color("TITLE"))
        conf.add_new_items({"NAME": "BLUE"}, "a component of the application")
        after = shown_state(conf.get_color("TITLE"))
    except Exception as err:
        ctx.violation("registration-raises", {"type": type(err).__name__, "msg": str(err)[:120]}, case)
        return
    if before != sgr.DEFAULT or after != (blue, None, frozenset({'underline'})):
        ctx.violation("formatter-differs-from-resolved-description",
                      {"ids": ["TITLE"], "shown": repr((before, after))[:200],
                       "step": "an id the package's own class has as a built-in item, in a class without built-in items"}, case)
        return
    if got != want or got_pal != (want["B1.LAST"], want["ECHO"]):
        bad = sorted(sid for sid in want if got.get(sid) != want[sid])
        ctx.violation("formatter-differs-from-resolved-description",
                      {"ids": bad, "shown": str({sid: got[sid] for sid in bad})[:200],
                       "step": "right after the constructor of a class without built-in items"}, case)


def pending_standard_id_case(ctx, k):
    """the global configuration describes a standard id (NAME, WARN, ...) by a reference to an id nobody knows yet; the
    component that knows it registers later. The package's global palette - read through its shortcut attributes, as
    the package's own printers do - shows the item uncolored before and resolved after"""
    ctx.evaluated()
    sid, attr = [("NAME", "name"), ("WARN", "warn"), ("KEYWORD", "keyword"), ("OK", "ok"), ("ERROR", "error")][k % 5]
    base = "VFLATE%d.BASE" % k
    case = {"kind": "pending-standard-id", "k": k}
    gp = getattr(akcolor, "global_palette", None)
    if gp is None or not hasattr(gp, attr):
        ctx.count("global_palette_not_found(not judged)")
        return
    try:
        conf = ColorsConfig({sid: base + ":underline"})
        akcolor.set_global_colors_config(conf)
        try:
            kept = conf.get_palette()       # (a palette somebody obtained early and keeps)
            kept_before = (shown_state(kept.get_color(sid)), shown_state(kept[base]))
            before = (shown_state(getattr(gp, attr)), shown_state(conf.get_color(sid)))
            if k % 2:
                str(gp), getattr(gp, "text")        # (somebody looks at the palette in between)
            conf.add_new_items({base: "BLUE/g3"}, "a component that registers late")
            after = (shown_state(getattr(gp, attr)), shown_state(conf.get_color(sid)))
            kept_after = (shown_state(kept.get_color(sid)), shown_state(kept[base]))
        finally:
            akcolor.set_global_colors_config(None)
    except Exception as err:
        ctx.violation("registration-raises", {"type": type(err).__name__, "msg": str(err)[:120]}, case)
        return
    ctx.count("standard_ids_that_waited_for_a_late_registration")
    want = (('c', 4), ('c', 235), frozenset({'underline'}))
    if kept_before != (sgr.DEFAULT, sgr.DEFAULT) or kept_after != (want, (('c', 4), ('c', 235), frozenset())):
        ctx.violation("synced-palette-is-stale", {"id": sid, "palette": "obtained from the configuration before the registration",
                                                  "shown": repr((kept_before, kept_after))[:240], "expected": repr(want)}, case)
        return
    if before != (sgr.DEFAULT, sgr.DEFAULT) or after != (want, want):
        ctx.violation("synced-palette-is-stale" if after[1] == want and after[0] != want else
                      "formatter-differs-from-resolved-description",
                      {"id": sid, "palette": "ak.color.global_palette", "attr": attr,
                       "shown": repr((before, after))[:240], "expected": repr(want)}, case)


def foreign_accessor_case(ctx, k):
    """a palette class of one component has an accessor for an id that another component describes; the first
    component is used before the second one has registered: the id is uncolored until then, and described by its
    owner afterwards - whichever of the two was there first"""
    ctx.evaluated()
    own_id, thing = "VFO%d.OWN" % k, "VFT%d.THING" % k
    p1 = type("VfUserPalette%d" % k, (Palette,), {"SYNTAX_DEFAULTS": {own_id: "RED"}, "own": ConfColor(own_id),
                                                   "foreign": ConfColor(thing)})
    p2 = type("VfOwnerPalette%d" % k, (Palette,), {"SYNTAX_DEFAULTS": {thing: "BLUE:bold"}, "thing": ConfColor(thing)})
    case = {"kind": "foreign-accessor", "k": k}
    try:
        conf = ColorsConfig({"VFX%d" % k: thing + ":underline"})
        order = (p1, p2) if k % 2 == 0 else (p2, p1)
        first = order[0](conf)
        early = shown_state(getattr(first, "foreign" if order[0] is p1 else "thing"))
        order[1](conf)
        got = (shown_state(p1(conf).foreign), shown_state(p2(conf).thing), shown_state(conf.get_color(thing)),
               shown_state(conf.get_color("VFX%d" % k)))
    except Exception as err:
        ctx.violation("registration-raises", {"type": type(err).__name__, "msg": str(err)[:120]}, case)
        return
    ctx.count("palette_classes_with_an_accessor_for_another_component's_id")
    blue = (('c', 4), None, frozenset({'bold'}))
    want = (blue, blue, blue, (('c', 4), None, frozenset({'bold', 'underline'})))
    if got != want or early != (sgr.DEFAULT if order[0] is p1 else blue):
        ctx.violation("formatter-differs-from-resolved-description",
                      {"ids": [thing], "shown": repr((early, got))[:240], "step": "an accessor for another component's id, "
                       + ("used before" if order[0] is p1 else "used after") + " the owner registered"}, case)


def run_shard(ctx):
    for k in range(3):
        built_in_amended_case(ctx, ctx.shard * 10 + k)
    for k in range(8):
        foreign_accessor_case(ctx, ctx.shard * 8 + k)
    for k in range(10):
        pending_standard_id_case(ctx, ctx.shard * 10 + k)
    for k in range(6):
        bare_class_case(ctx, ctx.shard * 10 + k)
    if ctx.shard == 0:
        long_chain_case(ctx)
    for i in range(ctx.cases):
        rng = ctx.rng(i)
        mode = "global" if i % 10 == 3 else "no_color" if i % 10 == 7 else "local"
        if mode == "global" and getattr(akcolor, '_GSYNCED_PALETTES', None) is None and i > 300:
            mode = "local"   # registry not found: keep the number of synced palettes in this process small
        _UNIQ[0] += 1
        prefix = "U%dx" % _UNIQ[0] if mode == "global" else ""
        items = gen_set(rng, prefix, dangling=(mode == "global" and rng.random() < 0.7))
        if mode != "global" and rng.random() < 0.3:
            items.update({k: dict(v) for k, v in STABLE_ITEMS.items()})
        for trial in range(3):
            ctx.evaluated()
            if mode == "global" and trial:
                # synced palettes of earlier histories stay registered process-wide and would
                # re-register their defaults first: ids must be fresh for every global history
                _UNIQ[0] += 1
                items = gen_set(rng, "U%dx" % _UNIQ[0], dangling=rng.random() < 0.7)
            plan = make_plan(rng, items, mode)
            case = {"items": items, "plan": plan, "mode": mode}
            run_history(ctx, items, plan, mode, case)
        if i < 2:
            ctx.sample({"descriptions": {k: v['descr'] for k, v in items.items()}, "plan": plan, "mode": mode})


def replay(ctx, case):
    if case.get("kind") == "long-chain":
        long_chain_case(ctx, case["links"])
        return
    if case.get("kind") == "built-in-amended":
        built_in_amended_case(ctx, 900 + case["k"])
        return
    if case.get("kind") == "foreign-accessor":
        foreign_accessor_case(ctx, case["k"])
        return
    if case.get("kind") == "pending-standard-id":
        pending_standard_id_case(ctx, case["k"])
        return
    if case.get("kind") == "bare-class":
        bare_class_case(ctx, case["k"])
        return
    _replay(ctx, case)


def _replay(ctx, case):
    ctx.evaluated()
    run_history(ctx, case["items"], case["plan"], case["mode"], case)
