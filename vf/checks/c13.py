"""C13 A table's reported format string reproduces the table."""
import collections
import re
import types
import vf
vf.use_repo()
from ak.ppobj import FieldType, PPTable  # noqa: E402
from vf import tables as T  # noqa: E402
from vf.core import sig_of  # noqa: E402

ID = "C13"
LEVEL = "exploration"
RULE = ("tables as in C12 (fixed and ranged widths, enum modifiers, break-by, repeated fields, hidden ':-1' "
        "columns, limits via fmt / argument / '*', 12% of the tables with 49-70 records - beyond the default "
        "30:20 limits -, a field named like an SQL aggregate 'max(d)'), followed through their life: fresh -> printed -> (a sibling table built from its format object on other records) -> re-formatted "
        "through the setter with a random new format -> printed again -> columns removed -> printed. At each point "
        "s = str(table.fmt) is (1) given to the PPTable constructor with the same records / fields / types / "
        "titles / header / footer, (2) assigned to the fmt setter of the same table; both renderings (no_color) "
        "must equal the table's own rendering; then '', ';', ';;' are assigned and must change nothing. "
        "Non-trivial = life point after a print where the format has a ranged column or limits; distinct by "
        "(records, initial format, life point).")
ASSUMPTIONS = ["renderings are compared, not strings: the serialised form may omit limits when nothing was skipped"]
TIERS = {
    "quick": {"shards": 4, "cases": 700, "timeout": 300},
    "thorough": {"shards": 16, "cases": 8000, "timeout": 3000},
}
FLOORS = {"quick": {"tables_without_any_structure_checked": 140,
                    "distinct_nontrivial": 2500, "life_points_checked": 10000, "formats_with_printed_width": 3000,
                    "formats_with_limits": 1500, "noop_formats_checked": 30000},
          "thorough": {"tables_without_any_structure_checked": 560,
                       "distinct_nontrivial": 100000, "life_points_checked": 500000,
                       "formats_with_printed_width": 150000, "formats_with_limits": 70000,
                       "noop_formats_checked": 1500000}}
LEVEL_TEXT = ("Runtime exploration over table life histories: the reported format string is fed back through both "
              "entry points at every life point and the renderings are compared byte by byte.")
LEVEL_NOTE = "same generator bounds as C12; value_path ('<-') column descriptions are not generated"
TECHNIQUE = "runtime monitoring: format-string round trip at every point of a table's life history"


def field_names(c):
    """field 'd' may be called like an SQL aggregate column: 'max(d)'; field 'b' may be called 'A' (there is a
    field 'a' too: names that differ only in their case, as in a SQL join)"""
    return [(c.get('d_alias') or f) if f == 'd' else
            (f if c.get('b_alias') is None else c['b_alias']) if f == 'b' else f for f in T.FIELDS]


def ftypes(c):
    """the field types, keyed by the names the fields have in this case"""
    ft = T.mk_field_types()
    ft[field_names(c)[3]] = ft.pop('d')
    return ft


def alias_fmt(c, fmt):
    """the generated format strings call the 4th field 'd': rename it in the column descriptions"""
    alias, b_alias = c.get('d_alias'), c.get('b_alias')
    if not (alias or b_alias is not None) or not fmt:
        return fmt
    cols, sep, rest = fmt.partition(";")
    out = []
    for col in cols.split(","):
        if alias and "/" in alias and col[:1] == 'd' and col[1:2] in ('', '!', ':', '/'):
            continue    # (a field whose name reads like 'field/modifier' cannot be named in a format: it is not shown)
        if alias and col[:1] == 'd' and col[1:2] in ('', '!', ':', '/'):
            col = alias + col[1:]
        elif b_alias is not None and col[:1] == 'b' and col[1:2] in ('', '!', ':', '/'):
            col = b_alias + col[1:]
            if col == "":
                col = ":1-999"      # (a bare empty description would mean 'change nothing')
        out.append(col)
    if not [col for col in out if not col.endswith(":-1")]:
        out.append("st/val")        # (a table needs a visible column)
    return ",".join(out) + sep + rest


_REC = collections.namedtuple("Rec", T.FIELDS)


def build(c, fmt, limits=None):
    names = field_names(c)
    titles = {n: c['titles'][f] for n, f in zip(names, T.FIELDS)}
    recs, fields = c['recs'], names
    if c.get('shape') == 'namedtuple':
        # the record structure comes from the records themselves
        recs, fields = [_REC(*r) for r in recs], None
    elif c.get('shape') == 'attr':
        # ... or from the column descriptions: the values are attributes called like the fields
        recs, fields = [types.SimpleNamespace(**dict(zip(names, r))) for r in recs], None
    return PPTable(recs, fields=fields, fmt=fmt, limits=limits, header=c['header'], footer=c['footer'],
                   fields_types=ftypes(c), fields_titles=titles)


def gen_case(rng):
    recs = T.gen_records(rng, (0, 1, 3, 6, 10, 13) if rng.random() < 0.88 else (49, 52, 55, 70))
    fmt, _, limits = T.gen_fmt(rng, allow_hidden=True)
    if len(recs) > 40 and rng.random() < 0.6:
        fmt = fmt.split(";")[0] + rng.choice([";*", ";80:80", ";60:5", ";30:20", ";30:20"])
    lim_arg = rng.choice([None, None, None, (1, 1), (0, 2), (2, 0), (None, 2), (3, None), (None, None)])
    if len(recs) > 40 and rng.random() < 0.3:
        lim_arg = (30, 20)       # (the values the documentation names as defaults)
    if recs and rng.random() < 0.15:
        # log-like tables: the same few records again and again (equal and identical objects)
        pool = recs[:rng.randint(1, 2)]
        recs = [rng.choice(pool) for _ in range(len(recs) + rng.randint(0, 4))]
        if rng.random() < 0.7:
            lim_arg = rng.choice([(1, 1), (2, 2), (1, 0), (2, 1)])
    fmt2, _, _ = T.gen_fmt(rng, allow_hidden=True)
    if rng.random() < 0.3:
        # partial formats: only limits / only columns
        fmt2 = rng.choice([";%d:%d" % (rng.randint(0, 3), rng.randint(0, 3)), ";*", fmt2.split(";")[0]])
    remove = rng.sample(T.FIELDS, rng.randint(0, 2))
    # (... or like another field shown in one of its formats: 'st/val', 'st/name')
    d_alias = rng.choice([None, None, None, "max(d)", "d(x)", "st/val", "st/name", "ok!?", "d!x"])
    b_alias = rng.choice([None, None, None, None, "A", "A", ""])      # ('': a caption row with a blank cell)
    if rng.random() < 0.08:
        # a range written the other way round ("name:12-6"): the parser takes it, the table has SOME width for it,
        # and whatever is reported must give that table again
        cols_part, sep, rest = fmt.partition(";")
        cols_l = cols_part.split(",")
        for k, col in enumerate(cols_l):
            m = re.search(r":(\d+)-(\d+)$", col)
            if m and int(m.group(1)) < int(m.group(2)):
                cols_l[k] = col[:m.start()] + ":%s-%s" % (m.group(2), m.group(1))
                break
        fmt = ",".join(cols_l) + sep + rest
    c0 = {'d_alias': d_alias, 'b_alias': b_alias}
    fmt, fmt2 = alias_fmt(c0, fmt), alias_fmt(c0, fmt2)
    remove = [d_alias if (f == 'd' and d_alias) else b_alias if (f == 'b' and b_alias is not None) else f
              for f in remove if not (f == 'd' and d_alias and "/" in d_alias)]
    sibling = T.gen_records(rng, (1, 3, 6)) if rng.random() < 0.4 else None
    if sibling:
        # cells of other lengths than in the first table
        sibling = [tuple((v * 3 if isinstance(v, str) else v) for v in r) for r in sibling]
    shape = rng.choice([None] * 8 + ['namedtuple', 'attr'])
    if shape and b_alias == "":
        shape = None
    if shape == 'namedtuple' and (d_alias or b_alias or not recs):
        shape = None
    if shape:
        sibling = None
    if shape == 'attr':
        # such a table knows only the fields its first format names
        fmt2 = rng.choice([";1:2", ";*", fmt.split(";")[0], fmt.split(";")[0] + ";2:1"])
        known = {col.split(":")[0].split("/")[0].rstrip("!") for col in fmt.split(";")[0].split(",")}
        remove = [f for f in remove if f in known]
    return dict(le_limits=rng.choice([None, None, ";*", ";1:1", ";0:2", ";3:0", ";30:20"]), b_alias=b_alias, shape=shape, recs=recs, fmt=fmt, lim_arg=lim_arg, fmt2=fmt2, remove=remove, d_alias=d_alias, sibling=sibling,
                header=rng.choice([None, "hdr"]), footer=rng.choice([None, "f", ""]),
                titles={f: rng.choice(T.TITLES_POOL[f]) for f in T.FIELDS})


def judge(ctx, c, case):
    ctx.evaluated()
    try:
        t = build(c, c['fmt'], c['lim_arg'])
    except Exception as err:
        ctx.violation("table-raises", {"type": type(err).__name__, "msg": str(err)[:200]}, case)
        return
    printed = False
    for stage in ('fresh', 'printed', 'sibling-from-fmt-obj', 'limits-edited', 'printed-le', 'reformatted', 'printed2',
                  'columns-removed', 'printed3'):
        if stage in ('limits-edited', 'printed-le') and not c.get('le_limits'):
            continue
        if stage == 'sibling-from-fmt-obj':
            # another table is built from this table's format OBJECT (as ak.mcaller_sql does) on other
            # records and printed; afterwards both tables must still match their own reported formats
            if not c.get('sibling'):
                continue
            try:
                names = field_names(c)
                # (the sibling has twice the records: limits that hid nothing in the first table may hide some here)
                sib_recs = list(c['sibling']) * 2 if len(c['sibling']) % 2 else c['sibling']
                sib = PPTable(sib_recs, fmt_obj=t.fmt, header=c['header'], footer=c['footer'])
                sib_fmt_fresh = str(sib.fmt)        # (what it reports before it was ever printed)
                sib_base = T.render(sib)
                sib_fmt = str(sib.fmt)
                sib0 = PPTable(sib_recs, fields=names, fmt=sib_fmt_fresh, header=c['header'], footer=c['footer'],
                               fields_types=ftypes(c),
                               fields_titles={n: c['titles'][f] for n, f in zip(names, T.FIELDS)})
                if T.render(sib0) != sib_base:
                    ctx.violation("constructor-with-reported-format-renders-differently",
                                  {"stage": stage, "when": "format of the sibling taken before its first print",
                                   "fmt": sib_fmt_fresh, "table": sib_base[:300], "rebuilt": T.render(sib0)[:300]}, case)
                    return
                sib2 = PPTable(sib_recs, fields=names, fmt=sib_fmt, header=c['header'], footer=c['footer'],
                               fields_types=ftypes(c),
                               fields_titles={n: c['titles'][f] for n, f in zip(names, T.FIELDS)})
                sib_rebuilt = T.render(sib2)
            except Exception as err:
                ctx.violation("table-operation-raises", {"stage": stage, "type": type(err).__name__,
                                                         "msg": str(err)[:200]}, case)
                return
            ctx.count("sibling_tables_from_format_object")
            if sib_rebuilt != sib_base:
                ctx.violation("constructor-with-reported-format-renders-differently",
                              {"stage": stage, "fmt": sib_fmt, "table": sib_base[:300], "rebuilt": sib_rebuilt[:300]},
                              case)
                return
        try:
            if stage.startswith('printed'):
                T.render(t)
                printed = True
            elif stage == 'sibling-from-fmt-obj':
                pass
            elif stage == 'limits-edited':
                # the user takes the reported format (with its '(width)' notes) and edits only the limits
                t.fmt = str(t.fmt).split(";")[0] + c['le_limits']
            elif stage == 'reformatted':
                if len(c['fmt2']) % 3 == 0 and hasattr(t, 'set_fmt'):
                    # (the method form of the setter hands the table back: calls can be chained)
                    back = t.set_fmt(c['fmt2'])
                    if back is not t:
                        ctx.violation("set-fmt-does-not-hand-back-the-table", {"got": type(back).__name__}, case)
                        return
                else:
                    t.fmt = c['fmt2']
            elif stage == 'columns-removed':
                if not c['remove']:
                    break
                before = str(t.fmt)
                if len(c['remove']) % 2 and hasattr(t.fmt, 'remove_columns'):
                    # (the columns are taken out through the format object the table hands out)
                    t.fmt.remove_columns(c['remove'])
                    ctx.count("columns_removed_through_the_format_object")
                else:
                    t.remove_columns(c['remove'])
                if not str(t.fmt).split(";")[0]:
                    break  # all columns removed: nothing to print
        except Exception as err:
            ctx.violation("table-operation-raises", {"stage": stage, "type": type(err).__name__,
                                                     "msg": str(err)[:200]}, case)
            return
        try:
            sfmt = str(t.fmt)
        except Exception as err:
            ctx.violation("format-serialisation-raises", {"stage": stage, "type": type(err).__name__}, case)
            return
        try:
            base = T.render(t)
            # rendering may finalise widths: serialise again, that is what a user sees now
            sfmt_after = str(t.fmt)
        except Exception as err:
            ctx.violation("table-raises", {"stage": stage, "type": type(err).__name__, "msg": str(err)[:200]}, case)
            return
        ctx.count("life_points_checked")
        for label, s in (("before-print", sfmt), ("after-print", sfmt_after)):
            if label == "before-print" and s == sfmt_after:
                continue
            # (1) constructor
            try:
                t2 = build(c, s)
                r2 = T.render(t2)
            except Exception as err:
                ctx.violation("reported-format-rejected-by-constructor",
                              {"stage": stage, "fmt": s, "type": type(err).__name__, "msg": str(err)[:150]}, case)
                return
            if r2 != base:
                ctx.violation("constructor-with-reported-format-renders-differently",
                              {"stage": stage, "when": label, "fmt": s, "table": base[:300], "rebuilt": r2[:300]}, case)
                return
        # (2) setter on the same table
        try:
            t.fmt = sfmt_after
            r3 = T.render(t)
        except Exception as err:
            ctx.violation("reported-format-rejected-by-setter",
                          {"stage": stage, "fmt": sfmt_after, "type": type(err).__name__, "msg": str(err)[:150]}, case)
            return
        if r3 != base:
            ctx.violation("setter-with-reported-format-changes-rendering",
                          {"stage": stage, "fmt": sfmt_after, "before": base[:300], "after": r3[:300]}, case)
            return
        # (2b) a format the table cannot take is refused and changes nothing
        try:
            t.fmt = "no_such_field:3,,"
            ctx.violation("format-with-unknown-field-accepted", {"stage": stage}, case)
            return
        except ValueError:
            ctx.count("invalid_formats_refused")
            try:
                r5 = T.render(t)
            except Exception as err:
                ctx.violation("table-raises", {"stage": stage, "type": type(err).__name__, "msg": str(err)[:200],
                                               "after": "a refused format"}, case)
                return
            if r5 != base or str(t.fmt) != str(t.fmt):
                ctx.violation("refused-format-changes-rendering", {"stage": stage, "before": base[:300],
                                                                   "after": r5[:300]}, case)
                return
        except Exception as err:
            ctx.violation("table-operation-raises", {"stage": stage, "type": type(err).__name__,
                                                     "msg": str(err)[:200], "fmt": "no_such_field:3,,"}, case)
            return
        # (3) no-op formats
        for noop in ("", ";", ";;"):
            try:
                t.fmt = noop
                r4 = T.render(t)
            except Exception as err:
                ctx.violation("empty-format-rejected", {"stage": stage, "fmt": noop, "type": type(err).__name__,
                                                        "msg": str(err)[:150]}, case)
                return
            ctx.count("noop_formats_checked")
            if r4 != base:
                ctx.violation("empty-format-changes-rendering", {"stage": stage, "fmt": noop,
                                                                 "reported": str(t.fmt)}, case)
                return
        if "(" in sfmt_after:
            ctx.count("formats_with_printed_width")
        if ";" in sfmt_after:
            ctx.count("formats_with_limits")
        if printed and ("-" in sfmt_after.replace(":-1", "") or ";" in sfmt_after):
            ctx.nontrivial(sig_of([c['recs'], c['fmt'], c['lim_arg'], stage]))


ODD_NAMES = ["Surname, Name", "x:y", "q;r", " padded ", "bang!", "path/to", "a<-b", "w(3)", "5", "*"]


def odd_names_case(ctx, rng):
    """captions a format string cannot spell (a comma, a colon, ...): such a table is made without a format and its
    reported format is of no use - but the empty formats still have to leave it alone"""
    ctx.evaluated()
    names = rng.sample(ODD_NAMES, rng.randint(1, 3)) + ["plain"]
    rng.shuffle(names)
    recs = [tuple(rng.choice(["v", "ww", 7, None, "long value"]) for _ in names) for _ in range(rng.randint(0, 6))]
    limits = rng.choice([None, (1, 1), (2, 0)])
    case = {"odd_names": names, "recs": recs, "limits": limits}
    try:
        t = PPTable(recs, fields=names, limits=limits)
        base = T.render(t)
    except Exception as err:
        ctx.violation("table-raises", {"type": type(err).__name__, "msg": str(err)[:200]}, case)
        return
    ctx.count("tables_with_unspellable_field_names")
    for noop in ("", ";", ";;", "", ";"):
        try:
            t.fmt = noop
            again = T.render(t)
        except Exception as err:
            ctx.violation("empty-format-rejected", {"fmt": noop, "type": type(err).__name__, "msg": str(err)[:150]}, case)
            return
        ctx.count("noop_formats_checked")
        if again != base:
            ctx.violation("empty-format-changes-rendering", {"fmt": noop, "before": base[:200], "after": again[:200]}, case)
            return


def unknown_structure_case(ctx, rng):
    """a table made of nothing: no records, no fields, no format (the result of a query that found nothing).  It
    shows a placeholder; its reported format is a format like any other"""
    ctx.evaluated()
    kw = {}
    if rng.random() < 0.5:
        kw['header'] = rng.choice(["hdr", "", "a longer header than the table is wide"])
    if rng.random() < 0.3:
        kw['limits'] = rng.choice([(1, 1), (0, 0), None])
    printed_first = rng.random() < 0.5
    case = {"unknown_structure": True, "kw": kw, "printed_first": printed_first}
    try:
        t = PPTable([], **kw)
        if printed_first:
            T.render(t)
        reported = str(t.fmt)
        base = T.render(t)
        rebuilt = T.render(PPTable([], fmt=reported, **kw))
        t.fmt = reported
        after_setter = T.render(t)
    except Exception as err:
        ctx.violation("table-operation-raises", {"stage": "no structure", "type": type(err).__name__,
                                                 "msg": str(err)[:200]}, case)
        return
    ctx.count("tables_without_any_structure_checked")
    if rebuilt != base:
        ctx.violation("constructor-with-reported-format-renders-differently",
                      {"stage": "no structure", "fmt": reported, "table": base[:200], "rebuilt": rebuilt[:200]}, case)
    if after_setter != base:
        ctx.violation("setter-with-reported-format-changes-rendering",
                      {"stage": "no structure", "fmt": reported, "before": base[:200], "after": after_setter[:200]}, case)


def corner_tables_case(ctx, rng):
    """two corners of the format grammar: a field whose name is a number (its column description "5:4" reads like
    record limits), and width bounds that come from the field type and lie beyond the usual maximum"""
    ctx.evaluated()
    kind = rng.choice(["digit-name", "wide-type"])
    if kind == "digit-name":
        name = rng.choice(["5", "10", "2024"])
        width = rng.choice([3, 4, 15])
        recs = [(rng.choice([1, 22, 333333, "abcdefgh"]),) for _ in range(rng.randint(1, 6))]
        mk = lambda fmt: PPTable(list(recs), fields=[name], fmt=fmt)
        fmt0 = "%s:%d%s" % (name, width, rng.choice([";*", ";", ";2:1"]))
    else:
        big = rng.choice([1200, 1500])
        ft = lambda: {'note': FieldType(4, 2000)}
        recs = [(1, "x" * rng.choice([3, big])), (2, "y" * big), (3, "short")]
        mk = lambda fmt: PPTable(list(recs), fields=['id', 'note'], fmt=fmt, fields_types=ft())
        fmt0 = rng.choice(["id,note", "note", "id:3,note"])
    printed_first = rng.random() < 0.5
    case = {"corner_table": kind, "fmt": fmt0, "printed_first": printed_first}
    try:
        t = mk(fmt0)
        if printed_first:
            T.render(t)
        reported = str(t.fmt)
        base = T.render(t)
        rebuilt = T.render(mk(reported))
        t.fmt = reported
        after_setter = T.render(t)
    except Exception as err:
        ctx.violation("table-operation-raises", {"stage": kind, "type": type(err).__name__, "msg": str(err)[:200]}, case)
        return
    ctx.count("corner_tables_checked")
    if rebuilt != base:
        ctx.violation("constructor-with-reported-format-renders-differently",
                      {"stage": kind, "fmt": reported, "table": base[:120], "rebuilt": rebuilt[:120]}, case)
    if after_setter != base:
        ctx.violation("setter-with-reported-format-changes-rendering",
                      {"stage": kind, "fmt": reported, "before": base[:120], "after": after_setter[:120]}, case)


def grown_table_case(ctx, rng):
    """a table with record limits over a list of the caller that is still short when the table is printed first (nothing
    is hidden) and has grown when it is printed again (some records are hidden now): the format reported after that
    print carries the limits. Fixed column widths: what the first print found out about widths plays no role"""
    ctx.evaluated()
    n0 = rng.randint(0, 3)
    n1 = n0 + rng.randint(3, 8)
    limits = rng.choice([(1, 1), (2, 0), (0, 2), (1, 2)])
    recs_all = [(k, "b%d" % k, rng.choice([1, 2, 30]), "d%d" % k) for k in range(n1)]
    recs = recs_all[:n0]
    fmt = rng.choice(["a:4,b:4", "b:5,st/val:3,a:2", "a:3"]) + ";%d:%d" % limits
    case = {"grown_table": True, "fmt": fmt, "before": n0, "after": n1}
    try:
        # (the footer is given: the default one counts the records once, when the table is made)
        t = PPTable(recs, fields=T.FIELDS, fmt=fmt, fields_types=T.mk_field_types(), footer="end")
        T.render(t)
        recs.extend(recs_all[n0:])
        shown = T.render(t)
        reported = str(t.fmt)
        rebuilt = T.render(PPTable(list(recs), fields=T.FIELDS, fmt=reported, fields_types=T.mk_field_types(),
                                   footer="end"))
        t.fmt = reported
        again = T.render(t)
    except Exception as err:
        ctx.violation("table-operation-raises", {"stage": "grown table", "type": type(err).__name__,
                                                 "msg": str(err)[:200]}, case)
        return
    ctx.count("tables_printed_again_after_their_record_list_had_grown")
    if rebuilt != shown:
        ctx.violation("constructor-with-reported-format-renders-differently",
                      {"stage": "grown table", "fmt": reported, "table": shown[:300], "rebuilt": rebuilt[:300]}, case)
    elif again != shown:
        ctx.violation("setter-with-reported-format-changes-rendering",
                      {"stage": "grown table", "fmt": reported, "before": shown[:300], "after": again[:300]}, case)


def same_limits_again_case(ctx, rng):
    """a table whose limits hide nothing is printed; then a format with a break-by mark and the SAME limits typed again
    is set (the break lines push the table over the limits): the format reported before the next print carries them"""
    ctx.evaluated()
    n = rng.randint(3, 5)
    limits = (rng.randint(2, 3), rng.randint(1, 2))
    if n > sum(limits) + 1:
        n = sum(limits) + 1
    recs = [(k, "b%d" % (k % 3), 1, "d") for k in range(n)]
    lim = ";%d:%d" % limits
    case = {"same_limits_again": True, "limits": list(limits), "records": n}
    try:
        t = PPTable(recs, fields=T.FIELDS, fmt="a:3,b:3" + lim, fields_types=T.mk_field_types(), footer="end")
        T.render(t)
        t.fmt = "a:3,b!:3" + lim
        reported = str(t.fmt)
        shown = T.render(t)
        rebuilt = T.render(PPTable(recs, fields=T.FIELDS, fmt=reported, fields_types=T.mk_field_types(), footer="end"))
    except Exception as err:
        ctx.violation("table-operation-raises", {"stage": "same limits again", "type": type(err).__name__,
                                                 "msg": str(err)[:200]}, case)
        return
    ctx.count("tables_given_the_same_limits_again_with_a_break_by_mark")
    if rebuilt != shown:
        ctx.violation("constructor-with-reported-format-renders-differently",
                      {"stage": "same limits again", "when": "before-print", "fmt": reported, "table": shown[:300],
                       "rebuilt": rebuilt[:300]}, case)


def removed_through_fmt_case(ctx, rng):
    """a printed table with record limits and a break-by column loses that column - through the table or through the
    format object it hands out: other records are visible now, the widths are made anew, and the reported format
    gives the same table"""
    ctx.evaluated()
    n = rng.randint(4, 7)
    recs = [(k, "b%d" % (k % 2), 1, "d" * (1 + (k * 3) % 7)) for k in range(n)]
    limits = rng.choice([(1, 1), (2, 1), (1, 2)])
    fmt = rng.choice(["b!,d", "b!,a,d", "d,b!"]) + ";%d:%d" % limits
    via_fmt = rng.random() < 0.6
    case = {"removed_through_fmt": True, "fmt": fmt, "via_fmt": via_fmt}
    try:
        t = PPTable(recs, fields=T.FIELDS, fmt=fmt, fields_types=T.mk_field_types(), footer="end")
        T.render(t)
        if via_fmt:
            t.fmt.remove_columns(['b'])
        else:
            t.remove_columns(['b'])
        reported = str(t.fmt)
        shown = T.render(t)
        rebuilt = T.render(PPTable(recs, fields=T.FIELDS, fmt=str(t.fmt), fields_types=T.mk_field_types(), footer="end"))
        before_print = T.render(PPTable(recs, fields=T.FIELDS, fmt=reported, fields_types=T.mk_field_types(), footer="end"))
    except Exception as err:
        ctx.violation("table-operation-raises", {"stage": "columns-removed", "type": type(err).__name__,
                                                 "msg": str(err)[:200]}, case)
        return
    ctx.count("break_by_columns_removed_from_printed_tables_with_limits")
    if rebuilt != shown or before_print != shown:
        ctx.violation("constructor-with-reported-format-renders-differently",
                      {"stage": "columns-removed", "when": "after-print" if before_print == shown else "before-print",
                       "fmt": reported, "table": shown[:300], "rebuilt": (rebuilt if rebuilt != shown else before_print)[:300]}, case)


def run_shard(ctx):
    for i in range(ctx.cases):
        if i % 5 == 3:
            removed_through_fmt_case(ctx, ctx.rng(i, "removed"))
        if i % 5 == 0:
            same_limits_again_case(ctx, ctx.rng(i, "same-limits"))
        if i % 5 == 1:
            grown_table_case(ctx, ctx.rng(i, "grown"))
        if i % 5 == 2:
            corner_tables_case(ctx, ctx.rng(i, "corner"))
        if i % 5 == 4:
            for k in range(4):
                odd_names_case(ctx, ctx.rng(i, "odd%d" % k))
            unknown_structure_case(ctx, ctx.rng(i, "nostruct"))
        c = gen_case(ctx.rng(i))
        judge(ctx, c, c)
        if i < 2:
            ctx.sample({"fmt": c['fmt'], "limits_arg": c['lim_arg'], "new_fmt": c['fmt2'], "remove": c['remove'],
                        "records": c['recs'][:3]})


def replay(ctx, case):
    if case.get("removed_through_fmt"):
        import random
        for k in range(200):
            removed_through_fmt_case(ctx, random.Random(k))
        return
    if case.get("same_limits_again"):
        import random
        for k in range(200):
            same_limits_again_case(ctx, random.Random(k))
        return
    if case.get("grown_table"):
        import random
        for k in range(200):
            grown_table_case(ctx, random.Random(k))
        return
    if case.get("corner_table"):
        import random
        for k in range(100):
            corner_tables_case(ctx, random.Random(k))
        return
    if case.get("unknown_structure"):
        import random
        for k in range(100):
            unknown_structure_case(ctx, random.Random(k))
        return
    if "odd_names" in case:
        import random
        for k in range(200):
            odd_names_case(ctx, random.Random(k))
        return
    case = dict(case)
    case['recs'] = [tuple(r) for r in case['recs']]
    if case.get('sibling'):
        case['sibling'] = [tuple(r) for r in case['sibling']]
    judge(ctx, case, case)
