"""C18 Objects read from a sheet match their source cells."""
import random
import re

import vf
vf.use_repo()
from ak import xlsread as X  # noqa: E402
from vf.core import sig_of  # noqa: E402

ID = "C18"
LEVEL = "exploration"
RULE = ('[later additions: a title repeated inside the column group; two attributes read from one column; a family of all-text tables (glossaries) whose rows may read like the title row, with a marker object and a callable as defaults of missing optional columns] '
        "grids with 0-2 leading blank rows, optional blank first column, known columns in random order (titles sometimes padded with blanks, ranged titles sometimes numbers), a contiguous "
        "group of 1-3 ranged columns, unknown extra columns behind a known one, blank cells anywhere, 0-8 data rows, "
        "rows with blank key, trailing content after a blank row / a row with blank first cell; rule sets: logical id of 0, 1 or 2 attributes, str / int / "
        "bool / list / set readers, ranged set or ranged dict or no ranged attribute, optional column present or "
        "missing, external attribute, both stop_on rules, plain or ladder reading (ladder grids have blank leading "
        "runs anywhere). Oracle: (1) every attribute equals the harness' conversion of the cell(s) at the "
        "coordinate get_attr_origin reports (also per range key); (2) that coordinate is the cell the harness' "
        "reference binding selects (title column x data row, for ladder the nearest filled cell above within the "
        "leading run); object count and order follow the end-of-table rule; missing optional -> default and "
        "'<skipped column>'; (3) ladder reading equals plain reading of the filled-in grid attribute by attribute. "
        "Non-trivial = ladder sheet in which at least one cell was taken from a row above, or plain sheet with a "
        "ranged group, an unknown column and trailing content; distinct by (grid, rules).")
ASSUMPTIONS = ["a cell is blank when its value is None or blank after str().strip() (the reader's own notion)",
               "'blank first' looks at the first cell of the sheet row (column A): not combined with a blank first column"]
TIERS = {
    "quick": {"shards": 4, "cases": 4000, "timeout": 300},
    "thorough": {"shards": 16, "cases": 20000, "timeout": 3000},
}
FLOORS = {"quick": {"objects_of_a_class_with_slots": 1300, "rows_of_another_sheet_read_in_between_with_the_same_rules_object": 900,
                    "distinct_nontrivial": 1000, "objects_checked": 10000, "attribute_checks": 80000,
                    "ladder_cells_taken_from_above": 2000, "range_key_origins_checked": 8000,
                    "optional_column_missing": 1000, "sheets_with_trailing_content": 1000,
                    "objects_with_two_attributes_read_from_one_column": 1500,
                    "origins_of_a_repeated_group_title_traced": 600, "rows_that_read_like_the_title_row": 300,
                    "marker_defaults_checked": 2000},
          "thorough": {"objects_of_a_class_with_slots": 5300, "rows_of_another_sheet_read_in_between_with_the_same_rules_object": 3500,
                       "distinct_nontrivial": 50000, "objects_checked": 500000, "attribute_checks": 4000000,
                       "ladder_cells_taken_from_above": 100000, "range_key_origins_checked": 400000,
                       "optional_column_missing": 50000, "sheets_with_trailing_content": 50000,
                       "objects_with_two_attributes_read_from_one_column": 30000,
                       "origins_of_a_repeated_group_title_traced": 12000, "rows_that_read_like_the_title_row": 6000,
                       "marker_defaults_checked": 40000}}
LEVEL_TEXT = ("Runtime exploration with a reference binding: the real reader runs over generated worksheets (own "
              "worksheet/cell mock) and every attribute of every object is traced back through the reported origin to "
              "the grid, and the origin itself is compared with the cell the harness' own binding selects.")
LEVEL_NOTE = "one object class per row; sheets <= 12 columns x 14 rows; converters re-implemented in the harness (15 lines)"
TECHNIQUE = "runtime monitoring: origin-tracing oracle + reference binding over generated worksheets"


class Cell:
    __slots__ = ('parent', 'coordinate', 'value')

    def __init__(self, ws, r, c, v):
        self.parent = ws
        self.coordinate = colname(c) + str(r + 1)
        self.value = v

    def __repr__(self):
        return f"<Cell {self.coordinate}={self.value!r}>"


def colname(i):
    n = ""
    i += 1
    while i:
        i, r = divmod(i - 1, 26)
        n = chr(65 + r) + n
    return n


def coord(s):
    m = re.fullmatch(r"([A-Z]+)(\d+)", s)
    if not m:
        return None
    c = 0
    for ch in m.group(1):
        c = c * 26 + ord(ch) - 64
    return int(m.group(2)) - 1, c - 1


class WS:
    def __init__(self, title, grid):
        self.title = title
        self.rows = [[Cell(self, r, c, v) for c, v in enumerate(row)] for r, row in enumerate(grid)]

    def iter_rows(self):
        # (the rows come as tuples, as openpyxl gives them, or as lists - by the name of the sheet)
        if self.title in ("sh 1", "glossary", "blank"):
            return iter([tuple(r) for r in self.rows])
        return iter(self.rows)


class Obj(X.XlsObject):
    _ATTRS = ['key', 'name', 'num', 'flag', 'tags', 'marks', 'ext', 'opt']
    _NUM_ID_ATTRS = 1


class Obj2(Obj):
    """the logical id consists of two attributes"""
    _NUM_ID_ATTRS = 2


class Obj0(Obj):
    """no logical id: every data row gives an object"""
    _NUM_ID_ATTRS = 0


def blank(v):
    return v is None or str(v).strip() == ""


def cell_means_yes(spec, v):
    """does the cell of a ranged set column mean 'yes'?"""
    if spec['range_kind'] == 'set_inv':
        return v in (None, '')
    return bool(conv('bool', v))


def conv(kind, v):
    if kind == 'dashstr':       # the converter subclass with its own none-values
        return None if v in (None, 'x', '') else str(v).strip()
    if kind == 'str':
        return None if v is None else str(v).strip()
    if kind == 'int':
        return None if v is None else v
    if kind == 'bool':
        return v in ('v', 1, '1', True, 'True')
    if kind in ('list', 'set'):
        if v is None:
            return None
        items = [x.strip() for x in v.replace('\n', ',').split(',') if x.strip()]
        return items if kind == 'list' else set(items)
    raise AssertionError(kind)


KNOWN = [('key', 'Key', 'str'), ('name', 'Name', 'str'), ('num', 'Num', 'int'), ('flag', 'Flag', 'bool'),
         ('tags', 'Tags', 'list')]


def gen_sheet(rng):
    spec = {}
    spec['tags_kind'] = rng.choice(['list', 'set'])
    spec['n_id'] = rng.choice([1, 1, 1, 2, 2, 0])
    # ('set_inv': the marks are inverted - a blank cell means yes, an 'x' means no; the reader of the cells is configured
    # accordingly)
    spec['range_kind'] = rng.choice(['set', 'set', 'dict', 'none', 'set_inv'])
    spec['have_opt'] = rng.random() < 0.5
    spec['rule_objects'] = rng.choice([None, None, None, 'some', 'all'])
    spec['own_converter'] = rng.random() < 0.25
    spec['ladder'] = rng.random() < 0.4
    spec['stop_on'] = rng.choice(["blank all", "blank all", "blank first"])
    # an untitled column left of the table (margin notes, line numbers); with the 'blank first' rule its cells
    # decide where the table ends although the column has no title
    lead = rng.randint(0, 1) if spec['stop_on'] == "blank all" else (1 if rng.random() < 0.3 else 0)
    rcols = ["m%d" % i for i in range(rng.randint(1, 3))] if spec['range_kind'] != 'none' else []
    if rcols and rng.random() < 0.15:
        rcols[rng.randrange(len(rcols))] = "*"      # (a column of the group is titled with an asterisk: 'all others')
    if len(rcols) >= 2 and "*" not in rcols and rng.random() < 0.12:
        # two columns of the group carry one and the same title (a sheet somebody pasted a column into)
        rcols[-1] = rcols[0]
    numeric_titles = rng.random() < 0.3 and "*" not in rcols
    if numeric_titles:
        # title cells hold numbers (per-year columns, or hours counted from 0)
        year0 = rng.choice([2020, 2020, 0])
        rcols = [str(year0 + i) for i in range(len(rcols))]
    spec['repeated_group_title'] = len(set(rcols)) < len(rcols)
    kn = [k[1] for k in KNOWN] + (['Opt'] if spec['have_opt'] else [])
    rng.shuffle(kn)
    if rng.random() < 0.5:
        # the key column first (typical for ladder tables)
        kn.remove('Key')
        kn.insert(0, 'Key')
    pos = rng.randint(0, len(kn))
    titles = kn[:pos] + rcols + kn[pos:]
    # unknown extra columns: only behind a known column that follows the ranged group
    extras = []
    if rng.random() < 0.5:
        first_known_after = pos + len(rcols)
        if first_known_after < len(titles) or not rcols:
            at = rng.randint(first_known_after + 1, len(titles)) if rcols else rng.randint(0, len(titles))
            if not rcols or at > first_known_after:
                extras = ["Extra%d" % i for i in range(rng.randint(1, 2))]
                if spec['range_kind'] == 'none' or at > first_known_after:
                    titles = titles[:at] + extras + titles[at:]
                else:
                    extras = []
    if spec['range_kind'] == 'none':
        pass
    titles = [None] * lead + titles
    if rng.random() < 0.2:
        titles = titles + [None]    # blank title at the end
    ncol = len(titles)
    nblank = rng.randint(0, 2)
    ndata = rng.randint(0, 8)

    def val_for(t, i):
        if t is None:
            return rng.choice([None, None, "junk"])
        if t == 'Key':
            # (a blank cell may hold blanks of any kind: a no-break space, the wide blank of a CJK keyboard)
            return rng.choice(["k%d" % i] * 6 + [None, " ", "\u2003"]) if not spec['ladder'] else rng.choice(
                ["k%d" % i, "k%d" % i, "k%d" % i, None, "", "\xa0", "\u3000 "])
        if t == 'Name':
            # (a text column also holds numbers and flags: 0 and False are values like 17)
            return rng.choice([None, " n%d " % i, "x", 17, "", 0, 0.0, False])
        if t == 'Num':
            return rng.choice([None, i, 0, -5])
        if t == 'Flag':
            return rng.choice([None, 'v', 1, '', 'True', False, '1', 'False'])
        if t == 'Tags':
            return rng.choice([None, "a, b\nc", "q", ",,", " x ,x", "R\x0bD, ops", "a\x0cb", "p\rq,r", "x\u2028y\nz",
                               "m\x1dn",
                               # (line ends of another machine inside a cell, tabs and other blanks next to the commas)
                               "red\r\ngreen", "a,\tb", "a ,\xa0b\u3000", "\u3000", "x,\x0c,y\t"])
        if t == 'Opt':
            return rng.choice([None, "o%d" % i])
        if t.startswith("Extra"):
            return rng.choice([None, "e", 3])
        if spec['range_kind'] == 'set_inv':
            return rng.choice([None, '', 'x', 'x'])
        return rng.choice([None, 'v', 1, '', 'False']) if spec['range_kind'] == 'set' else rng.choice(
            [None, "r%d" % i, " s "])

    data = [[val_for(t, i) for t in titles] for i in range(ndata)]
    if spec['ladder'] and lead and spec['stop_on'] == "blank all":
        for row in data[1:]:
            if rng.random() < 0.25:
                # only a margin note left of the table: the row means 'all the same as above'
                row[:] = ["note"] + [None] * (len(row) - 1)
    if spec['stop_on'] == "blank first":
        for row in data:
            if blank(row[0]) and rng.random() < 0.7:
                t0 = titles[0]
                row[0] = {'Key': "kf", 'Name': "x", 'Num': 1, 'Flag': 'v', 'Tags': "q", 'Opt': "o"}.get(
                    t0, 'v' if spec['range_kind'] == 'set' else 'x' if spec['range_kind'] == 'set_inv' else "r")
    if not spec['ladder'] and spec['n_id'] >= 1 and 'Key' in titles and 'Num' in titles:
        # rows without a key give no object - whatever stands in their other cells (a foot-note, a '-')
        for row in data:
            key_blank = row[titles.index('Key')] is None and (spec['n_id'] == 1 or row[titles.index('Name')] is None)
            if key_blank and rng.random() < 0.5:
                row[titles.index('Num')] = rng.choice(["n/a", "-", "see note 3"])
                if 'Flag' in titles and rng.random() < 0.5:
                    row[titles.index('Flag')] = "maybe"
    trailing = []
    r = rng.random()
    if r < 0.6 and spec['stop_on'] == "blank all":
        trailing = [[None] * ncol, ["zzz"] + [None] * (ncol - 1), ["k99"] * ncol]
        if rng.random() < 0.3:
            trailing[0] = [" "] + [None] * (ncol - 1)   # blank, but not None
    elif r < 0.6:
        trailing = [[None] + ["tail"] * (ncol - 1), ["k98"] * ncol]
    # titles wrapped inside the cell (Alt+Enter): the rules name the columns exactly as the cells do
    tmap = {}
    if rng.random() < 0.2:
        tmap = {t: t[:2] + "\n" + t[2:] for t in ('Num', 'Name', 'Flag')}
        if not numeric_titles:
            tmap.update({m: m[:1] + "\n" + m[1:] for m in rcols if len(m) > 1})
    spec['title_map'] = tmap
    title_cells = [int(t) if (numeric_titles and t in rcols) else
                   (" %s " % tmap.get(t, t) if t and rng.random() < 0.1 else tmap.get(t, t)) for t in titles]
    spec.update(titles=titles, nblank=nblank, trailing=bool(trailing), extras=extras, rcols=rcols,
                grid=[[None] * ncol for _ in range(nblank)] + [title_cells] + data + trailing)
    return spec


class DashStr(X.CellStr):
    """a converter configured the way the package configures CellBool: by its class-level set of none-values"""
    _NONE_VALUES = {None, 'x', ''}


def make_rules(spec):
    tm = spec.get('title_map') or {}
    rules = {
        'key': ('Key', X.cell_str),
        'name': (tm.get('Name', 'Name'), DashStr() if spec.get('own_converter') else X.cell_str),
        'num': (tm.get('Num', 'Num'), X.cell_int),
        'flag': (tm.get('Flag', 'Flag'), X.cell_bool),
        'tags': ('Tags', X.cell_list if spec['tags_kind'] == 'list' else X.cell_set),
        'ext': None, 'opt': ('Opt', X.cell_str, {'default_val': 'DFLT'}),
    }
    if spec['range_kind'] == 'set_inv':
        rules['marks'] = ('*', X.CellRangeSet(X.CellBool(true_values=[None, ''], false_values=['x'])))
    elif spec['range_kind'] == 'set':
        rules['marks'] = ('*', X.cell_range_set)
    elif spec['range_kind'] == 'dict':
        rules['marks'] = ('*', X.CellRangeDict(X.cell_str))
    else:
        rules['marks'] = None
    if spec.get('rule_objects'):
        # the same rules given as ready-made rule objects (also a callable default, an external attribute)
        as_obj = {}
        for attr, r in rules.items():
            if r is None:
                as_obj[attr] = X.XlsRecordAttrReadRules(attr, None, None, default_val=None)
            elif len(r) == 3:
                as_obj[attr] = X.XlsRecordAttrReadRules(attr, r[0], r[1], default_val=(lambda: 'DFLT'))
            elif spec['rule_objects'] == 'all' or attr in ('key', 'num'):
                as_obj[attr] = X.XlsRecordAttrReadRules(attr, r[0], r[1])
            else:
                as_obj[attr] = r
        rules = as_obj
    return rules


def reference_rows(spec):
    """harness model of the row iteration: list of effective rows; an effective row is a list of
    (value, (r, c)) pairs telling which cell of the grid supplies each column"""
    grid = spec['grid']
    title_row = spec['nblank']
    titles = spec['titles']
    first_col = next((i for i, t in enumerate(titles) if t), None)
    eff_rows = []
    prev = None
    taken_from_above = 0
    for r in range(title_row + 1, len(grid)):
        row = grid[r]
        if spec['stop_on'] == "blank first":
            if blank(row[0]):
                break
        elif all(blank(v) for v in row):
            break
        eff = [(v, (r, c)) for c, v in enumerate(row)]
        if spec['ladder'] and first_col is not None and prev is not None:
            for c in range(first_col, len(row)):
                if blank(eff[c][0]):
                    eff[c] = prev[c]
                    if not blank(prev[c][0]) or prev[c][1][0] != r:
                        taken_from_above += 1
                else:
                    break
        prev = eff
        eff_rows.append(eff)
    return eff_rows, taken_from_above


def expected_objects(spec):
    titles = spec['titles']
    tcol = {t: i for i, t in enumerate(titles) if t}
    eff_rows, taken = reference_rows(spec)
    out = []
    for eff in eff_rows:
        kv, _ = eff[tcol['Key']]
        nv, _ = eff[tcol['Name']]
        n_id = spec.get('n_id', 1)
        # no object when all the cells of the logical id are empty
        name_kind = 'dashstr' if spec.get('own_converter') else 'str'
        # (... or convert to nothing)
        if (n_id == 1 and kv is None) or (n_id == 2 and kv is None and conv(name_kind, nv) is None):
            out.append(None)
            continue
        o = {}
        for attr, title, kind in KNOWN:
            if attr == 'tags':
                kind = spec['tags_kind']
            if attr == 'name':
                kind = name_kind
            v, rc = eff[tcol[title]]
            o[attr] = (conv(kind, v), rc)
        if spec['range_kind'] == 'none':
            o['marks'] = (None, "<n/a>")
        else:
            tm = spec.get('title_map') or {}
            per_key = {tm.get(m, m): eff[tcol[m]] for m in spec['rcols']}
            if spec['range_kind'] in ('set', 'set_inv'):
                val = {m for m, (v, _) in per_key.items() if cell_means_yes(spec, v)}
            else:
                val = {m: conv('str', v) for m, (v, _) in per_key.items()}
            o['marks'] = (val, {m: rc for m, (_, rc) in per_key.items()})
            if spec.get('repeated_group_title'):
                o['marks_candidates'] = {tm.get(m, m): [eff[c][1] for c, t in enumerate(titles) if t == m]
                                         for m in spec['rcols'] if spec['rcols'].count(m) > 1}
        o['ext'] = (None, "<n/a>")
        if spec['have_opt']:
            v, rc = eff[tcol['Opt']]
            o['opt'] = (conv('str', v), rc)
        else:
            o['opt'] = ('DFLT', "<skipped column>")
        out.append(o)
    return out, taken


def name_of(rc):
    return colname(rc[1]) + str(rc[0] + 1)


def judge(ctx, spec, case):
    ctx.evaluated()
    grid = spec['grid']
    ws = WS("sh 1", grid)
    if spec.get('repeated_group_title'):
        ctx.count("sheets_with_a_title_repeated_inside_the_column_group")
    rules = make_rules(spec)
    obj_cls = {0: Obj0, 1: Obj, 2: Obj2}[spec.get('n_id', 1)]
    try:
        objs = X.read_table(ws, obj_cls, rules, stop_on=spec['stop_on'], ladder_format=spec['ladder'])
    except Exception as err:
        ctx.violation("reading-raises", {"type": type(err).__name__, "msg": str(err)[:200]}, case)
        return
    exp, taken = expected_objects(spec)
    if len(objs) != len(exp) or any((o is None) != (e is None) for o, e in zip(objs, exp)):
        ctx.violation("object-count-or-order-differs-from-end-of-table-rule",
                      {"got": [None if o is None else o.key for o in objs],
                       "expected": [None if e is None else e['key'][0] for e in exp]}, case)
        return
    problems = []
    for idx, (o, e) in enumerate(zip(objs, exp)):
        if o is None:
            continue
        ctx.count("objects_checked")
        for attr in Obj._ATTRS:
            want_val, want_org = e[attr]
            got_val = getattr(o, attr)
            try:
                org = o.get_attr_origin(attr)
            except Exception as err:
                problems.append(("origin-lookup-raises", {"attr": attr, "msg": str(err)[:100]}))
                continue
            ctx.count("attribute_checks")
            if isinstance(want_org, dict):
                # ranged attribute: per key origins + summary
                for m, rc in want_org.items():
                    ctx.count("range_key_origins_checked")
                    try:
                        korg = o.get_attr_origin(attr, m)
                    except Exception as err:
                        problems.append(("origin-lookup-raises", {"attr": attr, "key": m, "msg": str(err)[:100]}))
                        continue
                    if spec.get('repeated_group_title') and m in e.get('marks_candidates', {}):
                        # two columns of the group carry this title: whichever of them the reader takes, the value
                        # has to come from the cell it reports
                        if coord(korg) not in e['marks_candidates'][m]:
                            problems.append(("range-key-origin-differs-from-reference-binding",
                                             {"object": idx, "attr": attr, "key": m, "origin": korg,
                                              "expected_one_of": [name_of(x) for x in e['marks_candidates'][m]]}))
                            continue
                        rc = coord(korg)
                        ctx.count("origins_of_a_repeated_group_title_traced")
                    if coord(korg) != rc:
                        problems.append(("range-key-origin-differs-from-reference-binding",
                                         {"object": idx, "attr": attr, "key": m, "origin": korg,
                                          "expected": name_of(rc)}))
                        continue
                    cell_v = grid[rc[0]][rc[1]]
                    if spec['range_kind'] in ('set', 'set_inv'):
                        if (m in got_val) != cell_means_yes(spec, cell_v):
                            problems.append(("range-value-differs-from-cell-at-origin",
                                             {"object": idx, "key": m, "origin": korg, "cell": repr(cell_v)}))
                    elif got_val.get(m) != conv('str', cell_v):
                        problems.append(("range-value-differs-from-cell-at-origin",
                                         {"object": idx, "key": m, "origin": korg, "cell": repr(cell_v),
                                          "value": repr(got_val.get(m))}))
                if spec.get('repeated_group_title'):
                    continue        # (no summary, no reference value: they depend on which of the two columns is taken)
                names = sorted(name_of(rc) for rc in want_org.values())
                summary = names[0] if len(names) == 1 else f"{names[0]}:{names[-1]}"
                if org != summary:
                    problems.append(("range-origin-summary-wrong", {"object": idx, "got": org, "expected": summary}))
                if got_val != want_val:
                    problems.append(("attribute-differs-from-reference", {"object": idx, "attr": attr,
                                                                          "got": repr(got_val), "expected": repr(want_val)}))
                continue
            if isinstance(want_org, str):
                if org != want_org or got_val != want_val:
                    mech = "missing-optional-or-external-attribute-wrong"
                    problems.append((mech, {"object": idx, "attr": attr, "origin": org, "value": repr(got_val),
                                            "expected": [want_org, repr(want_val)]}))
                elif want_org == "<skipped column>":
                    ctx.count("optional_column_missing")
                continue
            # plain attribute: (1) value == conversion of the cell at the reported origin
            rc = coord(org)
            if rc is None or not (0 <= rc[0] < len(grid) and 0 <= rc[1] < len(grid[0])):
                problems.append(("origin-is-not-a-cell-of-the-sheet", {"object": idx, "attr": attr, "origin": org}))
                continue
            kind = spec['tags_kind'] if attr == 'tags' else next(k for a, _, k in KNOWN + [('opt', 'Opt', 'str')]
                                                                if a == attr)
            if attr == 'name' and spec.get('own_converter'):
                kind = 'dashstr'
            at_origin = conv(kind, grid[rc[0]][rc[1]])
            if got_val != at_origin or type(got_val) is not type(at_origin):
                problems.append(("attribute-differs-from-cell-at-reported-origin",
                                 {"object": idx, "attr": attr, "origin": org, "value": repr(got_val),
                                  "cell": repr(grid[rc[0]][rc[1]])}))
            # (2) reference binding
            if rc != want_org:
                problems.append(("origin-differs-from-reference-binding",
                                 {"object": idx, "attr": attr, "origin": org, "expected": name_of(want_org)}))
        # incl_ws variant
        try:
            if o.get_attr_origin('key', incl_ws=True) != "'sh 1' " + o.get_attr_origin('key'):
                problems.append(("origin-with-sheet-name-wrong", {"got": o.get_attr_origin('key', incl_ws=True)}))
        except Exception as err:
            problems.append(("origin-lookup-raises", {"attr": "key", "msg": str(err)[:100]}))
    # (3) ladder == plain reading of the filled-in grid
    if spec['ladder'] and not problems:
        eff_rows, _ = reference_rows(spec)
        filled = [list(r) for r in grid[:spec['nblank'] + 1]] + [[v for v, _ in eff] for eff in eff_rows]
        try:
            plain = X.read_table(WS("sh 1", filled), obj_cls, rules, stop_on=spec['stop_on'], ladder_format=False)
        except Exception as err:
            plain = None
            if not any(all(blank(v) for v in row) for row in filled[spec['nblank'] + 1:]):
                problems.append(("reading-filled-in-grid-raises", {"type": type(err).__name__, "msg": str(err)[:150]}))
        if plain is not None and not any(
                (all(blank(v) for v in row) if spec['stop_on'] == "blank all" else blank(row[0]))
                for row in filled[spec['nblank'] + 1:]):
            if len(plain) != len(objs):
                problems.append(("ladder-reading-differs-from-filled-in-table", {"ladder": len(objs), "plain": len(plain)}))
            else:
                for idx, (a, b) in enumerate(zip(objs, plain)):
                    if (a is None) != (b is None):
                        problems.append(("ladder-reading-differs-from-filled-in-table", {"object": idx}))
                    elif a is not None:
                        for attr in Obj._ATTRS:
                            if getattr(a, attr) != getattr(b, attr):
                                problems.append(("ladder-reading-differs-from-filled-in-table",
                                                 {"object": idx, "attr": attr, "ladder": repr(getattr(a, attr)),
                                                  "filled": repr(getattr(b, attr))}))
    if not problems and spec['tags_kind'] == 'list':
        # the caller edits the lists it was given in place; a later reading of the sheet (and the other objects
        # of this reading) must not see that
        touched = 0
        for o in objs:
            if o is not None and isinstance(o.tags, list):
                o.tags.append("<edited by the caller>")
                touched += 1
                break
        if touched:
            ctx.count("sheets_read_again_after_the_caller_edited_a_list")
            try:
                again = X.read_table(ws, obj_cls, rules, stop_on=spec['stop_on'], ladder_format=spec['ladder'])
            except Exception as err:
                again = None
                problems.append(("reading-raises", {"type": type(err).__name__, "msg": str(err)[:200], "second": True}))
            marked = 0
            for o, o2, e in zip(objs, again or [], exp):
                if o is None:
                    continue
                for obj in (o, o2):
                    if obj is None:
                        continue
                    v = list(obj.tags) if isinstance(obj.tags, list) else obj.tags
                    if isinstance(v, list) and "<edited by the caller>" in v:
                        marked += 1
                if o2 is not None and o2.tags != e['tags'][0]:
                    problems.append(("attribute-differs-from-reference", {"attr": "tags", "got": repr(o2.tags)[:80],
                                                                          "expected": repr(e['tags'][0])[:80],
                                                                          "after": "the caller edited a list"}))
                    break
            if marked > 1 and not problems:
                problems.append(("objects-share-a-list-value", {"objects_showing_the_edit": marked}))
            for o in objs:
                if o is not None and isinstance(o.tags, list) and "<edited by the caller>" in o.tags:
                    o.tags.remove("<edited by the caller>")
    if not problems:
        other_routes(ctx, spec, ws, obj_cls, rules, objs, problems)
    for mech, detail in problems[:5]:
        ctx.violation(mech, detail, case)
    if problems:
        return
    if spec['ladder']:
        ctx.count("ladder_cells_taken_from_above", taken)
    if spec['trailing']:
        ctx.count("sheets_with_trailing_content")
    if (spec['ladder'] and taken) or (not spec['ladder'] and spec['rcols'] and spec['extras'] and spec['trailing']):
        ctx.nontrivial(sig_of([spec['grid'], spec['range_kind'], spec['stop_on'], spec['ladder']]))


def same_objects(a, b):
    if (a is None) != (b is None):
        return False
    if a is None:
        return True
    for attr in Obj._ATTRS:
        if getattr(a, attr) != getattr(b, attr) or a.get_attr_origin(attr) != b.get_attr_origin(attr):
            return False
    return a.logic_id == b.logic_id


def other_routes(ctx, spec, ws, obj_cls, rules, objs, problems):
    """the other public ways to read the same sheet must give the objects read_table gave (those were
    just compared with the reference binding)"""
    route = ("iter_table", "reader", "mixin", "map", "mixin_map", "multi", "mixin_child", "multi", "none",
             "shared_rules", "slots", "two_views")[ctx.counters.get("objects_checked", 0) % 12]
    kw = dict(stop_on=spec['stop_on'], ladder_format=spec['ladder'])
    defaults = spec['stop_on'] == "blank all" and not spec['ladder']
    try:
        if route == "iter_table":
            got = list(X.iter_table(ws, obj_cls, rules, **kw))
        elif route == "reader":
            reader = X.XlsTableReader(X.XlsObjReadRules(obj_cls, rules))
            got = [x for (x,) in reader.iter_table(ws, **kw)]
        elif route == "shared_rules":
            # ONE rules object serves two readers; the other reader reads a sheet with the same columns in the
            # opposite order, and the two sheets are read in turns (zip over the two generators)
            rr = X.XlsObjReadRules(obj_cls, rules)
            it1 = X.XlsTableReader(rr).iter_table(ws, **kw)
            it2 = X.XlsTableReader(rr).iter_table(WS("other", [row[::-1] for row in spec['grid']]), **kw)
            got, other_alive = [], True
            while True:
                try:
                    got.append(next(it1)[0])
                except StopIteration:
                    break
                if other_alive:
                    try:
                        next(it2)
                        ctx.count("rows_of_another_sheet_read_in_between_with_the_same_rules_object")
                    except Exception:     # (StopIteration too: the mirrored sheet may be shorter or unreadable)
                        other_alive = False
        elif route == "two_views":
            # two attributes of one object are read from one and the same column (the text as it stands and the
            # list made of it; the optional column twice): each is the conversion of that one cell
            wide = type("TwoViews", (obj_cls,), {"_ATTRS": Obj._ATTRS + ['tags_text', 'opt_text']})
            dflt = ({'default_val': 'D2'},)
            rr = {'tags_text': ('Tags', X.cell_str), 'opt_text': ('Opt', X.cell_str) + dflt}
            wide_rules = dict(list(rr.items()) + list(rules.items())) if len(objs) % 2 else dict(rules, **rr)
            got = X.read_table(ws, wide, wide_rules, **kw)
            for g in got:
                if g is None:
                    continue
                ctx.count("objects_with_two_attributes_read_from_one_column")
                for attr, twin, dv in (('tags_text', 'tags', None), ('opt_text', 'opt', 'D2')):
                    org, org_twin = g.get_attr_origin(attr), g.get_attr_origin(twin)
                    if org != org_twin:
                        problems.append(("attributes-of-one-column-report-different-origins",
                                         {"attr": attr, "origin": org, "other": twin, "other_origin": org_twin}))
                        return
                    rc = coord(org)
                    want = dv if rc is None else conv('str', spec['grid'][rc[0]][rc[1]])
                    if getattr(g, attr) != want:
                        problems.append(("attribute-differs-from-cell-at-reported-origin",
                                         {"attr": attr, "origin": org, "value": repr(getattr(g, attr))[:80],
                                          "expected": repr(want)[:80]}))
                        return
        elif route == "slots":
            # the application's class keeps its attributes in slots
            slotted = type("SlotObj", (obj_cls,), {"__slots__": tuple(Obj._ATTRS)})
            got = X.read_table(ws, slotted, rules, **kw)
            ctx.count("objects_of_a_class_with_slots", len(got))
        elif route == "multi":
            # several objects per row: one reads the ranged attribute, the other the remaining columns; together
            # they know the same columns as the single object, so they must read the same values from the same cells
            r_a = dict(rules, num=None, flag=None, tags=None, opt=None)
            r_b = dict(rules, marks=None)
            pair = [X.XlsObjReadRules(obj_cls, r_a), X.XlsObjReadRules(obj_cls, r_b)]
            swap = len(objs) % 2 == 1
            reader = X.XlsTableReader(*(pair[::-1] if swap else pair))
            rows = [(t[::-1] if swap else t) for t in reader.iter_table(ws, **kw)]
            ctx.count("rows_read_as_two_objects", len(rows))
            if len(rows) != len(objs):
                problems.append(("entry-points-disagree", {"route": route, "got": len(rows), "read_table": len(objs)}))
                return
            for (a, b), o in zip(rows, objs):
                if (a is None) != (o is None) or (b is None) != (o is None):
                    problems.append(("entry-points-disagree", {"route": route, "object_missing": True}))
                    return
                if o is None:
                    continue
                for part, attrs in ((a, ('key', 'name', 'marks')), (b, ('key', 'name', 'num', 'flag', 'tags', 'opt'))):
                    for attr in attrs:
                        if getattr(part, attr) != getattr(o, attr) or \
                                part.get_attr_origin(attr) != o.get_attr_origin(attr):
                            problems.append(("objects-sharing-a-row-read-other-cells",
                                             {"attr": attr, "value": repr(getattr(part, attr))[:80],
                                              "origin": part.get_attr_origin(attr),
                                              "single_object": [repr(getattr(o, attr))[:80], o.get_attr_origin(attr)]}))
                            return
            return
        elif route == "mixin_child" and defaults:
            # a reader class derived from another reader class that was used before and binds 'name' differently
            parent = type("ParentT", (X.TableReader, obj_cls), {"ATTR_RULES": dict(rules, name=('Key', X.cell_str))})
            try:
                parent.read_list(ws)
            except Exception:
                pass
            child = type("ChildT", (parent,), {"ATTR_RULES": rules})
            got = child.read_list(ws)
        elif route == "mixin" and defaults:
            cls = type("ObjT", (X.TableReader, obj_cls), {"ATTR_RULES": rules})
            got = cls.read_list(ws) if len(objs) % 2 else list(cls.iter_xls(ws))
        elif route in ("map", "mixin_map") and spec.get('n_id', 1) and (route == "map" or defaults):
            want = {}
            clash = False
            for o in objs:
                if o is None:
                    continue
                if o.logic_id in want and any(getattr(o, a) != getattr(want[o.logic_id], a) for a in Obj._ATTRS):
                    clash = True
                    break
                want[o.logic_id] = o
            try:
                if route == "map":
                    # (every other time the objects are of a class whose truth value is False - "has no members")
                    used = obj_cls if len(objs) % 2 else type("QuietObj", (obj_cls,), {"__bool__": lambda self: False,
                                                                                       "__len__": lambda self: 0})
                    got_map = X.read_table_make_map(ws, used, rules, **kw)
                else:
                    cls = type("ObjT", (X.TableReader, obj_cls), {"ATTR_RULES": rules})
                    got_map = cls.read_map(ws)
                    if got_map and not clash:
                        # the caller takes entries out of "its" map and asks for the map of the sheet once more: the
                        # whole sheet again
                        first_map = dict(got_map)
                        got_map.pop(next(iter(got_map)))
                        got_map = cls.read_map(ws)
                        ctx.count("maps_read_again_after_the_caller_emptied_the_first_one")
                        if list(got_map) != list(first_map):
                            problems.append(("map-of-objects-differs-from-list",
                                             {"route": route, "got": repr(list(got_map))[:200],
                                              "expected": repr(list(first_map))[:200], "second_reading": True}))
                            return
            except ValueError:
                if not clash:
                    problems.append(("map-of-objects-raises-without-conflicting-rows", {"route": route}))
                ctx.count("maps_of_objects_checked")
                return
            ctx.count("maps_of_objects_checked")
            if clash:
                problems.append(("conflicting-rows-with-one-id-accepted", {"route": route}))
            elif list(got_map) != list(want) or not all(same_objects(got_map[k], want[k]) for k in want):
                problems.append(("map-of-objects-differs-from-list", {"route": route, "got": repr(list(got_map))[:200],
                                                                      "expected": repr(list(want))[:200]}))
            return
        else:
            return
    except Exception as err:
        problems.append(("reading-raises", {"route": route, "type": type(err).__name__, "msg": str(err)[:200]}))
        return
    ctx.count("other_entry_points_compared")
    if len(got) != len(objs) or not all(same_objects(a, b) for a, b in zip(got, objs)):
        problems.append(("entry-points-disagree", {"route": route, "got": len(got), "read_table": len(objs)}))


def blank_sheet_case(ctx, rng):
    """a worksheet without a single row, or with blank rows only: there is no table in it - and no object"""
    ctx.evaluated()
    width = rng.randint(1, 4)
    grid = [[rng.choice([None, None, "", " ", "\xa0", "\u3000"]) if rng.random() < 0.5 else None for _ in range(width)]
            for _ in range(rng.choice([0, 0, 1, 3]))]
    rules = make_rules({'range_kind': 'none', 'tags_kind': 'list'})
    case = {"blank_sheet": grid}
    kw = dict(stop_on=rng.choice(["blank all", "blank first"]), ladder_format=rng.random() < 0.5)
    for route in ("read_table", "iter_table", "map"):
        try:
            ws = WS("blank" if len(grid) % 2 else "other blank", grid)
            got = (X.read_table(ws, Obj, rules, **kw) if route == "read_table" else
                   list(X.iter_table(ws, Obj, rules, **kw)) if route == "iter_table" else
                   X.read_table_make_map(ws, Obj, rules, **kw))
        except Exception as err:
            ctx.violation("reading-raises", {"route": route, "type": type(err).__name__, "msg": str(err)[:200]}, case)
            return
        ctx.count("blank_sheets_read")
        if len(got) != 0:
            ctx.violation("object-count-or-order-differs-from-end-of-table-rule", {"got": len(got), "expected": 0}, case)
            return


class TupleOfWords(X.CellList):
    """a converter of the application: the words of the cell as a tuple"""

    def _make_value(self, cell):
        return tuple(super()._make_value(cell))


class Term(X.XlsObject):
    _ATTRS = ['word', 'meaning', 'kind', 'extra', 'note']
    _NUM_ID_ATTRS = 1


NOT_SET = object()      # (a marker of the application: equal to nothing but itself)
GLOSSARY_WORDS = ["table", "Tisch", "noun", "word", "meaning", "kind", "Art", "verb", " word ", "Word", "x"]


def glossary_case(ctx, rng):
    """a table of texts only (a glossary): any word may stand in any cell - also the words the columns are titled
    with, also all of them in one row. Every row up to the first blank one gives an object. Two optional columns are
    missing: one has a marker object as its default, one a callable"""
    ctx.evaluated()
    titles = ["word", "meaning", "kind"]
    rng.shuffle(titles)
    lead = rng.randint(0, 1)
    trail = rng.randint(0, 1)
    n = rng.randint(0, 7)
    rows = []
    for k in range(n):
        if rng.random() < 0.25:
            row = list(titles)              # the row reads like the title row
            if rng.random() < 0.3:
                row = [" %s " % t for t in row]
        else:
            row = [rng.choice(GLOSSARY_WORDS) for _ in titles]
        rows.append([None] * lead + row + [rng.choice([None, "x"])] * trail)
    width = lead + 3 + trail
    tuple_key = rng.random() < 0.3
    if tuple_key:
        # the key of the entries is a tuple of words (a converter of the application: the list converter's value as a
        # tuple); a cell that holds only separators gives the empty tuple - a key like any other
        rows = [[(rng.choice([" , ", "a, b", "table", ",", "x,y"]) if c == lead + titles.index("word") and rng.random() < 0.5
                  else v) for c, v in enumerate(row)] for row in rows]
        ctx.count("glossaries_whose_key_is_a_tuple_of_words")
    grid = [[None] * width] * rng.randint(0, 1) + [[None] * lead + titles + [None] * trail] + rows + \
        [[None] * width, ["after"] * width]
    rules = {'word': ('word', TupleOfWords() if tuple_key else X.cell_str), 'meaning': ('meaning', X.cell_str),
             'kind': ('kind', X.cell_str),
             'extra': ('extra', X.cell_str, {'default_val': NOT_SET}),
             'note': ('note', X.cell_str, {'default_val': (lambda: "made")})}
    if n % 2:
        rules['extra'] = X.XlsRecordAttrReadRules('extra', 'extra', X.cell_str, default_val=NOT_SET)
    case = {"glossary": grid}
    try:
        objs = X.read_table(WS("glossary", grid), Term, rules)
    except Exception as err:
        ctx.violation("reading-raises", {"type": type(err).__name__, "msg": str(err)[:200]}, case)
        return
    ctx.count("glossary_sheets_read")
    if len(objs) != n or any(o is None for o in objs):
        ctx.violation("object-count-or-order-differs-from-end-of-table-rule",
                      {"got": [None if o is None else o.word for o in objs], "expected_rows": n}, case)
        return
    t0 = len(grid) - 2 - n
    for k, (o, row) in enumerate(zip(objs, rows)):
        if row[lead:lead + 3] == titles or [str(v).strip() for v in row[lead:lead + 3]] == titles:
            ctx.count("rows_that_read_like_the_title_row")
        for c, t in enumerate(titles):
            want = row[lead + c].strip()
            if tuple_key and t == "word":
                want = tuple(conv('list', row[lead + c]))
            if getattr(o, t) != want or coord(o.get_attr_origin(t)) != (t0 + k, lead + c):
                ctx.violation("attribute-differs-from-cell-at-reported-origin",
                              {"object": k, "attr": t, "value": repr(getattr(o, t)), "origin": o.get_attr_origin(t),
                               "cell": repr(row[lead + c]), "expected_origin": name_of((t0 + k, lead + c))}, case)
                return
        ctx.count("marker_defaults_checked")
        if not (o.extra == NOT_SET) or o.note != "made":
            ctx.violation("missing-optional-or-external-attribute-wrong",
                          {"object": k, "attr": "extra" if o.note == "made" else "note", "value": repr(o.extra)[:60],
                           "expected": "the declared default (a marker object of the application)"}, case)
            return


def switched_off_values_case(ctx, rng):
    """a yes/no converter whose caller says which values mean yes and which mean no - one of the two lists given as
    EMPTY ('there is no such value'): a cell holding one of the package's stock values of that kind is no flag at all
    (the reading is refused), it does not quietly get the stock meaning back"""
    ctx.evaluated()
    stock_false = [None, '', False, 'False']
    stock_true = ['v', 1, '1', True, 'True']
    which = rng.choice(["no_false", "no_true"])
    conv_obj = (X.CellBool(true_values=['yes'], false_values=[], none_values=['n/a']) if which == "no_false" else
                X.CellBool(true_values=[], false_values=['no'], none_values=['n/a']))
    v = rng.choice(stock_false if which == "no_false" else stock_true)
    case = {"switched_off_values": which, "cell": repr(v)}
    cell = Cell(None, 1, 1, v)
    try:
        got = conv_obj.val_from_cell(cell)
        ctx.violation("attribute-differs-from-cell-at-reported-origin",
                      {"attr": "flag", "value": repr(got), "cell": repr(v),
                       "converter": "CellBool with an empty list of %s values" % ("false" if which == "no_false" else "true")}, case)
    except ValueError:
        ctx.count("cells_refused_by_a_converter_whose_value_list_is_empty")
    except Exception as err:
        ctx.violation("reader-raises", {"type": type(err).__name__, "msg": str(err)[:120]}, case)
        return
    # (the values the caller did name are read as before)
    for val, want in ((('yes', True),) if which == "no_false" else (('no', False),)) + (('n/a', None),):
        try:
            if conv_obj.val_from_cell(Cell(None, 1, 1, val)) is not want:
                ctx.violation("attribute-differs-from-cell-at-reported-origin", {"attr": "flag", "cell": repr(val)}, case)
        except Exception as err:
            ctx.violation("reader-raises", {"type": type(err).__name__, "msg": str(err)[:120]}, case)


def run_shard(ctx):
    for i in range(ctx.cases):
        if i % 8 == 3:
            switched_off_values_case(ctx, ctx.rng(i, "off"))
        if i % 8 == 5:
            glossary_case(ctx, ctx.rng(i))
        if i % 16 == 9:
            blank_sheet_case(ctx, ctx.rng(i))
        spec = gen_sheet(ctx.rng(i))
        judge(ctx, spec, {"rng_key": ctx.rng_key(i)})
        if i < 2:
            ctx.sample({"grid": spec['grid'], "stop_on": spec['stop_on'], "ladder": spec['ladder'],
                        "range_kind": spec['range_kind']})


def replay(ctx, case):
    if "switched_off_values" in case:
        for k in range(100):
            switched_off_values_case(ctx, random.Random(k))
        return
    if "blank_sheet" in case:
        for k in range(100):
            blank_sheet_case(ctx, random.Random(k))
        return
    if "glossary" in case:
        for k in range(400):        # (the family is small: it is simply run again)
            glossary_case(ctx, random.Random(k))
        return
    judge(ctx, gen_sheet(random.Random(case["rng_key"])), case)
