"""C06 History report attributes every matching commit to the right build per branch."""
import logging
import os
import re

import vf
vf.use_repo()
from ak.ghist import ReposCollection, RBuild  # noqa: E402
from vf import mockgit as mg  # noqa: E402
from vf.core import sig_of, CaseTimeout, Inconclusive  # noqa: E402

ID = "C06"
LEVEL = "exploration"
RULE = ("random commit DAGs (3-25 commits, 7% extra roots, 25% merges, parents among the latest 6), 1-4 remote "
        "branches with names exercising numeric-aware order (release/1.2, 1.10, 9.9, 10.1, 2.0, 2-9, 2-10, 3_1, 3_10, rc-2, rc-10, master/main), "
        "heads 80% recent / 20% anywhere (so heads coincide with or lie inside other branches), build tags "
        "on 35% of commits (sometimes two tags on one commit), three kinds of messages (BUG-7, BUG-71, also "
        "in the message body), commit times minutes apart or spread over up to 29 days, default or project-specific build tag pattern (a ProjectRepo subclass overriding the class-level pattern), 1-3 search texts per history (half of the histories on one long-lived collection). Oracle: "
        "reachability on the DAG computed by the harness; per branch every matching commit must be listed "
        "as the property states (minimal containing build, never 'not merged' when reachable, exactly once "
        "under 'not merged' when only reachable from a lower-sorted branch), reported builds must be builds "
        "of the branch, untagged head shows the 'not built' number, branch order; the printed report must "
        "contain exactly the listed commits per branch. Non-trivial = history where some head lies inside a "
        "lower-sorted branch, or with a merge of two tagged sub-branches, or with >=3 branches; distinct by "
        "(history, search text).")
ASSUMPTIONS = ["with parallel tagged sub-branches any minimal containing build is accepted",
               "all commit times lie within 29 days (inside the 30-day obsolete-branch window)"]
TIERS = {
    "quick": {"shards": 4, "cases": 1500, "timeout": 300, "params": {"case_timeout": 10}},
    "thorough": {"shards": 16, "cases": 5000, "timeout": 3000, "params": {"case_timeout": 10}},
}
FLOORS = {"quick": {"commits_of_one_long_history": 1500,
                    "repositories_judged_next_to_a_pinned_component": 700,
                    "distinct_nontrivial": 800, "commit_branch_decisions": 20000, "not_merged_listings": 1000,
                    "heads_inside_lower_branch": 150, "printed_reports_parsed": 1500,
                    "histories_tracking_a_remote_other_than_origin": 100,
                    "loose_refs_with_a_stale_packed_line": 50, "annotated_tags_in_loose_files": 50},
          "thorough": {"commits_of_one_long_history": 1500,
                       "repositories_judged_next_to_a_pinned_component": 2900,
                       "distinct_nontrivial": 40000, "commit_branch_decisions": 1000000,
                       "not_merged_listings": 50000, "heads_inside_lower_branch": 8000,
                       "printed_reports_parsed": 80000,
                       "histories_tracking_a_remote_other_than_origin": 3000,
                       "loose_refs_with_a_stale_packed_line": 2000, "annotated_tags_in_loose_files": 2000}}
LEVEL_TEXT = ("Runtime exploration with a graph oracle: the real report builder runs on thousands of generated "
              "repositories (own GitPython mock, several roots allowed) and each (branch, matching commit) "
              "decision is re-derived by plain reachability on the DAG; the printed report is parsed back and "
              "compared with the data it was printed from.")
LEVEL_NOTE = ("Histories <= 25 commits and <= 4 branches; tag-based build detection (default and project-specific pattern); 12% of the projects track a remote "
              "named 'upstream' while 'origin' has unrelated heads (ready project objects handed to the collection in the plain form); commit "
              "times inside 29 days.")
TECHNIQUE = "runtime monitoring: DAG-reachability oracle over generated commit histories, report parsed back"

BRANCH_NAMES = ["origin/release/1.0", "origin/release/1.10", "origin/release/1.2", "origin/release/2.0",
                "origin/release/10.1", "origin/release/9.9", "origin/master", "origin/main",
                "origin/release/1.2.1", "origin/release/1.02", "origin/release/2-9", "origin/release/2-10",
                "origin/release/3_1", "origin/release/3_10", "origin/release/rc-2", "origin/release/rc-10",
                # (two spellings of one version: different branches that sort alike)
                "origin/release/1_2", "origin/release/2.9", "origin/release/3-1",
                # (version numbers typed in the digits of another script: numbers all the same)
                "origin/release/\u0663", "origin/release/\uff11.\uff15", "origin/release/\u0661\u0660.0"]
# (a search text may span a line break of the message)
# ... or be typed in the wrong case: it then occurs in no message and nothing is reported
TEXTS = ["BUG-7", "BUG-71", "fix", "BUG-7 ", " change", "fix ", "\n\nrelated to BUG-7", "\nrelated", "bug-7", "Fix",
         "Bug-71", ""]      # (the empty text is in every message)


def gen_history(rng, max_commits=25):
    n = rng.randint(3, max_commits)
    commits = {}
    ids = list(range(1, n + 1))
    base = 1_600_000_000
    # commit times: minutes apart, or spread over days (always inside the 30-day window)
    step = 60 if rng.random() < 0.6 else rng.randint(3600, (29 * 86400) // n)
    ci_tags = rng.random() < 0.25     # the project uses its own build tag format
    # ... or the standard one with release names that are no identifiers (major.minor then come from VERSION)
    dotted_tags = not ci_tags and rng.random() < 0.15
    files = {"VERSION": "7.%d" % rng.randint(0, 3)} if dotted_tags else {}
    for cid in ids:
        earlier = ids[:cid - 1]
        if not earlier or rng.random() < 0.07:
            ps = []
        elif len(earlier) >= 2 and rng.random() < 0.25:
            ps = rng.sample(earlier[-6:], 2)
        else:
            ps = [rng.choice(earlier[-4:])]
        r = rng.random()
        if r < 0.3:
            msg = "BUG-7 fix %d" % cid
        elif r < 0.4:
            msg = "BUG-71 change %d" % cid
        elif r < 0.45:
            msg = "misc %d\n\nrelated to BUG-7 fix" % cid
        elif r < 0.47:
            msg = ""            # (a commit made with --allow-empty-message: it holds the empty search text)
        else:
            msg = "misc %d" % cid
        commits[cid] = mg.Commit("r", cid, [commits[p] for p in ps], msg, base + cid * step, files)
    names = rng.sample(BRANCH_NAMES, rng.randint(1, 4))
    seen_keys = set()
    for nm in list(names):
        k = repr(mg.branch_sort_key(nm)) if mg.short_branch(nm) != "master" else nm     # (two trunks may coexist)
        if k in seen_keys and n % 2:
            names.remove(nm)     # same sort key (1.2 / 1.02): order unspecified - half of the histories keep both
        seen_keys.add(k)
    if rng.random() < 0.2:
        # refs of the same remote that are neither the trunk nor release branches (their own commits are nobody's
        # release yet, whatever they mention)
        names += rng.sample(["origin/release-notes", "origin/releases-staging", "origin/feature/x", "origin/rel/1.0"],
                            rng.randint(1, 2))
    heads = {}
    for nm in names:
        heads[nm] = rng.choice(ids[-(n // 2 + 1):]) if rng.random() < 0.8 else rng.choice(ids)
    tags = {}
    bn = 0
    for cid in ids:
        if rng.random() < 0.35:
            for _ in range(2 if rng.random() < 0.12 else 1):
                bn += 1
                if rng.random() < 0.04:
                    bn = max(bn, rng.choice([8887, 8888, 9998, 9999]))   # numbers that look like the reserved ones
                rel = f"release_{rng.randint(1, 3)}_{rng.randint(0, 3)}"
                if dotted_tags:
                    rel = rng.choice(["release-%d.%d", "release/%d.%d", "rel.%d-%d"]) % (rng.randint(1, 3), rng.randint(0, 3))
                tags[f"ci-{bn}-{rel}-ok" if ci_tags else f"build_{bn}_{rel}_success"] = cid
    other_tags = {}
    if rng.random() < 0.25 and not ci_tags:
        # tags that only END like build tags (a prefix in front of the pattern): they mark no builds
        for k in range(rng.randint(1, 3)):
            other_tags[rng.choice(["prebuild_%d_release_1_0_success", "ci/build_%d_release_2_1_success",
                                   "rebuild_%d_release_1_2_success", "xbuild_%d_master_success",
                                   # (characters some functions take for line ends are legal in ref names)
                                   "notes\u2028v%d", "v%d\u0085rc", "doc\u2029%d"]) % (900 + k)] = rng.choice(ids)
    if rng.random() < 0.12:
        # a fork + upstream setup: the project tracks the remote 'upstream'; 'origin' has heads of its own
        decoys = {"origin/master": rng.choice(ids)}
        if rng.random() < 0.5:
            decoys["origin/release/1.0"] = rng.choice(ids)
        # (a remote's name may contain a slash)
        return mg.Repo("r", commits, heads, tags, remote=rng.choice(["upstream", "upstream", "up/stream"]), decoys=decoys,
                       other_tags=other_tags)
    return mg.Repo("r", commits, heads, tags, other_tags=other_tags)


def keeping_collection(repo):
    """a collection whose project class hands out ONE builds detector for all its reports (the documented hook
    make_builds_detector(), overridden to avoid reading the tags again and again)"""
    base = type(mg.repo_for('r', repo))
    kept = {}

    def make_builds_detector(self):
        if 'd' not in kept:
            kept['d'] = base.make_builds_detector(self)
        return kept['d']
    keeper = type(base.__name__ + "KeepsDetector", (base,), {"make_builds_detector": make_builds_detector})
    return ReposCollection({'r': keeper('r', repo, repo.remote)})


def collection_for(repo):
    """the collection of one project: given a ready project object or, for every third history, the repository
    itself (with the remote's name unless that is the default) - the project class is then looked up in the
    collection's registry of repository types"""
    if len(repo.commits) % 3:
        return ReposCollection({'r': mg.repo_for('r', repo)})
    cls = type("VfCollection", (ReposCollection,), {"_REPOS_TYPES": {'r': type(mg.repo_for('r', repo))}})
    if repo.remote == 'origin' and len(repo.tags) % 2:
        return cls({'r': repo})
    return cls({'r': (repo, repo.remote) if len(repo.tags) % 3 else [repo, repo.remote]})


def disk_collection(repo, git_dir, refs_seed, loose):
    """a collection whose project reads the refs of `repo` from a .git directory written for this call"""
    disk_repo, stats = mg.disk_refs_repo(repo, git_dir, refs_seed, loose)
    cls = type(mg.repo_for('r', repo))
    return ReposCollection({'r': cls('r', disk_repo, repo.remote)}), stats


HASH_RE = re.compile(r"^([0-9a-f]{8,40}) ")


def parse_printed(text, sections=None):
    """printed report -> {branch: [hash-prefix, ...]} (in printed order);
    sections (optional dict) receives {branch: [(section title, [hash-prefix, ...]), ...]}"""
    res = {}
    cur = None
    for line in text.split("\n"):
        m = HASH_RE.match(line)
        if m:
            if cur is not None:
                res[cur].append(m.group(1))
                if sections is not None and sections[cur]:
                    sections[cur][-1][1].append(m.group(1))
        elif line.startswith("r ") and line.endswith(":"):
            cur = line[2:-1]
            res[cur] = []
            if sections is not None:
                sections[cur] = []
        elif line.startswith("  ") and cur is not None and sections is not None:
            sections[cur].append((line.strip(), []))
    return res


def odd_git_dir():
    """-> (directory to remove afterwards, the .git directory): the repository lies in a directory whose name has
    characters that mean something to glob patterns and regular expressions"""
    import os
    import tempfile
    top = tempfile.mkdtemp(prefix="vf-c06-git-")
    git_dir = os.path.join(top, "project [v2] {a,b}*?+(1)", ".git")
    os.makedirs(git_dir)
    return top, git_dir


def branch_problems(count, repo, rgraph, matching, tagged, order, exp, allowed_trunks):
    """the listing of every branch of the report against the reachability oracle; -> (problems, listed_by_branch).
    The reported branches (highest first) are matched with the expected ones in order; `allowed_trunks`: which of two
    coexisting trunks may be in the report (None: a single trunk)"""
    problems = []
    reported = list(rgraph.branches)
    rb_of = {}
    k = 0
    for b in reversed(order):
        if k < len(reported) and reported[k].branch_name == mg.short_branch(b) and (
                allowed_trunks is None or mg.short_branch(b) != "master" or b in allowed_trunks):
            rb_of[b] = reported[k]
            k += 1
    if k != len(reported):
        problems.append(("branch-order", {"reported": [br.branch_name for br in reported],
                                          "expected": [mg.short_branch(b) for b in reversed(order)]}))
    listed_by_branch = {}
    for b in order:
        e = exp[b]
        br = rb_of.get(b)
        listed = {}
        if br is not None:
            for rb in br.rbuilds.values():
                for rc in rb.get_printable_rcommits():
                    listed.setdefault(rc.commit.intid, []).append(
                        (rb.build_type, rb.rcommit.commit.intid if rb.rcommit else None))
        listed_by_branch[mg.short_branch(b)] = listed
        for cid, lst in listed.items():
            if cid not in matching:
                problems.append(("non-matching-commit-listed", {"branch": b, "commit": cid}))
            if len(lst) > 1:
                problems.append(("commit-listed-twice", {"branch": b, "commit": cid, "where": lst}))
        for cid in sorted(matching):
            count("commit_branch_decisions")
            lst = listed.get(cid, [])
            if cid in e['anc']:
                cont = {x for x in e['builds'] if cid in mg.ancestors(repo.commits[x])}
                if any(k == RBuild.FAKE_NOT_MERGED for k, _ in lst):
                    mech = "reachable-commit-under-not-merged"
                    if e['head'] in e['lower']:
                        mech = "head-inside-lower-branch:" + mech
                    problems.append((mech, {"branch": b, "commit": cid, "where": lst}))
                if cont:
                    minimal = {x for x in cont
                               if not any(y != x and y in mg.ancestors(repo.commits[x]) for y in cont)}
                    norm = [bc for k, bc in lst if k == RBuild.NORMAL]
                    if len(norm) != 1:
                        problems.append(("not-listed-exactly-once-under-a-build",
                                         {"branch": b, "commit": cid, "where": lst, "containing": sorted(cont)}))
                    elif norm[0] not in minimal:
                        problems.append(("listed-under-later-build",
                                         {"branch": b, "commit": cid, "where": lst, "earliest": sorted(minimal)}))
                    else:
                        count("listed_under_earliest_build")
                elif any(k == RBuild.NORMAL for k, _ in lst):
                    problems.append(("listed-under-build-that-does-not-contain-it",
                                     {"branch": b, "commit": cid, "where": lst}))
            elif cid in e['lower']:
                if [k for k, _ in lst] != [RBuild.FAKE_NOT_MERGED]:
                    problems.append(("unmerged-commit-not-exactly-once-under-not-merged",
                                     {"branch": b, "commit": cid, "where": lst}))
                else:
                    count("not_merged_listings")
            elif lst:
                problems.append(("unreachable-commit-listed", {"branch": b, "commit": cid, "where": lst}))
        if br is not None:
            for rb in br.rbuilds.values():
                if rb.build_type == RBuild.NORMAL:
                    bc = rb.rcommit.commit.intid
                    if bc not in e['builds']:
                        problems.append(("reported-build-is-not-a-build-of-the-branch",
                                         {"branch": b, "commit": bc}))
                    not_built = rb.build_num.is_fake_not_built()
                    if (bc not in tagged) != not_built:
                        problems.append(("not-built-number-mismatch",
                                         {"branch": b, "commit": bc, "build_num": str(rb.build_num)}))
        if e['head'] in e['lower']:
            count("heads_inside_lower_branch")
    return problems, listed_by_branch


def judge(ctx, repo, text, case, repos=None, repo_id=None):
    """repo_id: the repository is one of several of the collection (it pins components, which are analysed in the
    same report): its own listing is judged, the printed report is left to C07"""
    ctx.evaluated()
    matching = {cid for cid, c in repo.commits.items() if text in c.message}
    try:
        if repos is None:
            repos = ReposCollection({'r': mg.repo_for('r', repo)})
        elif repo_id is None:
            ctx.count("reports_on_a_reused_collection")
        if repo_id is None:
            (rid, rgraph), = repos.make_reports_data(text)
        else:
            rgraph = dict(repos.make_reports_data(text))[repo_id]
    except Exception as err:
        ctx.violation("report-raises", {"type": type(err).__name__, "msg": str(err)[:200]}, case)
        return
    tagged = set(repo.tags.values())
    both_trunks = "origin/master" in repo.branches and "origin/main" in repo.branches
    by_name = rgraph.get_rbranches_by_name() if hasattr(rgraph, "get_rbranches_by_name") else None
    if by_name is not None and not both_trunks:
        # the documented by-name view of the same report: every reported branch, under its name
        ctx.count("by_name_views_compared")
        if list(by_name) != [br.branch_name for br in rgraph.branches] or any(
                by_name[br.branch_name] is not br for br in rgraph.branches):
            ctx.violation("by-name-view-of-the-report-differs-from-its-branches",
                          {"branches": [br.branch_name for br in rgraph.branches], "by_name": list(by_name)}, case)
            return
    rel_keys = [repr(mg.branch_sort_key(b)) for b in repo.branches if b.startswith("origin/release/")]
    if not both_trunks and len(set(rel_keys)) != len(rel_keys):
        # two release branches whose names sort alike: both are reported, in either order
        ctx.count("histories_with_two_branches_that_sort_alike")
        best = None
        for rev in (False, True):
            order, exp = mg.branch_oracle(repo, ties_reversed=rev)
            found, listed = branch_problems(lambda *a: None, repo, rgraph, matching, tagged, order, exp, None)
            if best is None or len(found) < len(best[0]):
                best = (found, order, exp, listed)
        problems, order, exp, listed_by_branch = best
    elif not both_trunks:
        order, exp = mg.branch_oracle(repo)
        problems, listed_by_branch = branch_problems(ctx.count, repo, rgraph, matching, tagged, order, exp, None)
    else:
        # the trunk was renamed and the old ref is still there: two branches are shown as 'master'. Which of the two
        # sorts lower is not said anywhere, and a trunk with nothing to show may be left out: every reading is tried,
        # the report has to agree with one of them
        ctx.count("histories_with_two_trunks")
        best = None
        for lower_trunk in ("origin/main", "origin/master"):
            order, exp = mg.branch_oracle(repo, lower_trunk=lower_trunk)
            for allowed in (("origin/main", "origin/master"), ("origin/main",), ("origin/master",)):
                found, listed_by_branch = branch_problems(lambda *a: None, repo, rgraph, matching, tagged, order, exp,
                                                          allowed)
                # (a trunk that is left out of the report is judged like any branch without a listing: it must have
                # nothing to show)
                if best is None or len(found) < len(best[0]):
                    best = (found, order, exp)
        problems, order, exp = best
        listed_by_branch = {}
    # ---- printed report
    printed = None
    try:
        if repo_id is None and not both_trunks:
            report = repos.make_report(text)
            printed = str(report.ch_text(no_color=True))
            # the caller works with what the report hands out - counts the commits of a build before it loops over
            # them, loops twice, sorts "its" list of builds the other way round and drops the pseudo builds - and prints
            # the report again: the same report
            for _rid, rg in (report.data.items() if hasattr(report.data, 'items') else report.data):
                for br in rg.branches:
                    for rb in br.rbuilds.values():
                        got_rc = rb.get_printable_rcommits()
                        once, twice = list(got_rc), list(got_rc)
                        if once != twice or (hasattr(got_rc, '__len__') and len(got_rc) != len(once)):
                            problems.append(("commits-of-a-build-differ-when-they-are-asked-for-twice",
                                             {"branch": br.branch_name, "first": len(once), "second": len(twice)}))
                    lst = br.get_rbuilds_list()
                    if isinstance(lst, list):
                        lst.reverse()
                        del lst[:1]
            ctx.count("reports_printed_again_after_the_caller_worked_with_their_lists")
            again = str(report.ch_text(no_color=True))
            if again != printed:
                problems.append(("report-printed-again-differs", {"first": printed[:200], "second": again[:200]}))
    except Exception as err:
        problems.append(("report-rendering-raises", {"type": type(err).__name__, "msg": str(err)[:200]}))
    if printed is not None:
        ctx.count("printed_reports_parsed")
        sections = {}
        got = parse_printed(printed, sections)
        # the titles of the printed sections: a build number, '- not built -' or '- not merged -'
        for br in rgraph.branches:
            want_sections = []
            for rb in br.rbuilds.values():
                hashes = sorted(rc.commit.hexsha for rc in rb.get_printable_rcommits())
                if rb.build_type == RBuild.FAKE_NOT_MERGED:
                    kind = "not merged"
                elif rb.rcommit.commit.intid not in tagged:
                    kind = "not built"
                else:
                    kind = str(rb.build_num)
                want_sections.append((kind, hashes))
            have = []
            for title, hs in sections.get(br.branch_name, []):
                kind = "not merged" if "not merged" in title else "not built" if "not built" in title else \
                    title.split(" ")[0]
                have.append((kind, sorted(hs)))
            ok = len(have) == len(want_sections) and all(
                hk == wk and len(hh) == len(wh) and all(w.startswith(h) for w, h in zip(wh, hh))
                for (hk, hh), (wk, wh) in zip(sorted(have), sorted(want_sections)))
            if not ok:
                problems.append(("printed-section-titles-differ-from-report-data",
                                 {"branch": br.branch_name, "printed": [(k, len(h)) for k, h in have][:6],
                                  "data": [(k, len(h)) for k, h in want_sections][:6]}))
        for bname, listed in listed_by_branch.items():
            want = sorted(repo.commits[cid].hexsha for cid in listed)
            have = sorted(got.get(bname, []))
            ok = len(want) == len(have) and all(w.startswith(h) for w, h in zip(want, have))
            if not ok:
                problems.append(("printed-report-differs-from-report-data",
                                 {"branch": bname, "printed": have[:6], "data": [w[:11] for w in want][:6]}))
    for mech, detail in problems[:6]:
        ctx.violation(mech, detail, case)
    merges_of_built = any(
        len(c.parents) == 2 and all(any(a in tagged for a in mg.ancestors(p)) for p in c.parents)
        for c in repo.commits.values())
    if any(e['head'] in e['lower'] for e in exp.values()) or merges_of_built or len(order) >= 3:
        ctx.nontrivial(sig_of([case.get("repo") or case.get("par"), text]))


def with_component_case(ctx, rng, case=None):
    """the repository pins a component that is part of the same collection (the generators of C07): its own
    matching commits are listed as in a collection of one - whatever the component's builds and their dates are"""
    from vf.checks import c07
    if case is None:
        step = rng.choice([60, 7 * 3600, 2 * 86400, 2 * 86400])
        comp, versions = c07.gen_comp(rng, step=step)
        if not versions:
            return
        par, pins, _ = c07.gen_parent(rng, versions, None, comp, None, step)
        times = [c.committed_date for c in par.commits.values()]
        if max(times) - min(times) > 29 * 86400:
            ctx.count("parent_history_longer_than_29_days(skipped)")      # (see LEVEL_NOTE)
            return
        # (here most parent commits mention the searched text: old ones far below the component's builds too)
        for cid, c in par.commits.items():
            if (cid * 7 + len(par.commits)) % 3:
                c.message = "BUG-7 p%d" % cid
        case = {"kind": "with-component", "comp": mg.describe(comp), "par": mg.describe(par), "text": "BUG-7"}
    else:
        comp, par = mg.rebuild(case["comp"]), mg.rebuild(case["par"])
    repos = ReposCollection({'par': mg.PRepo('par', par, 'origin'), 'comp': mg.component_repo_for('comp', comp)})
    ctx.count("repositories_judged_next_to_a_pinned_component")
    judge(ctx, par, case["text"], case, repos, repo_id='par')


def cutoff_boundary_case(ctx, rng):
    """the head of a higher-sorted branch is EXACTLY thirty days older than the only build of the lower-sorted branch
    (the last moment inside the window): a line of commits, the old branch points at its first commit"""
    m = rng.randint(3, 6)
    t0 = 1_600_000_000 + rng.randrange(10 ** 6)
    commits, prev = {}, None
    for cid in range(1, m + 1):
        ts = t0 if cid == 1 else t0 + 30 * 86400 - (m - cid) * rng.choice([1, 60, 3600])
        msg = "BUG-7 c%d" % cid if (cid == 2 or rng.random() < 0.5) else "misc %d" % cid
        commits[cid] = mg.Commit("r", cid, [prev] if prev else [], msg, ts, {})
        prev = commits[cid]
    low, high = rng.choice([("origin/release/1.0", "origin/release/2.0"), ("origin/release/1.9", "origin/release/1.10"),
                            ("origin/release/3.0", "origin/master")])
    heads = {low: m, high: 1}
    tags = {"build_1_release_1_0_success": m} if rng.random() < 0.6 else {}
    repo = mg.Repo("r", commits, heads, tags)
    ctx.count("histories_with_a_head_exactly_thirty_days_before_the_first_reported_build")
    judge(ctx, repo, "BUG-7", {"repo": mg.describe(repo), "text": "BUG-7", "cutoff_boundary": True})


def long_history_case(ctx, n=1500):
    """a trunk of n commits in a line, every third one matching, a build tag every hundred commits"""
    commits, tags = {}, {}
    prev = None
    for cid in range(1, n + 1):
        commits[cid] = mg.Commit("r", cid, [prev] if prev else [], "BUG-7 fix %d" % cid if cid % 3 else "misc %d" % cid,
                                 1_600_000_000 + cid * 30, {})
        prev = commits[cid]
        if cid % 100 == 0:
            tags["build_%d_release_1_0_success" % (cid // 100)] = cid
    repo = mg.Repo("r", commits, {"origin/master": n, "origin/release/1.0": n - 250}, tags)
    ctx.count("commits_of_one_long_history", n)
    judge(ctx, repo, "BUG-7", {"kind": "long-history", "n": n})


def run_shard(ctx):
    logging.disable(logging.CRITICAL)
    timed_out = 0
    if ctx.shard == 0:
        long_history_case(ctx)
    for i in range(ctx.cases):
        try:
            rng = ctx.rng(i)
            if i % 8 == 5:
                for _ in range(4):
                    with_component_case(ctx, rng)
                cutoff_boundary_case(ctx, rng)
                continue
            repo = gen_history(rng, 25 if ctx.tier == "quick" else rng.choice([12, 25, 40]))
            descr = mg.describe(repo)
            if repo.remote != 'origin':
                ctx.count("histories_tracking_a_remote_other_than_origin")
            texts = rng.sample(TEXTS, rng.randint(1, 3))
            # half of the histories are reported by ONE long-lived collection asked for several texts
            shared = collection_for(repo) if rng.random() < 0.5 else None
            late_tags = []
            if shared is None and rng.random() < 0.12:
                # the refs are read from a .git directory by the production code (packed refs, annotated tags)
                import shutil
                import tempfile
                git_top, git_dir = odd_git_dir()
                try:
                    refs_seed = rng.getrandbits(32)
                    loose = rng.choice([0.0, 0.3, 0.6])
                    disk, stats = disk_collection(repo, git_dir, refs_seed, loose)
                    ctx.count("histories_with_refs_read_from_packed_refs")
                    ctx.count("annotated_tags_in_packed_refs", stats[0])
                    ctx.count("refs_in_loose_files", stats[1])
                    ctx.count("loose_refs_with_a_stale_packed_line", stats[2])
                    ctx.count("annotated_tags_in_loose_files", stats[3])
                    judge(ctx, repo, texts[0], {"repo": descr, "text": texts[0], "refs": "packed-refs",
                                                "refs_seed": refs_seed, "loose": loose}, disk)
                    ctx.count("loose_refs_resolved_by_the_report_builder", disk.repos['r'].repo.loose_lookups)
                finally:
                    shutil.rmtree(git_top, ignore_errors=True)
            for k, text in enumerate(texts):
                if shared is not None and k and rng.random() < 0.5:
                    # between two reports of the long-lived collection new build tags arrive (as after a fetch)
                    fmt = "ci-%d-release_1_1-ok" if any(t.startswith("ci-") for t in repo.tags) else "build_%d_release_1_1_success"
                    name = fmt % (20000 + k)
                    repo.add_tag(name, rng.choice(sorted(repo.commits)))
                    late_tags.append(name)
                    descr = mg.describe(repo)
                    ctx.count("tags_added_between_reports_of_one_collection")
                judge(ctx, repo, text, {"repo": descr, "text": text, "late_tags": list(late_tags),
                                        "earlier_texts_on_same_collection":
                                        texts[:k] if shared is not None else []}, shared)
            if shared is None and not late_tags and len(repo.tags) % 3 == 1:
                coll = keeping_collection(repo)
                for k in range(2):
                    judge(ctx, repo, texts[0], {"repo": descr, "text": texts[0], "kept_detector": k + 1}, coll)
                ctx.count("histories_reported_twice_with_one_builds_detector")
            if i < 2:
                ctx.sample({"commits": [[c[0], c[1], c[2][:20]] for c in descr["commits"]],
                            "branches": descr["branches"], "tags": descr["tags"]})
        except CaseTimeout:
            # the report did not come back within the alarm (cases take milliseconds): never a verdict, but
            # the remaining histories are still worth running - a few such cases are tolerated
            timed_out += 1
            ctx.count("cases_that_exceeded_the_wall_clock_alarm")
            if timed_out > 3:
                raise
    if timed_out:
        raise Inconclusive("%d histories exceeded the %.0f s alarm (the report did not return)"
                           % (timed_out, ctx.case_timeout))


def replay(ctx, case):
    logging.disable(logging.CRITICAL)
    if case.get("kind") == "long-history":
        long_history_case(ctx, case["n"])
        return
    if case.get("kind") == "with-component":
        with_component_case(ctx, None, case)
        return
    descr = dict(case["repo"])
    late = {t: cid for t, cid in descr["tags"].items() if t in (case.get("late_tags") or [])}
    descr["tags"] = {t: cid for t, cid in descr["tags"].items() if t not in late}
    repo = mg.rebuild(descr)
    earlier = case.get("earlier_texts_on_same_collection") or []
    shared = None
    if earlier:
        shared = collection_for(repo)
        for t in earlier:
            shared.make_reports_data(t)
            shared.make_report(t)
    for t, cid in late.items():
        repo.add_tag(t, cid)
    if case.get("refs") == "packed-refs":
        import random
        import shutil
        import tempfile
        git_top, git_dir = odd_git_dir()
        try:
            if "refs_seed" in case:
                judge(ctx, repo, case["text"], case, disk_collection(repo, git_dir, case["refs_seed"], case["loose"])[0])
            else:
                for k in range(4):       # (older replay files do not record which tags were annotated: several drawings)
                    judge(ctx, repo, case["text"], case, disk_collection(repo, git_dir, k, 0.0)[0])
        finally:
            shutil.rmtree(git_top, ignore_errors=True)
        return
    if case.get("kept_detector"):
        coll = keeping_collection(repo)
        for k in range(case["kept_detector"]):
            judge(ctx, repo, case["text"], case, coll)
        return
    judge(ctx, repo, case["text"], case, shared)
