"""C19 Command options are inherited exactly along the declared command graph."""
import contextlib
import io
import sys
import random

import vf
vf.use_repo()
from ak.cli_tools import ArgParser  # noqa: E402
from vf.core import sig_of  # noqa: E402

ID = "C19"
LEVEL = "exploration"
RULE = ("2-7 commands, some internal ('!'), each with a random set of earlier commands as parents (chains, forests, "
        "diamonds, an ancestor named together with its descendant, a parent named twice), 0-2 prefix-free options "
        "per command parser (flags and valued) and sometimes an on/off pair sharing one destination, command names "
        "sometimes containing a dash, one option on the ArgParser itself, explicit or implicit default "
        "command; for every (command, option): argument vector [command, option(, value)] and, for the default "
        "command, the vector without the command name (a third of the option values are spelled like a "
        "declared command name); standard --color[=x] / --no-color / -v on every command. "
        "Oracle: the harness computes the transitive ancestors of each command; an option is accepted (namespace "
        "attribute set, command recorded) iff its owner is the command itself, one of its ancestors, or the "
        "ArgParser; otherwise SystemExit(2). Non-trivial = graph in which some command reaches an ancestor through "
        "two different parents; distinct by graph.")
ASSUMPTIONS = ["option names are prefix-free (argparse abbreviations are not under test)"]
TIERS = {
    "quick": {"shards": 4, "cases": 600, "timeout": 300, "py_flags_by_shard": {2: ["-O"], 3: ["-OO"]}},
    "thorough": {"shards": 16, "cases": 4000, "timeout": 3000, "py_flags_by_shard": {13: ["-O"], 14: ["-OO"], 15: ["-O"]}},
}
FLOORS = {"quick": {"commands_in_one_long_chain": 1200,
                    "parsers_judged_as_deep_copies_of_a_template": 100,
                    "distinct_nontrivial": 300, "command_option_decisions": 10000, "accepted": 3000, "rejected": 3000,
                    "default_command_vectors": 500, "std_option_vectors": 5000,
                    "graphs_judged_in_an_optimized_interpreter": 1000, "self_answering_options_accepted": 500},
          "thorough": {"commands_in_one_long_chain": 1200,
                       "parsers_judged_as_deep_copies_of_a_template": 390,
                       "distinct_nontrivial": 15000, "command_option_decisions": 600000, "accepted": 200000,
                       "rejected": 200000, "default_command_vectors": 30000, "std_option_vectors": 300000,
                       "graphs_judged_in_an_optimized_interpreter": 10000}}
LEVEL_TEXT = ("Runtime exploration over command graphs: the real ArgParser is built for each generated declaration list "
              "and every (command, option) pair is decided by actually parsing an argument vector, compared with the "
              "transitive closure computed by the harness.")
LEVEL_NOTE = "graphs <= 7 commands, <= 2 options per parser; stderr of argparse is captured and ignored"
TECHNIQUE = "runtime monitoring: transitive-closure oracle over generated command graphs, decided by real parses"


def gen_graph(rng):
    k = rng.randint(2, 7)
    dashed = rng.random() < 0.3
    names = [("c-%d" if (dashed and rng.random() < 0.6) else "c%d") % i for i in range(k)]
    if rng.random() < 0.3:
        # names that contain each other
        # ... or differ only in the case of their letters
        names = rng.sample(["build", "build-all", "all", "b", "nightly", "night", "c1", "c10", "c11", "x", "ax", "a",
                            "Build", "ALL", "B", "Night"], k)
    if rng.random() < 0.2:
        # names that END with the character that marks internal option sets when it comes first
        names = [nm + "!" if rng.random() < 0.5 else nm for nm in names]
    internal = {nm for nm in names if rng.random() < 0.25}
    if len(internal) == k:
        internal.discard(names[0])
    parents = {}
    cmds = []
    for i, nm in enumerate(names):
        ps = [p for p in names[:i] if rng.random() < 0.45]
        if ps and rng.random() < 0.15:
            ps.append(rng.choice(ps))           # a parent named twice
        rng.shuffle(ps)
        parents[nm] = ps
        # (a declaration may be wrapped over several lines or aligned with tabs)
        # (... or typed with blanks of other kinds: the wide blank a CJK keyboard puts behind a comma, a no-break space)
        sep = rng.choice([",", ", ", " ,", ",\n      ", "\t,", ", \t", ",\u3000", "\xa0, ", ",\x0c"])
        lead = rng.choice(["", "", " ", "\t", "\n   ", "\xa0", "\u2003"])
        decl = ("!" if nm in internal else "") + nm + ((":" + lead + sep.join(ps)) if ps else "")
        help_ = "help " + nm if rng.random() < 0.7 else ("help " + nm, "description of " + nm)
        cmds.append((decl, help_))
    real = [nm for nm in names if nm not in internal]
    dflt = rng.choice([None, rng.choice(real)])
    opts = []
    for nm in names:
        onm = nm.replace("!", "-bang")       # (option names are plain)
        for j in range(rng.randint(0, 2)):
            opts.append(("--p-%s-%d" % (onm, j), nm, rng.random() < 0.5))
        if rng.random() < 0.3:
            # an on/off pair writing to one destination
            # (no option name is a prefix of another one: argparse accepts unambiguous abbreviations)
            opts.append(("--on-%s-sw" % onm, nm, "on:sw_" + onm.replace("-", "_")))
            opts.append(("--off-%s-sw" % onm, nm, "off:sw_" + onm.replace("-", "_")))
    if rng.random() < 0.3:
        # an option that answers by itself and ends the program (prints a version, one more help page)
        nm = rng.choice(names)
        kind = rng.choice(["version", "help"])
        opts.append(("--%s-of-%s" % ("release" if kind == "version" else "more-help", nm.replace("!", "-bang")),
                     nm if rng.random() < 0.85 else None, "exit:" + kind))
    if rng.random() < 0.2:
        # an option of the application that is called like an option many programs have at their top level
        opts.append(("--version", rng.choice(names + [None]), True))
    opts.append(("--g-0", None, True))
    flags = {'_help_if_no_args': rng.random() < 0.3, '_no_log_file': rng.random() < 0.3}
    if rng.random() < 0.15:
        # (the switch given as 'not set': None, 0 or the empty text - the standard verbosity option is there)
        flags['_no_log'] = rng.choice([None, 0, ''])
    if rng.random() < 0.2:
        # the application does its own logging: the standard verbosity option is switched off and its names are free
        # for an option of the application
        flags['_no_log'] = True
        opts.append(("--verbose", rng.choice(names + [None]), True))
    return dict(flags=flags, names=names, internal=sorted(internal), parents=parents, cmds=cmds, real=real, dflt=dflt, opts=opts,
                )


def ancestors(g):
    anc = {}
    for nm in g['names']:
        a = set()
        for p in g['parents'][nm]:
            a |= {p} | anc[p]
        anc[nm] = a
    return anc


def has_diamond(g, anc):
    for nm in g['names']:
        ps = sorted(set(g['parents'][nm]))
        for i, p in enumerate(ps):
            for q in ps[i + 1:]:
                if ({p} | anc[p]) & ({q} | anc[q]):
                    return True
    return False


def parse(ap, argv, through_sys_argv):
    """the argument vector is given explicitly or, as a script does, taken from sys.argv"""
    if not through_sys_argv:
        return ap.parse_args(list(argv))
    old = sys.argv
    sys.argv = ["prog"] + list(argv)
    try:
        return ap.parse_args()
    finally:
        sys.argv = old


def judge(ctx, g, case):
    ctx.evaluated()
    if sys.flags.optimize:
        # (this shard runs in an interpreter started with -O / -OO: assert statements are compiled away)
        ctx.count("graphs_judged_in_an_optimized_interpreter")
    anc = ancestors(g)
    try:
        with contextlib.redirect_stderr(io.StringIO()), contextlib.redirect_stdout(io.StringIO()):
            ap = ArgParser(commands=[tuple(c) if not isinstance(c, tuple) else c for c in g['cmds']],
                           default_command=g['dflt'], prog="t", **g.get('flags', {}))
            pristine = None
            if len(g['cmds']) % 4 == 1:
                # the application keeps the bare parser as a template and works with a deep copy of it: the copy
                # gets the options and is judged, the template must stay without them
                import copy
                pristine, ap = ap, copy.deepcopy(ap)
                ctx.count("parsers_judged_as_deep_copies_of_a_template")
            for o, owner, flag in g['opts']:
                kw = {'action': 'store_true'} if flag else {}
                if isinstance(flag, str) and flag.startswith("exit:"):
                    kw = {'action': 'version', 'version': "release<%s>" % o} if flag == "exit:version" else \
                        {'action': 'help'}
                elif isinstance(flag, str):
                    onoff, dest = flag.split(":")
                    kw = {'action': 'store_true' if onoff == "on" else 'store_false', 'dest': dest,
                          'default': None}
                if len(o) % 4 == 1 and not isinstance(flag, str):
                    # (the help text of the option is given - as 'there is none')
                    kw['help'] = None if len(o) % 8 == 1 else ""
                if owner is None:
                    ap.add_argument(o, **kw)
                else:
                    ap.get_cmd_parser(owner).add_argument(o, **kw)
            positional = len(g['opts']) % 5 < 2
            if positional:
                ap.add_argument('items', nargs='*')
    except (Exception, SystemExit) as err:
        ctx.violation("acyclic-declaration-rejected",
                      {"type": type(err).__name__, "msg": str(err)[:150], "diamond": has_diamond(g, anc)}, case)
        return
    exp_default = g['dflt'] or g['real'][0]
    problems = []
    if pristine is not None:
        for o, owner, flag in g['opts'][:6]:
            cmd = g['real'][len(o) % len(g['real'])]
            argv = [cmd, o] + ([] if flag else ["val"])
            try:
                with contextlib.redirect_stderr(io.StringIO()), contextlib.redirect_stdout(io.StringIO()):
                    pristine.parse_args(list(argv))
                problems.append(("option-of-a-copy-accepted-by-the-parser-it-was-copied-from", {"argv": argv}))
            except SystemExit:
                pass
            except Exception as err:
                problems.append(("parse-raises", {"argv": argv, "type": type(err).__name__, "msg": str(err)[:100]}))
    for cmd in g['real']:
        for o, owner, flag in g['opts']:
            for without_cmd in ((False, True) if cmd == exp_default else (False,)):
                # the value of an option may be spelled like a declared command or option-set name
                val = "val" if (hash((cmd, o)) % 3) else g['names'][hash((o, cmd)) % len(g['names'])]
                paired = isinstance(flag, str)
                argv = ([] if without_cmd else [cmd]) + [o] + ([] if flag else [val])
                should = owner is None or owner == cmd or owner in anc[cmd]
                ctx.count("command_option_decisions")
                if without_cmd:
                    ctx.count("default_command_vectors")
                exits = paired and flag.startswith("exit:")
                out = io.StringIO()
                try:
                    with contextlib.redirect_stderr(io.StringIO()), contextlib.redirect_stdout(out):
                        if without_cmd and len(g['real']) > 1 and hash((cmd, o, "ns")) % 2 == 0:
                            # the caller hands over a namespace of its own - the result of an earlier parse, which
                            # names another command
                            import argparse
                            earlier = argparse.Namespace(command=[c for c in g['real'] if c != cmd][0], left_over=1)
                            ns = ap.parse_args(list(argv), earlier)
                            ctx.count("default_command_vectors_parsed_into_a_used_namespace")
                        else:
                            ns = parse(ap, argv, hash((cmd, o, "route")) % 4 == 0)
                    ok = True
                    if exits:
                        problems.append(("self-answering-option-does-not-end-the-program", {"argv": argv}))
                        continue
                except SystemExit as err:
                    ok = False
                    if exits and err.code in (0, None):
                        # the option was accepted: it has answered (on stdout) and ended the program with success
                        ok = True
                        ctx.count("self_answering_options_accepted")
                        # (argparse folds the text to the width of the terminal)
                        if flag == "exit:version" and ("release<%s>" % o) not in "".join(out.getvalue().split()):
                            problems.append(("version-option-prints-something-else",
                                             {"argv": argv, "printed": out.getvalue()[:80]}))
                    elif err.code != 2:
                        problems.append(("rejection-with-unexpected-exit-code", {"argv": argv, "code": err.code}))
                except Exception as err:
                    problems.append(("parse-raises", {"argv": argv, "type": type(err).__name__, "msg": str(err)[:100]}))
                    continue
                if ok != should:
                    mech = "option-of-unrelated-command-accepted" if ok else "inherited-option-rejected"
                    if not ok and owner is None:
                        mech = "global-option-rejected"
                    if not ok and owner == cmd:
                        mech = "own-option-rejected"
                    problems.append((mech, {"argv": argv, "owner": owner, "ancestors": sorted(anc[cmd])}))
                    continue
                ctx.count("accepted" if ok else "rejected")
                if ok and not exits:
                    attr = flag.split(":")[1] if paired else o[2:].replace('-', '_')
                    want_vals = ((flag.startswith("on:"),) if paired else (True,) if flag else (val,))
                    if getattr(ns, attr, "<missing>") not in want_vals:
                        problems.append(("accepted-option-not-in-namespace", {"argv": argv}))
                    if ns.command != cmd:
                        problems.append(("wrong-command-recorded", {"argv": argv, "command": ns.command,
                                                                    "expected": cmd}))
        # all the options the command must accept in one vector (and one it must not)
        mine = [(o, flag) for o, owner, flag in g['opts']
                if (owner is None or owner == cmd or owner in anc[cmd]) and not isinstance(flag, str)]
        foreign = [o for o, owner, flag in g['opts']
                   if not (owner is None or owner == cmd or owner in anc[cmd])]
        vec = [cmd]
        for o, flag in mine:
            vec += [o] if flag else [o, "v" + o]
        ctx.count("all_options_vectors")
        try:
            with contextlib.redirect_stderr(io.StringIO()), contextlib.redirect_stdout(io.StringIO()):
                ns = parse(ap, vec, len(vec) % 2 == 0)
            for o, flag in mine:
                if getattr(ns, o[2:].replace('-', '_'), "<missing>") != (True if flag else "v" + o):
                    problems.append(("accepted-option-not-in-namespace", {"argv": vec, "option": o}))
            for o, owner, flag in g['opts']:
                if o in foreign and not isinstance(flag, str) and hasattr(ns, o[2:].replace('-', '_')):
                    problems.append(("namespace-carries-option-of-unrelated-command", {"argv": vec, "option": o}))
        except SystemExit:
            problems.append(("inherited-option-rejected", {"argv": vec, "ancestors": sorted(anc[cmd])}))
        except Exception as err:
            problems.append(("parse-raises", {"argv": vec, "type": type(err).__name__}))
        if foreign:
            bad = vec + [foreign[len(vec) % len(foreign)]]
            try:
                with contextlib.redirect_stderr(io.StringIO()), contextlib.redirect_stdout(io.StringIO()):
                    parse(ap, bad, False)
                problems.append(("option-of-unrelated-command-accepted", {"argv": bad, "ancestors": sorted(anc[cmd])}))
            except SystemExit:
                pass
            except Exception as err:
                problems.append(("parse-raises", {"argv": bad, "type": type(err).__name__}))
        for std, want in ((["--color"], None), (["--no-color"], False), (["-v"], None),
                          (["--color=never", "-vv"], None), (["--color", "always"], None)):
            if g.get('flags', {}).get('_no_log') and any(x.startswith("-v") for x in std):
                continue        # (no standard verbosity option in this parser)
            ctx.count("std_option_vectors")
            try:
                with contextlib.redirect_stderr(io.StringIO()), contextlib.redirect_stdout(io.StringIO()):
                    ns = ap.parse_args([cmd] + std)
                if ns.command != cmd:
                    problems.append(("wrong-command-recorded", {"argv": [cmd] + std, "command": ns.command}))
                if want is False and ns.color is not False:
                    problems.append(("no-color-not-normalised", {"color": repr(ns.color)}))
                if std == ["-v"] and ns.verbose != 1:
                    problems.append(("verbosity-not-counted", {"verbose": repr(ns.verbose)}))
            except SystemExit:
                problems.append(("standard-option-rejected", {"argv": [cmd] + std}))
            except Exception as err:
                problems.append(("parse-raises", {"argv": [cmd] + std, "type": type(err).__name__}))
    # positional arguments that are not command names: the default command
    if positional:
        std_first = [] if g.get('flags', {}).get('_no_log') else ["-v", "-vv"]
        for first in ["help", "h", "--", "-", "", "x", "e", g['names'][0] + "x",
                      # (a value that is the name of a command in other letters is a value)
                      g['real'][0].upper(), g['real'][-1].capitalize(), g['real'][0].swapcase(),
                      # (a command name with a line end behind it - a line of a file used as an argument - is a value)
                      g['real'][0] + "\n", g['real'][-1] + "\r\n",
                      # (a standard option in front of a value that reads like a command: still no command name first)
                      "--no-color"] + std_first:
            if first in g['names']:
                continue      # (the name of an internal option set is recognised too - and refused as a command:
                              #  the repository's own tests pin that down)
            if first.startswith("-") and first not in ("-", "--"):
                ctx.count("standard_options_in_front_of_a_value_that_reads_like_a_command")
            for argv in ([first], [first, g['real'][-1]], [first, "--g-0"]):
                if first.startswith("-") and first not in ("-", "--") and len(argv) == 1:
                    continue
                ctx.count("positional_first_vectors")
                try:
                    with contextlib.redirect_stderr(io.StringIO()), contextlib.redirect_stdout(io.StringIO()):
                        ns = parse(ap, argv, len(first) % 2 == 1)
                    # after the end-of-options marker everything is positional
                    want_items = argv[1:] if first == "--" else [a for a in argv if a != "--g-0" and a not in
                                                                   ("--no-color", "-v", "-vv")]
                    if ns.command != exp_default:
                        problems.append(("wrong-command-recorded", {"argv": argv, "command": ns.command,
                                                                    "expected": exp_default}))
                    elif list(ns.items) != want_items:
                        problems.append(("positional-arguments-lost", {"argv": argv, "items": list(ns.items)}))
                except SystemExit:
                    problems.append(("arguments-without-command-name-rejected", {"argv": argv, "default": exp_default}))
                except Exception as err:
                    problems.append(("parse-raises", {"argv": argv, "type": type(err).__name__}))
        for cmd in g['real'][:2]:
            argv = [cmd, g['real'][-1], g['names'][0], "--g-0"]   # (argparse wants positionals together)
            try:
                with contextlib.redirect_stderr(io.StringIO()), contextlib.redirect_stdout(io.StringIO()):
                    ns = parse(ap, argv, False)
                if ns.command != cmd or list(ns.items) != [g['real'][-1], g['names'][0]]:
                    problems.append(("positional-arguments-lost", {"argv": argv, "items": list(ns.items),
                                                                   "command": ns.command}))
            except SystemExit:
                problems.append(("arguments-without-command-name-rejected", {"argv": argv}))
    # no arguments at all: the default command
    try:
        with contextlib.redirect_stderr(io.StringIO()), contextlib.redirect_stdout(io.StringIO()):
            ns = parse(ap, [], len(g['names']) % 2 == 0)
        ctx.count("default_command_vectors")
        if ns.command != exp_default:
            problems.append(("wrong-command-recorded", {"argv": [], "command": ns.command, "expected": exp_default}))
    except SystemExit as err:
        # (a parser built with _help_if_no_args prints its help for an empty command line and exits with 0)
        if not (g.get('flags', {}).get('_help_if_no_args') and err.code == 0):
            problems.append(("empty-argument-list-rejected", {"default": exp_default}))
    except Exception as err:
        problems.append(("parse-raises", {"argv": [], "type": type(err).__name__}))
    if len(g['names']) % 3 == 0 and not problems:
        required_common_option(ctx, g, exp_default, problems)
    for mech, detail in problems[:5]:
        ctx.violation(mech, detail, case)
    if has_diamond(g, anc):
        ctx.nontrivial(sig_of([g['cmds']]))


def required_common_option(ctx, g, exp_default, problems):
    """a second parser for the same commands whose only own option is common to all commands and REQUIRED: every
    command accepts it, and nothing is accepted without it"""
    try:
        with contextlib.redirect_stderr(io.StringIO()), contextlib.redirect_stdout(io.StringIO()):
            ap = ArgParser(commands=[tuple(c) if not isinstance(c, tuple) else c for c in g['cmds']],
                           default_command=g['dflt'], prog="t")
            ap.add_argument("--need", required=True)
    except (Exception, SystemExit) as err:
        problems.append(("acyclic-declaration-rejected", {"type": type(err).__name__, "msg": str(err)[:150],
                                                          "with": "a required common option"}))
        return
    for cmd in g['real'] + [None]:
        for given in (True, False):
            argv = ([] if cmd is None else [cmd]) + (["--need", "v"] if given else [])
            ctx.count("vectors_for_a_required_common_option")
            try:
                with contextlib.redirect_stderr(io.StringIO()), contextlib.redirect_stdout(io.StringIO()):
                    ns = ap.parse_args(list(argv))
                ok = True
            except SystemExit:
                ok = False
            except Exception as err:
                problems.append(("parse-raises", {"argv": argv, "type": type(err).__name__, "msg": str(err)[:100]}))
                return
            if ok != given:
                problems.append(("global-option-rejected" if given else "required-option-not-demanded", {"argv": argv}))
                return
            if ok and (ns.need != "v" or ns.command != (cmd or exp_default)):
                problems.append(("accepted-option-not-in-namespace", {"argv": argv, "command": ns.command}))
                return


def long_chain_case(ctx, n=1200):
    """a chain of n commands, each naming the one before as its parent: an option of the first is accepted by the
    last, an option from the middle by the later ones only"""
    ctx.evaluated()
    case = {"long_chain": n}
    try:
        with contextlib.redirect_stderr(io.StringIO()), contextlib.redirect_stdout(io.StringIO()):
            ap = ArgParser(commands=[("c0", "h")] + [("c%d:c%d" % (i, i - 1), "h") for i in range(1, n)], prog="t")
            ap.get_cmd_parser("c0").add_argument("--root", action="store_true")
            ap.get_cmd_parser("c%d" % (n // 2)).add_argument("--mid", action="store_true")
    except (Exception, SystemExit) as err:
        ctx.violation("acyclic-declaration-rejected", {"type": type(err).__name__, "msg": str(err)[:150], "chain": n}, case)
        return
    ctx.count("commands_in_one_long_chain", n)
    for argv, should in ((["c%d" % (n - 1), "--root", "--mid"], True), (["c%d" % (n // 2), "--mid", "--root"], True),
                         (["c%d" % (n // 2 - 1), "--mid"], False), (["c0", "--root"], True), (["c1", "--mid"], False)):
        try:
            with contextlib.redirect_stderr(io.StringIO()), contextlib.redirect_stdout(io.StringIO()):
                ap.parse_args(list(argv))
            ok = True
        except SystemExit:
            ok = False
        except Exception as err:
            ctx.violation("parse-raises", {"argv": argv, "type": type(err).__name__, "msg": str(err)[:100]}, case)
            continue
        ctx.count("command_option_decisions")
        if ok != should:
            ctx.violation("inherited-option-rejected" if should else "option-of-unrelated-command-accepted",
                          {"argv": argv, "chain": n}, case)


def run_shard(ctx):
    if ctx.shard == 0:
        long_chain_case(ctx)
    for i in range(ctx.cases):
        g = gen_graph(ctx.rng(i))
        judge(ctx, g, {"rng_key": ctx.rng_key(i), "declarations": [c[0] for c in g['cmds']]})
        if i < 2:
            ctx.sample({"declarations": [c[0] for c in g['cmds']], "default": g['dflt'],
                        "options": [[o, owner] for o, owner, _ in g['opts']]})


def replay(ctx, case):
    if case.get("long_chain"):
        long_chain_case(ctx, case["long_chain"])
        return
    judge(ctx, gen_graph(random.Random(case["rng_key"])), case)
