"""C03 Left-recursive grammars are rejected; accepted grammars always terminate."""
import contextlib
import io
import itertools
import resource
import sys

import pathlib

import vf
vf.use_repo()
from ak import llparser  # noqa: E402
from vf import gram, llmon  # noqa: E402
from vf.core import sig_of  # noqa: E402
from vf.checks.c01 import build_inputs  # noqa: E402

ID = "C03"
LEVEL = "exploration"
RULE = ('[later additions: symbols without alternatives; token-free cycles through 40-4000 distinct symbols and the same chains broken by a token; one productions description with a sequence template given to two parsers; an optional symbol that stands twice in the prefix hiding a recursion] '
        "three grammar families: (1) random grammars with the left-recursion-avoiding bias on and off; "
        "(2) prefix-group grammars; (3) targeted: a cycle X -> N1..Nk X hidden behind k=1..3 nullable "
        "symbols, generated under EVERY relative alphabetical order of the names of X and N1..Nk "
        "((k+1)! orders, enumerated), start symbol inside or outside the cycle, dict order shuffled; (4) the mirror "
        "family that must be ACCEPTED: right recursion X -> N1..Nk B X behind nullable symbols and a "
        "non-nullable B, under every relative name order of X, B, N1..Nk (30 orders); (5) LL(1) grammars "
        "to which a left-recursive symbol without any terminating alternative is added; (6) all 16 option "
        "sets of a ListProds template whose delimiter is a non-terminal (recursive iff item and delimiter "
        "can both be empty), both option sets of a ProdSequence with a member that can be empty, all 32 "
        "option sets of a MapProds whose key / assignment / value / delimiter are non-terminals; 6% of the "
        "random grammars also have a symbol with an empty production list. "
        "Oracle 1: the harness decides left recursion on the user's grammar by cycle search in the "
        "'can start with, behind nullable symbols' graph; constructor must raise GrammarIsRecursive iff a "
        "cycle exists, and nothing else (AssertionError is tolerated only for adjacent duplicate "
        "alternatives). Oracle 2 (termination restated as bounded progress): for an accepted grammar "
        "every parse must return a tree or raise ParsingError while a sys.monitoring hook on every push "
        "checks len(parse_stack) <= (tokens+2)*(symbols+2), a bound that is a theorem for grammars "
        "without left recursion. Non-trivial = left-recursive grammar whose cycle passes behind a "
        "nullable symbol, or accepted grammar with a nullable symbol in front of an alternative; "
        "distinct by grammar.")
ASSUMPTIONS = ["a parse exceeding 300000 loop steps is dropped as inconclusive, never judged",
               "address space of a shard is limited to 3 GiB so that a runaway parse cannot hurt the host"]
TIERS = {
    "quick": {"shards": 4, "cases": 1500, "timeout": 300},
    "thorough": {"shards": 16, "cases": 12000, "timeout": 3000},
}
FLOORS = {"quick": {"parses_raised_lexical_error": 800, "texts_with_a_character_no_token_matches": 1100,
                    "distinct_nontrivial": 2000, "left_recursive_rejected": 1500, "accepted_grammars": 2000,
                    "hidden_cycle_orders_seen": 62, "pushes_observed": 100000, "right_recursion_grammars_accepted": 800,
                    "long_cycles_rejected": 8, "long_chains_accepted": 8},
          "thorough": {"parses_raised_lexical_error": 3200, "texts_with_a_character_no_token_matches": 4500,
                       "distinct_nontrivial": 50000, "left_recursive_rejected": 40000,
                       "accepted_grammars": 50000, "hidden_cycle_orders_seen": 62, "right_recursion_grammars_accepted": 20000,
                       "pushes_observed": 3000000, "long_cycles_rejected": 30, "long_chains_accepted": 30}}
CEILINGS = {"quick": {"inconclusive_cases": 50}, "thorough": {"inconclusive_cases": 2000}}
LEVEL_TEXT = ("Runtime exploration: the constructor's verdict is compared with an independent cycle search on "
              "tens of thousands of grammars including every name-order permutation of hidden cycles, and "
              "every parse on an accepted grammar runs under a push hook (sys.monitoring PY_START on the "
              "parser's local _put_on_stack) asserting a stack bound that unbounded expansion must break "
              "first. 'Never loops' is not decidable by a finite run; it is restated as that bound plus a "
              "step budget whose overrun is reported as inconclusive.")
LEVEL_NOTE = ("The stack bound is proved on paper (two stack entries with the same symbol and start token "
              "imply a left-recursive cycle); termination proper is only observed (all parses ended), "
              "grammars bounded to <=4 non-terminals / <=7 alternatives, inputs <=14 tokens.")
TECHNIQUE = "runtime monitoring: cycle-search oracle + sys.monitoring stack-bound invariant on every push"

CTOR_LINE_BOUND = 500_000  # lines of the constructor's cycle search; observed maximum is reported

ORDERS = [p for k in (1, 2, 3) for p in itertools.permutations(range(k + 1))]
RR_ORDERS = [p for k in (1, 2) for p in itertools.permutations(range(k + 2))]


def make_case(ctx, rng, i):
    cfg_id = rng.randrange(len(llmon.TOKCFGS))
    cfg = llmon.TOKCFGS[cfg_id]
    terms = rng.sample(cfg.terminals, min(len(cfg.terminals), rng.choice([2, 3, 4, 4])))
    r = i % 5
    if r == 4:
        order = RR_ORDERS[(i // 5 + ctx.shard) % len(RR_ORDERS)]
        prods, start = gram.right_recursion_behind_nullables(rng, terms, order)
        kind = "right-recursion:" + "".join(map(str, order))
    elif r == 0:
        order = ORDERS[(i // 5 + ctx.shard) % len(ORDERS)]
        prods, start = gram.hidden_cycle_grammar(rng, terms, order)
        kind = "hidden-cycle:" + "".join(map(str, order))
    elif r == 1 and i % 15 == 1:
        for _ in range(8):
            prods = gram.gen_ll1_candidate(rng, terms)
            if not gram.left_recursion_cycle(prods) and gram.is_ll1(prods, 'E'):
                break
        prods, start = add_useless_left_recursive_symbol(rng, terms, prods), 'E'
        kind = "ll1-plus-useless-left-recursive-symbol"
    elif r == 1:
        prods, start = gram.gen_grammar(rng, terms, lr_bias=0.0, max_alts=rng.choice([3, 4, 6])), 'E'
        kind = "random-no-bias"
    elif r == 2:
        prods, start = gram.gen_grammar(rng, terms, max_alts=rng.choice([3, 4, 6])), 'E'
        prods = gram.shuffle_declaration_order(rng, prods)
        kind = "random"
    else:
        prods, start = gram.gen_prefix_group_grammar(rng, terms), 'E'
        if rng.random() < 0.5:
            # make it left recursive through a group
            nt = rng.choice(sorted(prods))
            prods[nt] = prods[nt] + [(nt, rng.choice(terms)), (nt, rng.choice(terms), rng.choice(terms))]
        kind = "prefix-groups"
    if kind.startswith("hidden-cycle") and rng.random() < 0.35:
        # a symbol of the grammar has a twin: another symbol with exactly the same alternatives (two kinds of items
        # written alike); the start symbol leads to the twin first
        x = rng.choice(sorted(prods, key=lambda n: (len(prods[n]) < 2, n))[:max(1, sum(len(v) >= 2 for v in prods.values()))])
        twin = rng.choice(["AA", "ZZ", x + "2", "A" + x])
        if twin not in prods and "Q0" not in prods:
            prods[twin] = list(prods[x])
            prods["Q0"] = [(twin, rng.choice(terms)), (start,)] if rng.random() < 0.5 else [(start, rng.choice(terms)), (twin,)]
            start = "Q0"
            kind = "hidden-cycle-with-a-twin-symbol:" + kind.split(":")[1]
    if rng.random() < 0.12 and cfg.kwargs.get('skip_tokens') is None and not kind.startswith("right-recursion"):
        # a production names a token that is skipped before parsing (it can never match; what stands in front of that
        # token is still expanded)
        nts = [n for n in sorted(prods) if any(len(a) >= 1 for a in prods[n])]
        if nts:
            nt = rng.choice(nts)
            k = rng.choice([j for j, a in enumerate(prods[nt]) if len(a) >= 1])
            alt = list(prods[nt][k])
            alt.insert(rng.randint(1, len(alt)), 'SPACE')
            prods[nt] = prods[nt][:k] + [tuple(alt)] + prods[nt][k + 1:]
            kind += "+skipped-token-in-a-production"
    if rng.random() < 0.06 and not kind.startswith(("hidden-cycle", "right-recursion")):
        # a symbol with an empty list of productions (legal: it simply never matches)
        free = [n for n in (['Z', 'Y', 'X'] if rng.random() < 0.5 else []) + gram.NT_NAMES + ['X', 'Y', 'Z'] if n not in prods]
        if free:
            prods[free[0]] = []
            r2 = rng.random()
            if r2 < 0.35:
                nt = rng.choice([n for n in prods if prods[n]])
                prods[nt] = prods[nt] + [(rng.choice(terms), free[0])]
            elif r2 < 0.7:
                # the symbol that never matches stands in FRONT of a recursive use: it cannot vanish, so this is no
                # left recursion
                nt = rng.choice([n for n in prods if prods[n]])
                prods[nt] = prods[nt] + [(free[0], nt)]
    return cfg_id, terms, prods, start, kind


LIST_TOK = r"(?P<SPACE>\s+)|(?P<BO>\[)|(?P<BC>\])|(?P<COMMA>,)|(?P<W>[a-z]+)|(?P<CO>\{)|(?P<CC>\})|(?P<COLON>:)"
LIST_SYN = {'BO': '[', 'BC': ']', 'COMMA': ',', 'W': 'w', 'CO': '{', 'CC': '}', 'COLON': ':'}


def run_list_template_case(ctx, mon, opts):
    """a ListProds whose delimiter is a NON-TERMINAL: left recursive (through the generated tail
    symbol) iff both the delimiter and the item can be empty"""
    item_nullable, delim_nullable, afd, optional = opts[:4]
    # the open bracket may be a non-terminal as well (possibly one that can be empty), and an item may
    # itself start with a list
    open_nt, open_nullable, item_starts_with_list = (tuple(opts[4:]) + (False, False, False))[:3]
    open_sym = 'OPEN' if open_nt else '['

    def user_productions():
        # a template object belongs to one parser: build new ones for every constructor call
        prods = {
            # (a second, unrelated template in the same grammar)
            'E': [('LIST',), ('M2',)],
            # (its keys are written as two words: the key of an entry is a tree node, not a string)
            'M2': llparser.MapProds('{', 'KEY', ':', 'w', ',', '}'),
            'KEY': [('w', 'w')],
            'LIST': llparser.ListProds(open_sym, 'ITEM', 'DELIM', ']', allow_final_delimiter=afd,
                                       optional=optional or None),
            'ITEM': ([('LIST', 'w')] if item_starts_with_list else []) + [('w',)] + ([None] if item_nullable else []),
            'DELIM': [(',',)] + ([None] if delim_nullable else []),
        }
        if open_nt:
            prods['OPEN'] = [('[',)] + ([None] if open_nullable else [])
        return prods
    # the productions the template stands for (documented in its doc string)
    expanded = {
        'E': [('LIST',), ('{', '}')],
        'LIST': [(open_sym, ']'), (open_sym, 'ITEM', 'TAIL', ']')] + ([()] if optional else []),
        'TAIL': [('DELIM', 'ITEM', 'TAIL')] + ([('DELIM',)] if afd else []) + [()],
        'ITEM': ([('LIST', 'w')] if item_starts_with_list else []) + [('w',)] + ([()] if item_nullable else []),
        'DELIM': [(',',)] + ([()] if delim_nullable else []),
    }
    if open_nt:
        expanded['OPEN'] = [('[',)] + ([()] if open_nullable else [])
    cycle = gram.left_recursion_cycle(expanded)
    case = {"kind": "list-template", "opts": list(opts)}
    for smart in (True, False):
        ctx.evaluated()
        mon.start_ctor(CTOR_LINE_BOUND)
        try:
            parser = llparser.LLParser(LIST_TOK, synonyms=LIST_SYN, productions=user_productions(),
                                       smart_factorization=smart)
        except llmon.CtorStepBoundExceeded:
            ctx.violation("left-recursion-check-exceeds-step-bound", {"opts": list(opts)}, case)
            continue
        except llparser.GrammarIsRecursive:
            if cycle is None:
                ctx.violation("non-recursive-grammar-rejected", {"template": "ListProds", "opts": list(opts)}, case)
            else:
                ctx.count("left_recursive_rejected")
            continue
        except llparser.GrammarError as err:
            ctx.violation("unexpected-grammar-error", {"msg": str(err)[-200:]}, case)
            continue
        except AssertionError as err:
            ctx.violation("constructor-assertion", {"template": "ListProds", "msg": str(err)[:150]}, case)
            continue
        except Exception as err:
            ctx.violation("constructor-raises-other-exception",
                          {"template": "ListProds", "type": type(err).__name__, "msg": str(err)[:120],
                           "cycle": cycle}, case)
            continue
        if cycle is not None:
            ctx.violation("left-recursive-grammar-accepted", {"template": "ListProds", "opts": list(opts),
                                                              "cycle": cycle}, case)
        ctx.count("accepted_grammars")
        for k_text, text in enumerate(("[]", "[w]", "[w, w]", "[w w]", "[,]", "[w,]", "[", "w", "[w,,w]", "", "w ]",
                                       "[[w] w, w]", "[w] w ]", "{}", "{w w: w}", "{w w: w, w w: w, w w: w}", "{w: w}",
                                       "{w w: w, w w: w}")):
            ctx.evaluated()
            mon.reset()
            mon.stack_bound = (len(text) + 3) * (len(parser.prods_map) + 2)
            try:
                # (every other text with the parser's trace switched on: the result is printed to the log)
                parser.parse(text, debug=bool(k_text % 2))
            except llparser.Error:
                pass
            except llmon.StackBoundExceeded as err:
                ctx.violation("parse-stack-grows-without-bound", {"text": text, "stack_len": int(str(err))}, case)
            except llmon.BudgetExceeded:
                ctx.inconclusive_note("step budget exceeded")
            except (Exception, MemoryError, RecursionError) as err:
                ctx.violation("parse-raises-other-exception", {"text": text, "type": type(err).__name__}, case)
            finally:
                mon.stack_bound = None
                ctx.count("pushes_observed", mon.pushes)
    ctx.nontrivial("list-template:" + repr(opts))


def run_template_case(ctx, mon, kind, opts):
    """ProdSequence with a member that can be empty / MapProds whose parts are non-terminals that can
    be empty: left recursive through the symbols the template generates"""
    if kind == "sequence":
        member_nullable, = opts

        def user_productions():
            return {'E': [('[', 'SEQ', ']')],
                    'SEQ': llparser.ProdSequence('w', 'OPT'),
                    'OPT': [(',',)] + ([None] if member_nullable else [])}
        expanded = {'E': [('[', 'SEQ', ']')], 'SEQ': [('ELEM', 'SEQ'), ()], 'ELEM': [('w',), ('OPT',)],
                    'OPT': [(',',)] + ([()] if member_nullable else [])}
        texts = ("[]", "[w]", "[w , w]", "[,]", "[", "")
    else:
        key_n, assign_n, val_n, delim_n, afd = opts

        def user_productions():
            return {'E': [('MAP',)],
                    'MAP': llparser.MapProds('[', 'KEY', 'ASSIGN', 'VAL', 'DELIM', ']', allow_final_delimiter=afd),
                    'KEY': [('w',)] + ([None] if key_n else []),
                    'ASSIGN': [(',',)] + ([None] if assign_n else []),
                    'VAL': [('w',)] + ([None] if val_n else []),
                    'DELIM': [(',',)] + ([None] if delim_n else [])}
        expanded = {'E': [('MAP',)], 'MAP': [('[', ']'), ('[', 'KV', 'ELEMENTS', ']')],
                    'ELEMENTS': [('DELIM', 'KV', 'ELEMENTS')] + ([('DELIM',)] if afd else []) + [()],
                    'KV': [('KEY', 'ASSIGN', 'VAL')],
                    'KEY': [('w',)] + ([()] if key_n else []), 'ASSIGN': [(',',)] + ([()] if assign_n else []),
                    'VAL': [('w',)] + ([()] if val_n else []), 'DELIM': [(',',)] + ([()] if delim_n else [])}
        texts = ("[]", "[w , w]", "[w,w,w,w]", "[,]", "[w]", "")
    cycle = gram.left_recursion_cycle(expanded)
    case = {"kind": "template-" + kind, "opts": list(opts)}
    for smart in (True, False):
        ctx.evaluated()
        mon.start_ctor(CTOR_LINE_BOUND)
        try:
            parser = llparser.LLParser(LIST_TOK, synonyms=LIST_SYN, productions=user_productions(),
                                       smart_factorization=smart)
        except llmon.CtorStepBoundExceeded:
            ctx.violation("left-recursion-check-exceeds-step-bound", {"template": kind, "opts": list(opts)}, case)
            continue
        except llparser.GrammarIsRecursive:
            if cycle is None:
                ctx.violation("non-recursive-grammar-rejected", {"template": kind, "opts": list(opts)}, case)
            else:
                ctx.count("left_recursive_rejected")
            continue
        except llparser.GrammarError as err:
            ctx.count("template_grammar_error(out of domain)")
            continue
        except Exception as err:
            ctx.violation("constructor-raises-other-exception",
                          {"template": kind, "type": type(err).__name__, "msg": str(err)[:120]}, case)
            continue
        if cycle is not None:
            ctx.violation("left-recursive-grammar-accepted", {"template": kind, "opts": list(opts), "cycle": cycle}, case)
        ctx.count("accepted_grammars")
        for text in texts:
            ctx.evaluated()
            mon.reset()
            mon.stack_bound = (len(text) + 3) * (len(parser.prods_map) + 2)
            try:
                parser.parse(text)
            except llparser.Error:
                pass
            except llmon.StackBoundExceeded as err:
                ctx.violation("parse-stack-grows-without-bound", {"text": text, "stack_len": int(str(err))}, case)
            except llmon.BudgetExceeded:
                ctx.inconclusive_note("step budget exceeded")
            except (Exception, MemoryError, RecursionError) as err:
                ctx.violation("parse-raises-other-exception", {"text": text, "type": type(err).__name__}, case)
            finally:
                mon.stack_bound = None
                ctx.count("pushes_observed", mon.pushes)
    ctx.nontrivial("template:" + kind + repr(opts))


def add_useless_left_recursive_symbol(rng, terms, prods):
    """a symbol without any terminating alternative (so its productions get no table entries)
    that is left recursive; the rest of the grammar stays as it is"""
    free = [n for n in gram.NT_NAMES + ['X', 'Y'] if n not in prods]
    x = free[0]
    t = rng.choice(terms)
    if rng.random() < 0.5 or len(free) < 2:
        prods[x] = [(x, t)] + ([(x, t, rng.choice(terms))] if rng.random() < 0.4 else [])
    else:
        y = free[1]
        prods[x] = [(y, t)]
        prods[y] = [(x, rng.choice(terms))]
    if rng.random() < 0.4:
        # referenced at the end of an existing alternative
        nt = rng.choice([n for n in prods if n not in (x,) and prods[n] and n in gram.NT_NAMES + ['E']])
        alts = list(prods[nt])
        k = rng.randrange(len(alts))
        if alts[k] and alts[k][0] in terms:
            alts[k] = alts[k] + (x,)
            prods[nt] = alts
    return prods


def run_case(ctx, mon, cfg_id, terms, prods, start, kind, inputs_spec=None, rng=None):
    cfg = llmon.TOKCFGS[cfg_id]
    cycle = gram.left_recursion_cycle(prods)
    nullables = gram.nullable_set(prods)
    base_case = {"cfg": cfg_id, "terms": terms, "start": start, "kind": kind,
                 "prods": {k: [list(a) for a in v] for k, v in prods.items()}, "inputs": []}
    gsig = sig_of(gram.fmt_grammar(prods))
    parsers = {}
    for smart in (True, False):
        ctx.evaluated()
        detail = {"smart_factorization": smart, "cycle": cycle}
        mon.start_ctor(CTOR_LINE_BOUND)
        try:
            given = prods
            wrapped = sorted(prods)[len(gsig) % len(prods)]
            if sum(map(ord, gsig)) % 4 == 1 and prods[wrapped]:
                # one symbol's alternatives are given through a template object the caller wrote himself (it only
                # generates the alternatives and leaves the result alone)
                given = dict(prods)
                given[wrapped] = llmon.VfAlternatives(prods[wrapped])
                ctx.count("grammars_with_a_template_written_by_the_caller")
            parsers[smart] = cfg.make_parser(given, start, smart_factorization=smart)
        except llmon.CtorStepBoundExceeded:
            ctx.violation("left-recursion-check-exceeds-step-bound",
                          dict(detail, lines=mon.ctor_lines, bound=CTOR_LINE_BOUND), base_case)
            continue
        except llparser.GrammarIsRecursive:
            if cycle is None:
                ctx.violation("non-recursive-grammar-rejected", detail, base_case)
            else:
                ctx.count("left_recursive_rejected")
            continue
        except llparser.GrammarError as err:
            ctx.violation("unexpected-grammar-error", dict(detail, msg=str(err)[-200:]), base_case)
            continue
        except AssertionError as err:
            if gram.has_adjacent_duplicates(prods):
                ctx.count("ctor_assert_adjacent_duplicates(out of domain)")
            else:
                ctx.violation("constructor-assertion", dict(detail, msg=str(err)[:200]), base_case)
            continue
        except RecursionError as err:
            ctx.violation("constructor-recursion-error", detail, base_case)
            continue
        except Exception as err:
            ctx.violation("constructor-raises-other-exception",
                          dict(detail, type=type(err).__name__, msg=str(err)[:120]), base_case)
            continue
        if cycle is not None:
            ctx.violation("left-recursive-grammar-accepted", detail, base_case)
    if cycle is not None:
        behind_nullable = any(s in nullables for s in cycle)
        if kind.startswith("hidden-cycle"):
            ctx.nontrivial("order:" + kind)
            ctx.count("hidden_cycle_grammars")
        if behind_nullable or kind.startswith("hidden-cycle"):
            ctx.nontrivial(gsig)
    if not parsers:
        return None
    ctx.count("accepted_grammars")
    if sum(map(ord, gsig)) % 3 == 0:
        # somebody prints the parser's description of itself (a read-only report) before the parser is used
        for parser in parsers.values():
            try:
                with contextlib.redirect_stdout(io.StringIO()):
                    parser.print_detailed_descr()
                ctx.count("parsers_described_before_use")
            except Exception as err:
                ctx.violation("describing-the-parser-raises", {"type": type(err).__name__, "msg": str(err)[:100]},
                              base_case)
    if cycle is None and any(alt and alt[0] in nullables for alts in prods.values() for alt in alts):
        ctx.nontrivial(gsig)
    if kind.startswith("right-recursion"):
        ctx.nontrivial("rr-order:" + kind)
        ctx.count("right_recursion_grammars_accepted")
    # ---- termination / bounded progress on accepted grammars (also on wrongly accepted ones)
    if inputs_spec is None:
        inputs_spec = []
        if cycle is None:
            tok_lists = build_inputs(rng, prods, start, terms)
        else:
            tok_lists = []
        for _ in range(3):
            tok_lists.append([rng.choice(terms) for _ in range(rng.randint(0, 9))])
        for toks in tok_lists:
            if any(t not in cfg.lexemes for t in toks):
                continue        # (a sentence with a token that is skipped cannot be written)
            toks, text, expected = cfg.render_checked(rng, toks, dense=rng.random() < 0.2)
            if toks is None:
                continue
            inputs_spec.append((toks, text, expected, False))
    for toks, text, expected, _as_lines in inputs_spec:
        for smart, parser in parsers.items():
            ctx.evaluated()
            mon.reset()
            mon.stack_bound = (len(toks) + 3) * (len(parser.prods_map) + 2)
            case = dict(base_case, inputs=[[toks, text, [list(x) for x in expected], False]])
            # the text is given in one of the documented forms: a string, a list of lines, any iterable of lines
            form = (len(text) + len(toks)) % 4
            src = text if form < 2 else text.split("\n") if form == 2 else iter(text.split("\n"))
            if form == 2 and len(text) % 3 == 0 and toks:
                # ... or an open text file: its lines keep their line ends (characters like any other: for a tokenizer
                # that knows no such character that is a lexical error - a parsing error like any other)
                src = io.StringIO(text + "\n")
                ctx.count("texts_read_from_a_file_object")
            if not toks and form == 3:
                src = iter([])          # ... also one that yields no line at all
            elif not toks and form == 2:
                src = []
            kw = {}
            if len(toks) % 3:
                # the input is named for the diagnostics: by a string or by the path object of the file it came from
                kw["src_name"] = "in/put.txt" if len(toks) % 3 == 1 else pathlib.PurePosixPath("in/put.txt")
            if len(text) % 6 == 4 and form < 2:
                # a character no token starts with, somewhere in the text: that is a lexical error
                cut = len(text) // 2
                src = text[:cut] + "\x01" + text[cut:]
                ctx.count("texts_with_a_character_no_token_matches")
            try:
                # (every fifth parse with the parser's own trace switched on: the messages go nowhere; every third
                # with the default clean-up of the result)
                with contextlib.redirect_stdout(io.StringIO()):
                    parser.parse(src, debug=(len(text) % 5 == 1), **({} if len(text) % 3 == 1 else {'do_cleanup': False}),
                                 **kw)
                ctx.count("parses_returned_tree")
                if len(text) % 4 == 2 and isinstance(src, str) and len(prods) > 1:
                    # the first half of the text is looked at as a fragment that starts at another symbol (the
                    # documented keyword): a tree or a parsing error - nothing else
                    nt = sorted(prods)[len(text) % len(prods)]
                    ctx.count("fragments_parsed_from_another_symbol")
                    try:
                        with contextlib.redirect_stdout(io.StringIO()):
                            parser.parse(text[:len(text) // 2], start_symbol_name=nt)
                    except llparser.Error:
                        pass
            except llparser.ParsingError:
                ctx.count("parses_raised_parsing_error")
            except llparser.LexicalError:
                ctx.count("parses_raised_lexical_error")
            except llmon.StackBoundExceeded as err:
                ctx.violation("parse-stack-grows-without-bound",
                              {"smart": smart, "stack_len": int(str(err)), "bound": mon.stack_bound,
                               "tokens": toks}, case)
            except llmon.BudgetExceeded:
                ctx.inconclusive_note("step budget exceeded")
            except (Exception, MemoryError, RecursionError) as err:
                ctx.violation("parse-raises-other-exception",
                              {"smart": smart, "type": type(err).__name__, "msg": str(err)[:120]}, case)
            finally:
                mon.stack_bound = None
                ctx.count("pushes_observed", mon.pushes)
                ctx.maxi("max_stack_len_seen", mon.max_stack)
                ctx.maxi("max_steps_seen", mon.steps)
    return inputs_spec


import logging  # noqa: E402
logging.getLogger(llparser.__name__).addHandler(logging.NullHandler())
logging.getLogger(llparser.__name__).propagate = False


def shared_helper_case(ctx):
    """one AnyTokenExcept object (a module-level constant of the caller) serves two grammars with different
    tokenizers; a terminal name of the first is a non-terminal of the second.  Neither grammar has a cycle."""
    any_but_semi = llparser.AnyTokenExcept(';')
    g1 = dict(tok=r"(?P<SPACE>\s+)|(?P<WORD>[a-z]+)|(?P<NUM>[0-9]+)|(?P<SEMI>;)", syn={'SEMI': ';'},
              prods=lambda: {'E': [('ITEM', 'E'), (';',)], 'ITEM': [any_but_semi]})
    g2 = dict(tok=r"(?P<SPACE>\s+)|(?P<A>a)|(?P<B>b)|(?P<SEMI>;)", syn={'A': 'a', 'B': 'b', 'SEMI': ';'},
              prods=lambda: {'E': [('NUM', ';')], 'NUM': [('ITEM', 'b'), ('a',)], 'ITEM': [any_but_semi],
                             'WORD': [('a', 'NUM')]})
    for order in ((g1, g2), (g2, g1)):
        for g in order:
            ctx.evaluated()
            case = {"kind": "shared-any-token-except"}
            try:
                parser = llparser.LLParser(g['tok'], synonyms=g['syn'], productions=g['prods']())
            except llparser.GrammarIsRecursive as err:
                ctx.violation("non-recursive-grammar-rejected", {"family": "shared AnyTokenExcept object",
                                                                 "msg": str(err)[-150:]}, case)
                continue
            except llparser.GrammarError:
                ctx.count("template_grammar_error(out of domain)")
                continue
            except Exception as err:
                ctx.violation("constructor-raises-other-exception", {"type": type(err).__name__,
                                                                     "msg": str(err)[:120]}, case)
                continue
            ctx.count("accepted_grammars")
            for text in ("a b ;", "x 1 ;", ";", "a ;", ""):
                try:
                    parser.parse(text)
                except llparser.Error:
                    pass
                except Exception as err:
                    ctx.violation("parse-raises-other-exception", {"text": text, "type": type(err).__name__}, case)
        any_but_semi = llparser.AnyTokenExcept(';')
        g1['prods'] = (lambda a=any_but_semi: {'E': [('ITEM', 'E'), (';',)], 'ITEM': [a]})
        g2['prods'] = (lambda a=any_but_semi: {'E': [('NUM', ';')], 'NUM': [('ITEM', 'b'), ('a',)], 'ITEM': [a],
                                               'WORD': [('a', 'NUM')]})


def shared_template_case(ctx):
    """one productions description with a sequence template in it is given to two parsers with different
    tokenizers; a token name of the first is an optional non-terminal of the second. Neither grammar has a token-free
    cycle (the package may refuse to use a template twice - but not with 'grammar is recursive')"""
    tok1 = r"(?P<SPACE>\s+)|(?P<WORD>[a-z]+)|(?P<SEMI>;)"
    tok2 = r"(?P<SPACE>\s+)|(?P<ID>[a-z]+)|(?P<SEMI>;)"

    def common():
        return {'E': [('SEQ', 'SEMI')], 'SEQ': llparser.ProdSequence(llparser.AnyTokenExcept('SEMI'))}

    def second(desc):
        prods = dict(desc)
        prods['HEAD'] = [('WORD', 'E')]
        prods['WORD'] = [('ID',), None]
        return llparser.LLParser(tok2, productions=prods, start_symbol_name='HEAD')

    for shared in (False, True):
        if shared and sys.flags.optimize:
            # the package forbids the second use with an assert statement: without assert statements the second use
            # is a use outside the package's contract
            ctx.count("template_used_twice_without_asserts(out of domain)")
            continue
        ctx.evaluated()
        case = {"kind": "shared-sequence-template"}
        desc = common()
        try:
            if shared:
                llparser.LLParser(tok1, productions=dict(desc)).parse("a b c ;")
            parser = second(desc)
        except llparser.GrammarIsRecursive as err:
            ctx.violation("non-recursive-grammar-rejected", {"family": "productions description used for a second parser",
                                                             "used_before": shared, "msg": str(err)[-150:]}, case)
            continue
        except (llparser.GrammarError, AssertionError):
            ctx.count("template_used_twice_refused(out of domain)")
            continue
        except Exception as err:
            ctx.violation("constructor-raises-other-exception", {"type": type(err).__name__, "msg": str(err)[:120]}, case)
            continue
        ctx.count("accepted_grammars")
        try:
            parser.parse("a b c ;")
        except llparser.Error:
            pass
        except Exception as err:
            ctx.violation("parse-raises-other-exception", {"text": "a b c ;", "type": type(err).__name__}, case)


def long_cycle_case(ctx, mon, n, broken_at=None):
    """a token-free cycle through n distinct symbols (S0 -> S1 x | a, S1 -> S2 x | a, ..., S(n-1) -> S0 x | a); with
    `broken_at` one link of the chain starts with a token instead, and the grammar has no cycle"""
    prods = {}
    for k in range(n):
        nxt = "S%d" % ((k + 1) % n)
        prods["S%d" % k] = [(nxt, 'x') if k != broken_at else ('y', nxt, 'x'), ('a',)]
    tok = r"(?P<SPACE>\s+)|(?P<A>a)|(?P<X>x)|(?P<Y>y)"
    case = {"kind": "long-cycle", "n": n, "broken_at": broken_at}
    ctx.evaluated()
    # (the search is quadratic in the length of such a chain - about 5 n^2 executed lines; eight times that is the
    # bound a search that does not come to an end runs into)
    bound = 40 * n * n + 100_000
    mon.start_ctor(bound)
    try:
        llparser.LLParser(tok, synonyms={'A': 'a', 'X': 'x', 'Y': 'y'}, productions=prods, start_symbol_name='S0')
    except llmon.CtorStepBoundExceeded:
        ctx.violation("left-recursion-check-exceeds-step-bound", {"lines": mon.ctor_lines, "bound": bound, "symbols": n}, case)
        return
    except llparser.GrammarIsRecursive:
        if broken_at is not None:
            ctx.violation("non-recursive-grammar-rejected", {"family": "long chain", "symbols": n}, case)
        else:
            ctx.count("long_cycles_rejected")
        return
    except llparser.GrammarError as err:
        ctx.violation("unexpected-grammar-error", {"msg": str(err)[-200:], "symbols": n}, case)
        return
    except RecursionError:
        ctx.violation("constructor-recursion-error", {"symbols": n}, case)
        return
    except Exception as err:
        ctx.violation("constructor-raised-something-else", {"type": type(err).__name__, "msg": str(err)[-200:],
                                                            "symbols": n}, case)
        return
    finally:
        # (the search is quadratic in the length of such a chain: reported on its own, without a bound)
        ctx.maxi("max_lines_of_cycle_search_in_a_long_chain", mon.ctor_lines)
        mon.ctor_lines = 0
    if broken_at is None:
        ctx.violation("left-recursive-grammar-accepted", {"family": "long cycle", "symbols_in_the_cycle": n}, case)
    else:
        ctx.count("long_chains_accepted")


def run_shard(ctx):
    resource.setrlimit(resource.RLIMIT_AS, (3 << 30, 3 << 30))
    mon = llmon.ParseMonitor()
    orders = set()
    try:
        for n in ((40, 255, 256, 257, 300, 700) if ctx.shard == 0 else (ctx.shard * 97 + 150, ctx.shard * 211 + 900)):
            long_cycle_case(ctx, mon, n)
            long_cycle_case(ctx, mon, n, broken_at=n // 3)
        if ctx.shard == 0:
            shared_helper_case(ctx)
            shared_template_case(ctx)
            for opts in itertools.product((False, True), repeat=7):
                if opts[5] and not opts[4]:
                    continue    # (a terminal bracket cannot be empty)
                run_list_template_case(ctx, mon, opts)
            for opts in itertools.product((False, True), repeat=1):
                run_template_case(ctx, mon, "sequence", opts)
            for opts in itertools.product((False, True), repeat=5):
                run_template_case(ctx, mon, "map", opts)
        for i in range(ctx.cases):
            rng = ctx.rng(i)
            cfg_id, terms, prods, start, kind = make_case(ctx, rng, i)
            ctx.count("family_" + kind.split(":")[0].split("+")[0].replace("-with-a-twin-symbol", ""))
            if kind.startswith(("hidden-cycle", "right-recursion")):
                orders.add(kind.split("+")[0].replace("-with-a-twin-symbol", ""))
            if "twin" in kind:
                ctx.count("grammars_with_twin_symbols")
            if "skipped-token" in kind:
                ctx.count("grammars_with_a_skipped_token_in_a_production")
            run_case(ctx, mon, cfg_id, terms, prods, start, kind, rng=rng)
            if i in (0, 1, 2):
                ctx.sample({"family": kind, "grammar": gram.fmt_grammar(prods), "start": start,
                            "left_recursive_cycle": gram.left_recursion_cycle(prods)})
    finally:
        mon.start_ctor(None)
        ctx.maxi("max_lines_of_cycle_search_seen", mon.max_ctor_lines)
        mon.close()
    ctx.maxi("max_hidden_cycle_orders_in_one_shard", len(orders))
    ctx.counters["hidden_cycle_orders_seen"] = len(orders) if ctx.shard == 0 else 0


def replay(ctx, case):
    mon = llmon.ParseMonitor()
    try:
        if case.get("kind") == "shared-any-token-except":
            shared_helper_case(ctx)
            return
        if case.get("kind") == "shared-sequence-template":
            shared_template_case(ctx)
            return
        if case.get("kind") == "long-cycle":
            long_cycle_case(ctx, mon, case["n"], case.get("broken_at"))
            return
        if case.get("kind") == "list-template":
            run_list_template_case(ctx, mon, tuple(case["opts"]))
            return
        if str(case.get("kind", "")).startswith("template-"):
            run_template_case(ctx, mon, case["kind"][len("template-"):], tuple(case["opts"]))
            return
        prods = {k: [tuple(a) for a in v] for k, v in case["prods"].items()}
        run_case(ctx, mon, case["cfg"], case["terms"], prods, case["start"], case["kind"],
                 inputs_spec=case["inputs"] or None, rng=ctx.rng(0))
    finally:
        mon.close()
