"""C01 Every parse result is a valid derivation of the user's grammar."""
import os
import shutil
import tempfile

import vf
vf.use_repo()
from ak import llparser  # noqa: E402
from vf import gram, llmon  # noqa: E402
from vf.core import sig_of  # noqa: E402

ID = "C01"
LEVEL = "exploration"
RULE = ('[later additions: the shards run in a scratch directory where every fifth plain text is also the NAME of a file holding another text; skipped names that are synonym keys; lexemes with empty lines inside multi-line tokens] '
        "random grammars (1-4 non-terminals with shuffled names, 1-4 ordered alternatives of length "
        "0-5, 45% of alternatives copy a prefix of an earlier alternative -> common / nested-common "
        "prefix groups with nullable remainders) over three tokenizer configurations (synonyms; "
        "keywords+comments+quoted strings; explicit skip_tokens with COMMENT as a grammar token), both "
        "smart_factorization values; inputs: random derivations, single-token edits of them, random "
        "token strings, rendered with random skipped whitespace/newlines/comments, as str or list of "
        "lines; two inputs per grammar are parsed with another non-terminal as explicit start symbol. Every returned raw tree is validated against the user's productions and the generated "
        "token list; every accepted text must be an Earley-sentence. Non-trivial = the parser "
        "factorized the grammar (suffix symbols exist) and this parse rolled back at least once; "
        "distinct by (grammar, token names).")
ASSUMPTIONS = ["expected leaves are the (name, value) pairs the harness generated the text from",
               "parses that exceed 300000 loop steps are dropped as inconclusive (exponential "
               "backtracking is legal)"]
TIERS = {
    "quick": {"shards": 4, "cases": 1500, "timeout": 300},
    "thorough": {"shards": 16, "cases": 12000, "timeout": 3000},
}
FLOORS = {"quick": {"texts_read_from_a_file_object": 1600,
                    "parsers_with_other_multi_line_tokens_built_in_between": 300,
                    "parses_started_while_another_text_of_the_same_parser_is_read": 3000,
                    "distinct_nontrivial": 700, "trees_validated": 20000, "rollbacks": 10000,
                    "grammars_with_suffix_symbols": 1500},
          "thorough": {"texts_read_from_a_file_object": 6600,
                       "parsers_with_other_multi_line_tokens_built_in_between": 1200,
                       "parses_started_while_another_text_of_the_same_parser_is_read": 12000,
                       "distinct_nontrivial": 5000, "trees_validated": 80000, "rollbacks": 100000,
                       "grammars_with_suffix_symbols": 4000}}
LEVEL_TEXT = ("Runtime exploration with an executable oracle: thousands of generated grammars x inputs are "
              "parsed by the real LLParser under a sys.monitoring observer (roll-backs, pushes); every "
              "tree returned before cleanup is checked node by node against the user's productions and "
              "the leaves against the generated token list, and acceptance is cross-checked with an "
              "independent Earley recogniser. The property quantifies over all grammars and inputs, so "
              "only sampling is possible; the generator is biased to the shapes the property names.")
LEVEL_NOTE = ("Trusts the harness' Earley recogniser and tree validator (both < 60 lines). Grammars are "
              "bounded (<=4 non-terminals, <=4 alternatives, <=5 symbols), inputs <=14 tokens; templates "
              "(ListProds etc.) are covered by C05, not here.")
TECHNIQUE = "runtime monitoring: derivation validator + Earley oracle over generated grammars, sys.monitoring counters"


def build_inputs(rng, prods, start, terms):
    inputs = []
    for _ in range(6):
        snt = gram.gen_sentence(prods, rng, start)
        if snt is not None:
            inputs.append(snt)
            m = list(snt)
            if m and rng.random() < 0.7:
                op = rng.choice(['del', 'ins', 'sub'])
                i = rng.randrange(len(m))
                if op == 'del':
                    del m[i]
                elif op == 'ins':
                    m.insert(i, rng.choice(terms))
                else:
                    m[i] = rng.choice(terms)
                inputs.append(m)
    for _ in range(3):
        inputs.append([rng.choice(terms) for _ in range(rng.randint(0, 5))])
    return inputs


import logging  # noqa: E402
logging.getLogger(llparser.__name__).addHandler(logging.NullHandler())
logging.getLogger(llparser.__name__).propagate = False


def make_case(rng):
    cfg_id = rng.randrange(len(llmon.TOKCFGS))
    cfg = llmon.TOKCFGS[cfg_id]
    terms = rng.sample(cfg.terminals, min(len(cfg.terminals), rng.choice([2, 3, 4, 4])))
    if rng.random() < 0.08 and len(terms) >= 2:
        prods = gram.gen_nullable_led_grammar(rng, terms)
        return cfg_id, terms, gram.shuffle_declaration_order(rng, prods)
    if rng.random() < 0.06 and len(terms) >= 3:
        prods = gram.gen_prefix_divergence_grammar(rng, terms)
        return cfg_id, terms, gram.shuffle_declaration_order(rng, prods)
    if rng.random() < 0.35:
        if len(cfg.terminals) >= 8:
            terms = rng.sample(cfg.terminals, rng.choice([4, 5, 6]))
        prods = gram.gen_prefix_group_grammar(rng, terms)
    else:
        prods = gram.gen_grammar(rng, terms, max_alts=rng.choice([3, 4, 4, 6, 7]))
    prods = gram.shuffle_declaration_order(rng, prods)
    return cfg_id, terms, prods


_LINES = []


def _reentrant_lines(ctx, parser, lines):
    for k, line in enumerate(lines):
        if k % 2 == 0:
            try:
                parser.parse(lines[-1] + " " + lines[0], do_cleanup=False)
            except llmon.BudgetExceeded:
                raise
            except Exception:
                pass
            ctx.count("parses_started_while_another_text_of_the_same_parser_is_read")
        yield line


def judge_parse(ctx, mon, cfg, parser, prods, start, toks, text, expected, smart, as_lines, case,
                explicit_start=None):
    """parse one text; returns True/False (accepted?) or None (dropped)"""
    mon.reset()
    mon.stack_bound = None
    kw = {}
    if explicit_start is not None:
        kw["start_symbol_name"] = explicit_start
        start = explicit_start
        ctx.count("parses_with_explicit_start_symbol")
    if len(text) % 7 == 3:
        # the parser is asked to log what it does (the messages themselves go nowhere)
        kw["debug"] = True
        ctx.count("parses_with_debug_logging")
    if as_lines:
        # (the caller keeps ONE list object for its lines and fills it anew for every text)
        _LINES[:] = text.split("\n")
    try:
        # (lines come as the list or, every other time, as a one-shot iterator over it)
        src = text if not as_lines else _LINES if len(text) % 2 else iter(_LINES)
        if as_lines and len(text) % 4 == 3:
            # ... or as a generator that, between two lines, uses the SAME parser for something else (a caller
            # that checks an included fragment while the outer text is being read)
            src = _reentrant_lines(ctx, parser, list(_LINES))
        if as_lines and len(text) % 5 == 4:
            # ... or as an open text file: the lines carry their terminators, which are characters like any other
            # (inside a multi-line token the terminator stays, and the lines of a token are joined by a line break)
            import io
            src = io.StringIO(text)
            expected = [(n, v.replace("\n", "\n\n") if isinstance(v, str) else v) for n, v in expected]
            ctx.count("texts_read_from_a_file_object")
        tree = parser.parse(src, do_cleanup=False, **kw)
    except llparser.ParsingError:
        ctx.count("rejected")
        return False
    except llmon.BudgetExceeded:
        ctx.inconclusive_note("step budget exceeded")
        return None
    except Exception:
        ctx.count("other_exception(judged by C03)")
        return None
    finally:
        ctx.count("rollbacks", mon.rollbacks)
        ctx.count("pushes", mon.pushes)
    ctx.count("trees_validated")
    errs, leaves = llmon.validate_tree(tree, prods, start)
    if errs:
        ctx.violation(errs[0][0], errs[:3], case)
    if leaves != expected:
        ctx.violation("leaves-differ-from-tokens", {"leaves": leaves[:20], "tokens": expected[:20]}, case)
    if not gram.earley(prods, start, toks):
        ctx.violation("accepted-non-sentence", {"tokens": toks}, case)
    if parser._suffix_symbols and mon.rollbacks > 0:
        ctx.nontrivial(sig_of([gram.fmt_grammar(prods), toks, smart]))
    return True


def add_any_token_except(rng, cfg, prods):
    """one symbol gets the pseudo production AnyTokenExcept(...): `prods` receives the single-token productions
    it stands for (one per terminal of the tokenizer that is not excluded); returns (symbol, excluded)"""
    sym = rng.choice(sorted(prods))
    have = {a[0] for a in prods[sym] if len(a) == 1}
    excluded = sorted(set(rng.sample(cfg.terminals, rng.randint(0, len(cfg.terminals) - 1))) | (have & set(cfg.terminals)))
    added = [(t,) for t in cfg.terminals if t not in excluded]
    also = None
    if len(added) >= 2 and rng.random() < 0.4:
        # the helper object is of a class of the application that overrides the documented expansion method: one
        # more token is left out
        also = added[rng.randrange(len(added))][0]
        added = [a for a in added if a[0] != also]
    if not added:
        return None
    prods[sym] = list(prods[sym]) + added
    return [sym, excluded] + ([also] if also is not None else [])


def ctor_productions(cfg, prods, any_spec):
    """what the constructor gets: the productions, the expansion replaced by the AnyTokenExcept object"""
    if not any_spec:
        text = gram.fmt_grammar(prods)
        if len(text) % 4 == 1:
            # one symbol's alternatives are given through a template object the caller wrote himself
            sym = sorted(prods)[len(text) % len(prods)]
            out = dict(prods)
            out[sym] = llmon.VfAlternatives(prods[sym])
            return out
        return prods
    sym, excluded = any_spec[:2]
    also = any_spec[2] if len(any_spec) > 2 else None
    n_added = len([t for t in cfg.terminals if t not in excluded and t != also])
    out = {k: list(v) for k, v in prods.items()}
    # (such a helper object is typically a module-level constant of the caller: one object per exclusion
    # list serves every grammar and every tokenizer of this process)
    helper = _ANY_EXCEPT.setdefault((also,) + tuple(excluded), llparser.AnyTokenExcept(*excluded) if also is None
                                    else AnyTokenButOneMore(also, *excluded))
    out[sym] = out[sym][:len(out[sym]) - n_added] + [helper]
    return out


_ANY_EXCEPT = {}


class AnyTokenButOneMore(llparser.AnyTokenExcept):
    """the application's own flavour of the helper: its expansion leaves out one more token"""

    def __init__(self, also, *tokens):
        super().__init__(*tokens)
        self.vf_also = also

    def get_tokens(self, *args, **kwargs):
        return [t for t in super().get_tokens(*args, **kwargs) if t != self.vf_also]


def run_case(ctx, mon, cfg_id, terms, prods, inputs_spec=None, rng=None, any_spec=None):
    cfg = llmon.TOKCFGS[cfg_id]
    start = 'E'
    if gram.left_recursion_cycle(prods):
        ctx.count("grammars_left_recursive(skipped)")
        return
    parsers = {}
    if any_spec:
        ctx.count("grammars_with_AnyTokenExcept")
    for smart in (True, False):
        try:
            parsers[smart] = cfg.make_parser(ctor_productions(cfg, prods, any_spec), start,
                                             smart_factorization=smart)
        except AssertionError:
            ctx.count("ctor_assert(out of domain)")
        except llparser.GrammarError:
            ctx.count("ctor_grammar_error(judged by C03)")
    if not parsers:
        return
    if cfg.kwargs.get('span_matchers'):
        try:
            llmon.build_decoy(cfg)
        except Exception:
            ctx.count("decoy_parser_rejected(judged by C02)")
        ctx.count("parsers_with_other_multi_line_tokens_built_in_between")
    ctx.count("grammars")
    if any(p._suffix_symbols for p in parsers.values()):
        ctx.count("grammars_with_suffix_symbols")
    if parsers.get(True) and parsers.get(False) and (
            set(parsers[True].prods_map) != set(parsers[False].prods_map)):
        ctx.count("grammars_where_smart_undo_changed_something")
    if inputs_spec is None:
        inputs_spec = []
        for toks in build_inputs(rng, prods, start, terms):
            toks, text, expected = cfg.render_checked(rng, toks, dense=rng.random() < 0.2)
            if toks is None:
                continue
            inputs_spec.append((toks, text, expected, rng.random() < 0.3))
        # the optional start symbol of parse(): sentences of another non-terminal
        others = [nt for nt in prods if nt != start]
        for _ in range(2 if others else 0):
            nt = rng.choice(others)
            snt = gram.gen_sentence(prods, rng, nt)
            if snt is not None:
                snt, text, expected = cfg.render_checked(rng, snt, dense=rng.random() < 0.2)
                if snt is None:
                    continue
                inputs_spec.append((snt, text, expected, False, nt))
    if rng is not None and cfg.name == "letters+synonyms":
        # a part of a sentence is hidden in an end-of-line comment, behind a character that some
        # line-splitting functions (not '\n'.split) treat as a line break: the comment must still
        # hide it. Only used when the text is a sentence with AND without the hidden part.
        for _ in range(3):
            snt = gram.gen_sentence(prods, rng, start)
            if not snt or len(snt) < 2:
                continue
            i = rng.randrange(0, len(snt))
            j = rng.randrange(i + 1, len(snt) + 1)
            shown = snt[:i] + snt[j:]
            if not gram.earley(prods, start, shown):
                continue
            sep = rng.choice(["\x0c", "\x0b", "\x1c", "\u2028", "\x85", "\r"])
            text = " ".join(snt[:i]) + " //x" + sep + " ".join(snt[i:j]) + "\n" + " ".join(snt[j:])
            inputs_spec.append((shown, text, [(t, t) for t in shown], False))
            ctx.count("sentences_with_a_part_hidden_in_a_comment")
    plain_texts = [it[1] for it in inputs_spec if len(it) < 5 or it[4] is None]
    for spec_item in inputs_spec:
        toks, text, expected, as_lines = spec_item[:4]
        explicit = spec_item[4] if len(spec_item) > 4 else None
        expected = [tuple(x) for x in expected]
        file_content = spec_item[5] if len(spec_item) > 5 else None
        if rng is not None and len(spec_item) < 5 and not as_lines and len(text) % 5 == 2 and usable_as_file_name(text):
            # the working directory happens to hold a file whose NAME reads like the text (another text of this
            # grammar is in it): what is parsed is the text
            others = [t for t in plain_texts if t != text]
            file_content = others[len(text) % len(others)] if others else text + "\n" + text
        if file_content is not None:
            try:
                with open(text, "x", encoding="utf-8") as f:
                    f.write(file_content)
                ctx.count("texts_that_are_also_the_name_of_a_file")
            except OSError:
                file_content = None
        for smart, parser in parsers.items():
            ctx.evaluated()
            case = {"cfg": cfg_id, "terms": terms, "prods": {k: [list(a) for a in v] for k, v in prods.items()},
                    "any_token_except": any_spec,
                    "inputs": [[toks, text, [list(x) for x in expected], as_lines, explicit, file_content]]}
            judge_parse(ctx, mon, cfg, parser, prods, start, toks, text, expected, smart, as_lines, case, explicit)
        if file_content is not None:
            os.remove(text)
    return inputs_spec


def usable_as_file_name(text):
    return 0 < len(text.encode()) < 200 and "/" not in text and "\x00" not in text and text not in (".", "..")


def in_scratch_directory(fn):
    """the checks run in an empty directory of their own (some texts are made the name of a file there)"""
    def wrapped(ctx, *args):
        old = os.getcwd()
        scratch = tempfile.mkdtemp(prefix="vf-c01-")
        os.chdir(scratch)
        try:
            return fn(ctx, *args)
        finally:
            os.chdir(old)
            shutil.rmtree(scratch, ignore_errors=True)
    return wrapped


KW_TOK = r"(?P<SPACE>\s+)|(?P<WORD>[a-z0-9]+)"


def many_prefix_groups_case(ctx, n_groups=120):
    """one symbol with more than a hundred groups of alternatives that share a two-symbol prefix (a command language:
    'k17 <word> a' / 'k17 <word> b' for 120 command words): whatever the parser calls its helper symbols, none of them is
    in the tree"""
    keywords = {('WORD', 'k%d' % i): 'K%d' % i for i in range(n_groups)}
    keywords.update({('WORD', 'a'): 'A', ('WORD', 'b'): 'B'})
    prods = {'E': [alt for i in range(n_groups) for alt in (('K%d' % i, 'WORD', 'A'), ('K%d' % i, 'WORD', 'B'))]}
    for smart in (True, False):
        ctx.evaluated()
        case = {"kind": "many-prefix-groups", "groups": n_groups, "smart": smart}
        try:
            parser = llparser.LLParser(KW_TOK, keywords=dict(keywords), productions={k: list(v) for k, v in prods.items()},
                                       smart_factorization=smart)
        except Exception as err:
            ctx.violation("constructor-raises", {"type": type(err).__name__, "msg": str(err)[:150]}, case)
            continue
        for i in (0, 7, 99, 100, 101, n_groups - 1):
            for last in ('a', 'b'):
                text = "k%d  w%d %s" % (i, i, last)
                try:
                    tree = parser.parse(text, do_cleanup=False)
                except Exception as err:
                    ctx.violation("other-exception-on-a-sentence", {"text": text, "type": type(err).__name__,
                                                                    "msg": str(err)[:150]}, case)
                    continue
                ctx.count("sentences_of_a_grammar_with_120_prefix_groups")
                errs, leaves = llmon.validate_tree(tree, prods, 'E')
                if errs:
                    ctx.violation(errs[0][0], errs[:3], dict(case, text=text))
                if leaves != [('K%d' % i, 'k%d' % i), ('WORD', 'w%d' % i), (last.upper(), last)]:
                    ctx.violation("leaves-differ-from-tokens", {"leaves": leaves, "text": text}, case)


def sequence_backtracking_case(ctx):
    """a sequence template that is read, given back and read again from a LATER token: 'x a b c end2' first tries
    P -> X ITEMS END1 (the sequence takes a b c, END1 fails), then P -> X WORD ITEMS END2 (the sequence takes b c)"""
    keywords = {('WORD', 'x'): 'X', ('WORD', 'end1'): 'END1', ('WORD', 'end2'): 'END2'}
    seq_alts = [tuple(['WORD'] * k) for k in range(0, 9)]
    model = {'P': [('X', 'ITEMS', 'END1'), ('X', 'WORD', 'ITEMS', 'END2'), ('X', 'WORD', 'WORD', 'ITEMS', 'END1', 'END2')],
             'ITEMS': seq_alts}
    for smart in (True, False):
        ctx.evaluated()
        case = {"kind": "sequence-read-again", "smart": smart}
        try:
            parser = llparser.LLParser(KW_TOK, keywords=dict(keywords), smart_factorization=smart, start_symbol_name='P',
                                       productions={'P': list(model['P']), 'ITEMS': llparser.ProdSequence('WORD')})
        except Exception as err:
            ctx.violation("constructor-raises", {"type": type(err).__name__, "msg": str(err)[:150]}, case)
            continue
        for text in ("x end1", "x a end1", "x a b c end1", "x a end2", "x a b c end2", "x a b c d e end2",
                     "x a b end1 end2", "x a b c d end1 end2", "x a b c end2", "x a end1"):
            try:
                tree = parser.parse(text, do_cleanup=False)
            except llparser.ParsingError:
                ctx.count("rejected")       # (an ordered-choice parser may give up on a sentence: not C01's business)
                continue
            except Exception as err:
                ctx.violation("other-exception-on-a-sentence", {"text": text, "type": type(err).__name__,
                                                                "msg": str(err)[:150]}, case)
                continue
            ctx.count("sentences_whose_sequence_is_read_again_from_a_later_token")
            errs, leaves = llmon.validate_tree(tree, model, 'P')
            if errs:
                ctx.violation(errs[0][0], errs[:3], dict(case, text=text))
            want = [(keywords.get(('WORD', w), 'WORD'), w) for w in text.split()]
            if leaves != want:
                ctx.violation("leaves-differ-from-tokens", {"leaves": leaves, "tokens": want, "text": text}, case)


@in_scratch_directory
def run_shard(ctx):
    mon = llmon.ParseMonitor()
    if ctx.shard == 0:
        many_prefix_groups_case(ctx)
    sequence_backtracking_case(ctx)
    try:
        for i in range(ctx.cases):
            rng = ctx.rng(i)
            cfg_id, terms, prods = make_case(rng)
            if rng.random() < 0.08 and len(prods) > 1 and '' not in llmon.TOKCFGS[cfg_id].terminals:
                # one of the symbols has the empty name (names are the user's business: any string will do)
                old = rng.choice(sorted(n for n in prods if n != 'E'))
                prods = {('' if k == old else k): [tuple('' if x == old else x for x in alt) for alt in alts]
                         for k, alts in prods.items()}
                ctx.count("grammars_with_a_symbol_of_the_empty_name")
            any_spec = None
            if rng.random() < 0.15 and "SPACE" not in llmon.TOKCFGS[cfg_id].terminals:
                any_spec = add_any_token_except(rng, llmon.TOKCFGS[cfg_id], prods)
                terms = list(llmon.TOKCFGS[cfg_id].terminals)
            spec = run_case(ctx, mon, cfg_id, terms, prods, rng=rng, any_spec=any_spec)
            if spec and i % 50 == 0:
                ctx.sample({"tokenizer": llmon.TOKCFGS[cfg_id].name, "grammar": gram.fmt_grammar(prods),
                            "text": spec[0][1], "tokens": spec[0][0]})
    finally:
        mon.close()


@in_scratch_directory
def replay(ctx, case):
    if case.get("kind") == "many-prefix-groups":
        many_prefix_groups_case(ctx, case["groups"])
        return
    if case.get("kind") == "sequence-read-again":
        sequence_backtracking_case(ctx)
        return
    mon = llmon.ParseMonitor()
    try:
        prods = {k: [tuple(a) for a in v] for k, v in case["prods"].items()}
        run_case(ctx, mon, case["cfg"], case["terms"], prods, inputs_spec=case["inputs"],
                 any_spec=case.get("any_token_except"))
    finally:
        mon.close()
