"""C08 Colored text behaves exactly like the underlying string."""
import sys

import vf
vf.use_repo()
from ak.color import CHText, ColorFmt  # noqa: E402
from vf import sgr  # noqa: E402
from vf.core import sig_of  # noqa: E402

ID = "C08"
LEVEL = "exploration"
RULE = ("operation histories of 3-14 steps over a growing pool of operands (plain str, chunks of six "
        "formatters incl. background-only, effects-only and a no_color one, earlier results): construction "
        "from several parts, +, += (also on a text that was already rendered, and t += t), reflected + with str, join (text, chunk or str items), index, slice with "
        "positive / negative / out-of-range / None bounds and steps, fixed_len, format with "
        "[[fill]align][width]['s'], equality probes. A shadow model = list of (char, colour state) is updated "
        "with the semantics of str / list for the same operation; after every step plain_text(), len() and "
        "the cells the terminal model reads from str(x) must equal the model. Non-trivial = history "
        "containing a slice or index on a multi-coloured text with a negative or out-of-range bound; distinct "
        "by history.")
ASSUMPTIONS = ["'same colours' means same visible state in the terminal model; all pool formatters have "
               "pairwise different visible states", "format specs are limited to [[fill]align][width]['s']"]
TIERS = {
    "quick": {"shards": 4, "cases": 4600, "timeout": 300},
    "thorough": {"shards": 16, "cases": 30000, "timeout": 3000},
}
FLOORS = {"quick": {"texts_whose_characters_look_like_colour_sequences": 500,
                    "distinct_nontrivial": 1500, "operations_checked": 40000, "slices": 4000, "formats": 4000,
                    "index_errors_agree": 300, "equality_probes": 30000, "extensions_refused_half_way": 60},
          "thorough": {"texts_whose_characters_look_like_colour_sequences": 2000,
                       "distinct_nontrivial": 37000, "operations_checked": 2000000, "slices": 200000,
                       "formats": 200000, "index_errors_agree": 15000, "equality_probes": 1500000,
                       "extensions_refused_half_way": 3000}}
LEVEL_TEXT = ("Runtime exploration with a shadow model: every public operation on CHText / chunks is mirrored on a "
              "list of (character, colour) cells with plain str/list semantics; the rendering is read back through "
              "an independent SGR terminal model after each step of each generated history.")
LEVEL_NOTE = "texts <= ~60 characters, eight formatters (colours given as names, numbers - 0 included -, rgb triples and grays), histories <= 14 operations; ASCII letters and blanks only"
TECHNIQUE = "runtime monitoring: shadow-model (str/list semantics) + SGR terminal model after every operation of a history"

FMT_SPECS = [None, dict(color='RED'), dict(color='GREEN', bold=True), dict(color=100),
             dict(color=None, no_color=True), dict(color=None, bg_color='BLUE'),
             dict(color=None, underline=True, crossed=True), dict(color=(1, 2, 3), bg_color='g5'),
             # colour number 0 (black), as foreground and as background
             dict(color=0), dict(color=None, bg_color=0, bold=True),
             # an rgb triple as background
             dict(color=None, bg_color=(5, 0, 1)),
             # the same look as an earlier formatter, its effects named in another order
             dict(color=None, crossed=True, underline=True), dict(bold=True, color='GREEN'),
             # effects switched off by name (as a configuration with 'no_bold' does): the look of an earlier formatter
             dict(color='RED', bold=False), dict(color=None, bold=False, faint=False), dict(color=100, faint=False, blink=False),
             # the darkest and the lightest gray, as foreground and as background
             dict(color='g0'), dict(color='g23', bg_color='g0'), dict(color=None, bg_color='g00')]
_FMTS = None
_FMT_ERRORS = []


def fmts():
    global _FMTS
    if _FMTS is None:
        _FMTS = []
        for spec in FMT_SPECS:
            if spec is None:
                _FMTS.append((None, sgr.DEFAULT))
                continue
            kw = dict(spec)
            color = kw.pop('color')
            try:
                f = ColorFmt(color, **kw)
            except Exception as err:
                # (a documented look that cannot be made: reported by run_shard; the histories go on without it)
                _FMT_ERRORS.append({"spec": repr(spec), "type": type(err).__name__, "msg": str(err)[:120]})
                _FMTS.append((None, sgr.DEFAULT))
                continue
            if kw.get('no_color'):
                st = sgr.DEFAULT
            else:
                st = sgr.expected_state(color, kw.get('bg_color'),
                                        **{k: v for k, v in kw.items() if k != 'bg_color'})
            _FMTS.append((f, st))
    return _FMTS


def mk_leaf(rng):
    txt = "".join(rng.choice("abc xyz") for _ in range(rng.randint(0, 4)))
    if rng.random() < 0.004:
        txt = "".join(rng.choice("abc xyz") for _ in range(rng.choice([4095, 4096, 4097, 5000])))
    k = rng.randrange(len(FMT_SPECS))
    f, st = fmts()[k]
    if f is None:
        return txt, [(c, st) for c in txt], ["leaf", k, txt]
    return f(txt), [(c, st) for c in txt], ["leaf", k, txt]


def canonical(model):
    """rebuild a text cell by cell through public operations only"""
    by_state = {st: f for f, st in fmts() if f is not None and st != sgr.DEFAULT}
    res = CHText()
    for c, st in model:
        res += c if st == sgr.DEFAULT else by_state[st](c)
    return res


def is_text(x):
    return isinstance(x, (CHText, CHText.Chunk))


def multi_coloured(m):
    return len({st for _, st in m}) > 1


class Stop(Exception):
    pass


class NoText(Exception):
    pass


class VfSubText(CHText):
    """a text class of the application (it only adds a method)"""

    def shout(self):
        return self.plain_text().upper()


class Unprintable:
    """an object that cannot be turned into text"""

    def __str__(self):
        raise NoText("no text")

    __repr__ = __format__ = lambda self, *a: self.__str__()


def run_history(ctx, rng, script=None):
    """returns the list of executed operations (for replay) ; script = recorded operations"""
    pool = []
    ops_log = []
    nontrivial = False

    def fail(mech, detail):
        ctx.violation(mech, detail, {"script": ops_log})
        raise Stop()

    def choose(n):
        return rng.randrange(n)

    def nxt(gen):
        """either take the next recorded operation or generate one"""
        if script is not None:
            if not script:
                raise Stop()
            return script.pop(0)
        return gen()

    try:
        for _ in range(3):
            rec = nxt(lambda: mk_leaf(rng)[2])
            _, k, txt = rec
            f, st = fmts()[k]
            pool.append((txt if f is None else f(txt), [(c, st) for c in txt]))
            ops_log.append(rec)
        n_steps = rng.randint(3, 14) if script is None else 10 ** 6
        for _step in range(n_steps):
            def gen_op():
                op = rng.choice(['ctor', 'add', 'radd', 'iadd', 'iadd', 'self_iadd', 'join', 'idx', 'slice', 'slice',
                                 'fixed', 'fmt', 'fmt', 'leaf', 'iadd_inplace', 'add_empty', 'iadd_seq', 'resize', 'make'])
                a, b = choose(len(pool)), choose(len(pool))
                rec = [op, a, b]
                la = len(pool[a][1])
                if op == 'ctor':
                    rec.append([choose(len(pool)) for _ in range(rng.randint(0, 3))])
                elif op == 'join':
                    rec.append([choose(len(pool)) for _ in range(rng.randint(0, 4))])
                    rec.append(rng.choice(["list", "list", "tuple", "generator", "bare-str", "growing"]))
                elif op == 'idx':
                    rec.append(rng.randint(-la - 2, la + 1))
                elif op == 'slice':
                    # (also bounds no machine word can hold: a str clips them like any other bound)
                    bounds = [None] + list(range(-la - 3, la + 4)) + [2 ** 63, 10 ** 30, -2 ** 63 - 1, sys.maxsize]
                    rec.extend([rng.choice(bounds), rng.choice(bounds),
                                rng.choice([None, None, None, 1, 2, -1, 3, 0])])
                elif op in ('fixed', 'resize'):
                    rec.append(rng.randint(0, la + 3) if rng.random() < 0.7 else la)
                    if rng.random() < 0.01:
                        rec[-1] = la + rng.choice([65536, 65537, 70000, 131073])    # (a very wide field)
                elif op == 'fmt':
                    fill = rng.choice(['', '', '*', '0', ' ', '<', 'x', '-', '.', '.', ',', '\n', '\t', '\x00'])
                    al = rng.choice(['<', '>', '^']) if fill else rng.choice(['', '<', '>', '^'])
                    w = rng.choice(['', str(rng.randint(1, la + 4)), '0'])
                    if w and w != '0' and fill and al and rng.random() < 0.25:
                        # behind an explicit fill and alignment a width may be written with a leading zero: the fill
                        # stays what it is.  (Without them "05" is str's zero FLAG, which the documented grammar of
                        # CHText formats - [[fill]align][width][type] - does not have: not generated)
                        w = '0' + w
                    if w and rng.random() < 0.08:
                        # (str accepts any decimal digits in a width)
                        w = w.translate({ord('0') + k: 0x0660 + k for k in range(10)}) if rng.random() < 0.5 \
                            else w[:-1] + chr(0xff10 + int(w[-1]))
                    rec.append(fill + al + w + rng.choice(['', 's']))
                elif op == 'leaf':
                    rec = mk_leaf(rng)[2]
                return rec
            rec = nxt(gen_op)
            op = rec[0]
            ops_log.append(rec)
            if op == 'leaf':
                _, k, txt = rec
                f, st = fmts()[k]
                pool.append((txt if f is None else f(txt), [(c, st) for c in txt]))
                continue
            (a, ma), (b, mb) = pool[rec[1]], pool[rec[2]]
            r = mr = None
            try:
                if op == 'ctor':
                    parts = [pool[i] for i in rec[3]]
                    r = CHText(a, b, *[p for p, _ in parts])
                    mr = ma + mb + [c for _, m in parts for c in m]
                elif op == 'add':
                    if isinstance(a, str) and isinstance(b, str):
                        continue
                    r = a + b
                    mr = ma + mb
                elif op == 'radd':
                    if not is_text(b):
                        continue
                    r = "pq" + b
                    mr = [('p', sgr.DEFAULT), ('q', sgr.DEFAULT)] + mb
                elif op == 'iadd_seq':
                    # '+=' with a list / tuple of parts, or applied to a chunk (which gives a text)
                    if not is_text(a):
                        continue
                    r = CHText(a) if isinstance(a, CHText) else a
                    c_obj, mc = pool[(rec[1] + rec[2]) % len(pool)]
                    if isinstance(a, CHText) and rec[2] % 7 == 5:
                        # one of the parts cannot be shown (its __str__ raises): the extension is refused half way.
                        # Whatever was taken over before that - the text is still a text (the first part has the
                        # look of the last character, so it goes into the same run of characters)
                        try:
                            r += [a[-1:], b, Unprintable(), c_obj]
                        except NoText:
                            pass
                        ctx.count("extensions_refused_half_way")
                        shown = sgr.cells(str(r))
                        if shown not in (ma, ma + ma[-1:], ma + ma[-1:] + mb):
                            fail("text-shows-something-else-after-a-refused-extension",
                                 {"op": rec, "shows": r.plain_text()[:60], "before": "".join(c for c, _ in ma)[:60]})
                        mr = shown
                    elif isinstance(a, CHText) and rec[2] % 3 == 0:
                        # a list of parts one of which is itself a list of (different) parts
                        r += [b, [c_obj, b, "-"], c_obj] if rec[2] % 2 else ((c_obj, b), "-", [b])
                        mr = ma + (mb + mc + mb + [("-", sgr.DEFAULT)] + mc if rec[2] % 2 else
                                   mc + mb + [("-", sgr.DEFAULT)] + mb)
                    elif isinstance(a, CHText) and rec[2] % 6 == 1:
                        # the caller composed a cell once and names it twice: the SAME list object at two places of
                        # one argument (to '+=' or to the constructor)
                        cell = [c_obj, "-"]
                        if rec[1] % 2:
                            r += [cell, b, cell]
                        else:
                            r = CHText(r, [cell, b, (cell, cell)][:2 + rec[1] % 4 // 2], cell)
                        mr = ma + mc + [("-", sgr.DEFAULT)] + mb + (
                            (mc + [("-", sgr.DEFAULT)]) * 2 if not rec[1] % 2 and rec[1] % 4 // 2 else []) + mc + [("-", sgr.DEFAULT)]
                        ctx.count("arguments_that_name_one_list_object_twice")
                    elif isinstance(a, CHText):
                        r += [b, c_obj] if rec[2] % 2 else (b, c_obj)
                        mr = ma + mb + mc
                    else:
                        r += b
                        mr = ma + mb
                        if sgr.cells(str(a)) != ma:
                            fail("iadd-on-copy-modified-the-original", {"op": rec})
                elif op == 'add_empty':
                    if not is_text(a):
                        continue
                    r = a + (["", CHText(), CHText(""), fmts()[rec[2] % len(FMT_SPECS)][0] or (lambda t: t)][rec[2] % 4])("") \
                        if rec[2] % 4 == 3 else a + ["", CHText(), CHText("")][rec[2] % 4]
                    mr = list(ma)
                elif op == 'iadd_inplace':
                    # a text of the pool itself is extended in place: every OTHER text of the pool (results of
                    # earlier operations on it included) must keep showing what it showed - a str never changes
                    if not isinstance(a, CHText):
                        continue
                    x = a
                    x += b
                    ma = ma + (mb if rec[1] != rec[2] else ma[:len(ma)])
                    pool[rec[1]] = (x, ma)
                    ctx.count("in_place_extensions_of_pool_texts")
                    for k, (o, mo) in enumerate(pool):
                        if is_text(o) and sgr.cells(str(o)) != mo:
                            fail("in-place-extension-changed-another-text" if k != rec[1] else "character-colour-differs",
                                 {"op": rec, "text_no": k, "shows": o.plain_text()[:60],
                                  "expected": "".join(c for c, _ in mo)[:60]})
                    continue
                elif op == 'self_iadd':
                    if not isinstance(a, CHText):
                        continue
                    r = CHText(a)
                    r += r            # the operand is the text itself
                    mr = ma + ma
                elif op == 'iadd':
                    if not isinstance(a, CHText):
                        continue
                    r = CHText(a)
                    if rec[1] % 2:
                        # the text was already rendered / measured before it is extended in place
                        if sgr.cells(str(r)) != ma or len(r) != len(ma) or format(r, "") != str(r):
                            fail("copy-differs-from-original", {"op": rec})
                    r += b
                    mr = ma + mb
                    if sgr.cells(str(a)) != ma:
                        fail("iadd-on-copy-modified-the-original", {"op": rec})
                elif op == 'join':
                    if isinstance(a, str):
                        continue
                    items = [pool[i] for i in rec[3]]
                    how = rec[4] if len(rec) > 4 else "list"
                    if how == "bare-str":
                        # the iterable is a plain string: its characters are the items (as for str.join)
                        word = "".join(c for _, m in items for c, _ in m)[:6]
                        items = [(ch, [(ch, sgr.DEFAULT)]) for ch in word]
                        r = a.join(word)
                    elif how == "growing" and items:
                        # a generator that yields ONE text object again and again and extends it in place between
                        # the yields (cumulative prefixes): every item is what the object shows when it is yielded
                        grow = CHText(items[0][0])
                        snapshots = [list(items[0][1])]

                        def growing():
                            yield grow
                            for x, mx in items[1:]:
                                nonlocal_grow = grow
                                nonlocal_grow += x
                                snapshots.append(snapshots[-1] + mx)
                                yield nonlocal_grow
                        r = a.join(growing())
                        items = [(None, m) for m in snapshots]
                    elif how == "tuple":
                        r = a.join(tuple(x for x, _ in items))
                    elif how == "generator":
                        r = a.join(x for x, _ in items)
                    else:
                        r = a.join([x for x, _ in items])
                    mr = []
                    for i, (_, mi) in enumerate(items):
                        if i:
                            mr = mr + ma
                        mr = mr + mi
                elif op == 'idx':
                    if not is_text(a):
                        continue
                    i = rec[3]
                    try:
                        exp = [ma[i]]
                    except IndexError:
                        exp = None
                    try:
                        r = a[i]
                    except IndexError:
                        r = None
                    if (r is None) != (exp is None):
                        fail("index-error-disagrees-with-str", {"index": i, "len": len(ma)})
                    if multi_coloured(ma) and (i < 0 or i >= len(ma)):
                        nontrivial = True
                    if r is None:
                        ctx.count("index_errors_agree")
                        continue
                    mr = exp
                elif op == 'slice':
                    if not is_text(a):
                        continue
                    lo, hi, st = rec[3], rec[4], rec[5]
                    if st == 0:
                        # a step of zero is no step: a str refuses it (ValueError), a text and a chunk do, too
                        try:
                            a[lo:hi:0]
                            fail("slice-with-a-zero-step-accepted", {"op": rec})
                        except ValueError:
                            ctx.count("zero_steps_refused")
                        continue
                    if st is not None and not isinstance(a, CHText.Chunk):
                        # extended slices are only promised for what str supports; CHText
                        # documents [start:stop]; keep steps for chunks (plain str slicing)
                        st = None
                    r = a[lo:hi:st] if st is not None else a[lo:hi]
                    mr = ma[lo:hi:st] if st is not None else ma[lo:hi]
                    ctx.count("slices")
                    if multi_coloured(ma) and any(x is not None and (x < 0 or x > len(ma)) for x in (lo, hi)):
                        nontrivial = True
                elif op == 'make':
                    # the documented constructor from a ready list of chunks (what the package's printers use): the
                    # chunks of two texts, one after the other
                    if not (isinstance(a, CHText) and isinstance(b, CHText)):
                        continue
                    r = CHText.make(list(a.chunks) + list(b.chunks))
                    mr = ma + mb
                    ctx.count("texts_made_from_two_chunk_lists")
                elif op == 'resize':
                    # the chunk-list twin of fixed_len (the helper the table code cuts and pads cells with),
                    # fed with the live chunk list of a text: the text itself must stay what it is
                    if not isinstance(a, CHText):
                        continue
                    n = rec[3]
                    r = CHText.make(CHText.resize_chunks_list(a.chunks, n))
                    mr = (ma + [(' ', sgr.DEFAULT)] * n)[:n]
                    if sgr.cells(str(a)) != ma or len(a) != len(ma) or a != canonical(ma):
                        fail("helper-modified-the-text-it-was-given", {"op": rec, "shows": a.plain_text()[:60]})
                    # (make() and the helper are the package's internal route: only what the result SHOWS is
                    # judged - it may share chunks with its source and keep empty chunks - and it is not kept)
                    ctx.count("operations_checked")
                    if sgr.cells(str(r)) != mr or len(r) != len(mr) or r.plain_text() != "".join(c for c, _ in mr):
                        fail("character-colour-differs", {"op": rec, "text": "".join(c for c, _ in mr)})
                    continue
                elif op == 'fixed':
                    if isinstance(a, str):
                        continue
                    n = rec[3]
                    r = a.fixed_len(n)
                    mr = (ma + [(' ', sgr.DEFAULT)] * n)[:n]
                elif op == 'fmt':
                    if isinstance(a, str):
                        continue
                    spec = rec[3]
                    plain = "".join(c for c, _ in ma)
                    try:
                        exp = format(plain, spec)
                    except ValueError:
                        continue  # spec invalid for str as well
                    out = format(a, spec)
                    ctx.count("formats")
                    ctx.count("operations_checked")
                    got = sgr.cells(out)
                    if "".join(c for c, _ in got) != exp:
                        fail("format-text-differs-from-str-format", {"spec": spec, "expected": exp, "got": out})
                    # position of the original text follows from the alignment
                    pad = len(exp) - len(plain)
                    body = spec[:-1] if spec.endswith('s') else spec
                    if len(body) >= 2 and body[1] in '<>^':
                        align = body[1]
                    elif len(body) >= 1 and body[0] in '<>^':
                        align = body[0]
                    else:
                        align = '<'
                    k = {'<': 0, '>': pad, '^': pad // 2}[align]
                    if [st2 for _, st2 in got[k:k + len(ma)]] != [st2 for _, st2 in ma]:
                        fail("format-changes-colours", {"spec": spec, "offset": k})
                    if any(st2 != sgr.DEFAULT for _, st2 in got[:k] + got[k + len(ma):]):
                        fail("format-colours-the-padding", {"spec": spec})
                    continue
                else:
                    raise AssertionError(op)
            except Stop:
                raise
            except sgr.SgrError as err:
                fail("malformed-escape-sequences", {"op": rec, "err": str(err)})
            except Exception as err:
                fail("operation-raises", {"op": rec, "type": type(err).__name__, "msg": str(err)[:100]})
            ctx.count("operations_checked")
            rt = r if isinstance(r, CHText) else CHText(r)
            text = "".join(c for c, _ in mr)
            if r.plain_text() != text:
                fail("plain-text-differs", {"op": rec, "got": r.plain_text(), "expected": text})
            if len(r) != len(mr):
                fail("len-differs", {"op": rec, "got": len(r), "expected": len(mr)})
            if CHText.strip_colors(str(r)) != text:
                # (the documented way from the printed form back to the visible characters)
                fail("plain-text-differs", {"op": rec, "got": CHText.strip_colors(str(r))[:80], "expected": text[:80],
                                            "via": "strip_colors(str())"})
            try:
                got = sgr.cells(str(r))
            except sgr.SgrError as err:
                fail("malformed-escape-sequences", {"op": rec, "err": str(err)})
            if got != mr:
                bad = next((i for i, (x, y) in enumerate(zip(got, mr)) if x != y), min(len(got), len(mr)))
                fail("character-colour-differs", {"op": rec, "first_bad_cell": bad, "text": text})
            canon = canonical(mr)
            ctx.count("equality_probes", 2)
            if not (rt == canon and canon == rt) or (rt != canon):
                fail("equal-looking-texts-compare-unequal", {"op": rec, "a": str(rt), "b": str(canon)})
            # ... also when one of the two is a text of a class the application derived from CHText
            sub = VfSubText(rt)
            ctx.count("equality_probes", 4)
            if not (sub == canon and canon == sub and sub == rt and rt == sub) or sub != canon or canon != sub:
                fail("equal-looking-texts-compare-unequal", {"op": rec, "a": str(rt), "b": str(canon),
                                                             "classes": "CHText and a class derived from it"})
            if all(st == sgr.DEFAULT for _, st in mr):
                ctx.count("equality_probes")
                if not (rt == text):
                    fail("default-coloured-text-differs-from-str", {"op": rec, "text": text})
            elif rt == text:
                fail("coloured-text-equals-plain-str", {"op": rec, "text": text})
            if isinstance(r, CHText.Chunk) and mr:
                # (an EMPTY coloured chunk compares unequal to "" although it shows nothing; a chunk is
                # not a CHText, so this is recorded in DESIGN.md as observed, not asserted)
                ctx.count("equality_probes", 3)
                plain_expected = all(st == sgr.DEFAULT for _, st in mr)
                if bool(r == text) != plain_expected or bool(text == r) != plain_expected:
                    fail("chunk-vs-str-equality-ignores-colour", {"op": rec, "text": text})
                if not (rt == r and r == rt):
                    fail("text-differs-from-its-only-chunk", {"op": rec, "text": text})
            if not mr:
                # texts that show nothing are equal, whatever they are made of
                ctx.count("equality_probes", 4)
                for f, _ in fmts()[:3]:
                    empty = f("") if f is not None else CHText("")
                    if not (rt == empty and empty == rt) or rt != empty:
                        fail("empty-texts-compare-unequal", {"op": rec, "other": type(empty).__name__})
            if mr and canon == CHText(text + "~"):
                fail("different-texts-compare-equal", {"op": rec})
            if len(mr) <= 5000:
                pool.append((r, mr))      # (the very wide ones are checked and dropped: they would slow down every later step)
    except Stop:
        pass
    if nontrivial:
        ctx.nontrivial(sig_of(ops_log))
    return ops_log


def control_characters_as_data(ctx, rng):
    """the characters of a text may be anything a str holds - also what a terminal would read as a colour
    sequence (the rendering of another text kept as data, a log line): plain_text(), len() and == treat them as
    the characters they are.  (The rendering of such a text is not read back: the terminal model cannot tell data
    from markup there.)"""
    pieces = ["a", "\x1b[1;31m", "bc", "\x1b[0m", "\x1b[m", str(fmts()[1][0]("q")), " ", "\x1b", "[0m"]
    parts = [rng.choice(pieces) for _ in range(rng.randint(1, 5))]
    plain = "".join(parts)
    k = rng.randrange(len(FMT_SPECS))
    f = fmts()[k][0]
    how = rng.randrange(3)
    text = CHText(*parts) if how == 0 else CHText(plain) if how == 1 else CHText(f(parts[0]) if f else parts[0], *parts[1:])
    ctx.count("texts_whose_characters_look_like_colour_sequences")
    case = {"script": None, "control_characters": parts}
    if text.plain_text() != plain or len(text) != len(plain) or (how < 2 and not text == plain):
        ctx.violation("plain-text-differs-from-the-characters-given",
                      {"parts": [repr(p) for p in parts], "plain_text": repr(text.plain_text()), "len": len(text)}, case)


def run_shard(ctx):
    fmts()
    for e in _FMT_ERRORS:
        ctx.violation("documented-look-cannot-be-made", e, {"script": []})
    for i in range(ctx.cases):
        ctx.evaluated()
        if i % 8 == 3:
            control_characters_as_data(ctx, ctx.rng(i))
        log = run_history(ctx, ctx.rng(i))
        if i < 2:
            ctx.sample({"history": log})


def replay(ctx, case):
    ctx.evaluated()
    if case.get("control_characters"):
        import random
        for k in range(200):
            control_characters_as_data(ctx, random.Random(k))
        return
    run_history(ctx, ctx.rng(0), script=[list(x) if isinstance(x, (list, tuple)) else x for x in case["script"]])
