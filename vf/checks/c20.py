"""C20 Short uuid strings are a bijective encoding of UUIDs."""
import uuid

import vf
vf.use_repo()
from ak import short_uuid  # noqa: E402

ID = "C20"
LEVEL = "exploration"
RULE = ('[later additions: numbers whose 64-bit halves are boundary values; strings in quotes; strings judged while the caller handles another exception; uuid.UUID subclasses with their own __str__; threads start behind a barrier with a decode and six (thorough: ten) fresh interpreters per shard make their very first conversions concurrently] '
        "128-bit ints: boundaries 0,1,57^k-1,57^k,57^k+1 (k<=21), 2^128-1, 2^j, random; each is "
        "encoded, decoded, compared with the harness' own base-57 little-endian model and "
        "collected for a collision test. Strings: wrong lengths 0-40, one foreign character at "
        "every position of a valid short string, 22-character strings denoting 2^128..57^22-1, "
        "canonical forms (braces, urn:, upper case, no hyphens), valid short strings with one junk character "
        "(newline, blank, NUL, ...) in front of / behind them; plus 4 threads x 600 round trips at a 1 microsecond "
        "switch interval with sys.monitoring LINE events inside the functions of ak.short_uuid giving the GIL away "
        "(sleep(0), probability 1/4). Non-trivial = boundary value, "
        "value needing padding, overflow string, or foreign character case; distinct by "
        "(class, value).")
ASSUMPTIONS = ["uuid.UUID of the standard library decides which strings are canonical forms",
               "the alphabet is whatever 57 distinct characters ak.short_uuid._ALPHABET holds"]
TIERS = {
    "quick": {"shards": 2, "cases": 6000, "timeout": 300},
    "thorough": {"shards": 16, "cases": 60000, "timeout": 1200},
}
FLOORS = {"quick": {"cases_with_debug_logging": 750,
                    "distinct_nontrivial": 500, "foreign_char_rejections": 200, "look_alike_char_rejections": 300, "braces_rejections": 300,
                    "overflow_rejections": 100, "roundtrips": 5000, "wrong_length_rejections": 300,
                    "yields_injected_inside_conversions": 20000,
                    "decorated_short_rejections": 300, "junk_around_valid_rejections": 600,
                    "case_variant_rejections": 300, "damaged_canonical_rejections": 500,
                    "numbers_made_of_two_boundary_halves": 200, "quoted_strings": 80,
                    "fresh_interpreters_whose_first_conversions_were_concurrent": 8},
          "thorough": {"cases_with_debug_logging": 3000,
                       "distinct_nontrivial": 5000, "foreign_char_rejections": 2000, "look_alike_char_rejections": 3000, "braces_rejections": 3000,
                       "overflow_rejections": 1000, "roundtrips": 100000, "wrong_length_rejections": 10000,
                       "yields_injected_inside_conversions": 200000,
                       "decorated_short_rejections": 10000, "junk_around_valid_rejections": 20000,
                       "case_variant_rejections": 10000, "damaged_canonical_rejections": 15000,
                       "numbers_made_of_two_boundary_halves": 10000, "quoted_strings": 4000,
                       "fresh_interpreters_whose_first_conversions_were_concurrent": 100}}

REF_ALPHABET = "23456789ABCDEFGHJKLMNPQRSTUVWXYZabcdefghijkmnopqrstuvwxyz"
TOP = 2 ** 128


def alphabet():
    alpha = "".join(getattr(short_uuid, "_ALPHABET", REF_ALPHABET))
    if len(alpha) != 57 or len(set(alpha)) != 57:
        return REF_ALPHABET
    return alpha


def model_encode(n, alpha):
    digits = []
    for _ in range(22):
        n, d = divmod(n, 57)
        digits.append(alpha[d])
    assert n == 0
    return "".join(digits)


def model_decode(s, alpha):
    idx = {c: i for i, c in enumerate(alpha)}
    n = 0
    for c in reversed(s):
        n = n * 57 + idx[c]
    return n


def model_valid(s, alpha):
    """is `s` a valid input of uuid_from_str according to the property?"""
    try:
        return uuid.UUID(s)
    except ValueError:
        pass
    if len(s) == 22 and all(c in alpha for c in s):
        n = model_decode(s, alpha)
        if n < TOP:
            return uuid.UUID(int=n)
    return None


class PrintsShort(uuid.UUID):
    """a uuid class of the application that shows itself in the short form"""

    def __str__(self):
        return short_uuid.uuid_to_short_str(self)


class PrintsTagged(uuid.UUID):
    def __str__(self):
        return "<uuid %s>" % self.hex


def check_int(ctx, n, alpha, seen, klass):
    case = {"kind": "int", "value": str(n), "class": klass}
    u = uuid.UUID(int=n)
    try:
        s = short_uuid.uuid_to_short_str(u)
    except Exception as err:
        ctx.violation("encode-raises", repr(err), case)
        return
    if not isinstance(s, str) or len(s) != 22 or any(c not in alpha for c in s):
        ctx.violation("bad-encoding-shape", s, case)
        return
    if s != model_encode(n, alpha):
        ctx.violation("encoding-differs-from-model", [s, model_encode(n, alpha)], case)
    other = seen.setdefault(s, n)
    if other != n:
        ctx.violation("collision", [str(other), str(n), s], case)
    for fname in ("uuid_from_short_str", "uuid_from_str"):
        try:
            back = getattr(short_uuid, fname)(s)
        except Exception as err:
            ctx.violation("decode-raises", [fname, repr(err)], case)
            continue
        if back != u:
            ctx.violation("roundtrip", [fname, str(back)], case)
    ctx.count("roundtrips")
    if n % 4 == 1:
        # the application's own uuid classes: they print themselves in their own way (the short form, a tagged form)
        for cls in (PrintsShort, PrintsTagged):
            try:
                s2 = short_uuid.uuid_to_short_str(cls(int=n))
            except BaseException as err:
                if not isinstance(err, Exception) and not isinstance(err, RecursionError):
                    raise
                ctx.violation("encode-raises", [cls.__name__, type(err).__name__, str(err)[:80]], case)
                continue
            ctx.count("uuid_subclass_objects_encoded")
            if s2 != s:
                ctx.violation("encoding-differs-from-model", [cls.__name__, s2, s], case)
    # canonical forms
    canon = str(u)
    forms = [canon, canon.upper(), "{" + canon + "}", "urn:uuid:" + canon, u.hex]
    form = forms[n % len(forms)]
    try:
        if short_uuid.uuid_from_str(form) != u:
            ctx.violation("canonical-form", form, case)
    except Exception as err:
        ctx.violation("canonical-form-raises", [form, repr(err)], case)
    ctx.count("canonical_forms")
    if klass != "random":
        ctx.nontrivial(f"{klass}:{n}")


PARAMETER = {"uuid_from_str": "uuid_str", "uuid_from_short_str": "uuid_short_str"}


def check_string(ctx, s, alpha, klass):
    case = {"kind": "str", "value": s, "class": klass}
    expected = model_valid(s, alpha)
    # (the same string goes through both entry points, in both orders: results must not be remembered
    # across functions or calls)
    order = ("uuid_from_short_str", "uuid_from_str", "uuid_from_short_str") if len(s) % 2 else (
        "uuid_from_str", "uuid_from_short_str", "uuid_from_str")
    for fname in order:
        exp = expected
        if fname == "uuid_from_short_str" and not (len(s) == 22 and all(c in alpha for c in s)):
            exp = None  # canonical forms are not short strings
        try:
            # (every third call names its argument: uuid_from_str(uuid_str=...), uuid_from_short_str(uuid_short_str=...))
            by_name = len(s) % 3 == 1
            call = (lambda: getattr(short_uuid, fname)(**{PARAMETER[fname]: s})) if by_name else \
                (lambda: getattr(short_uuid, fname)(s))
            if by_name:
                ctx.count("strings_given_as_a_named_argument")
            if len(s) % 2:
                # the caller is in the middle of handling an error of its own (a fallback path)
                try:
                    raise ZeroDivisionError("the caller's own trouble")
                except ZeroDivisionError:
                    got = call()
                ctx.count("strings_judged_while_the_caller_handles_another_error")
            else:
                got = call()
        except ValueError:
            if len(s) % 2:
                ctx.count("strings_judged_while_the_caller_handles_another_error")
            if exp is not None:
                ctx.violation("valid-string-rejected", [fname, s], case)
            else:
                ctx.count(f"{klass}_rejections")
            continue
        except Exception as err:
            ctx.violation("wrong-exception-type", [fname, type(err).__name__, str(err)[:80]], case)
            continue
        if exp is not None and got == exp and sum(map(ord, s)) % 3 == 0:
            # the uuid that came back travels (a copy, a pickle) and is encoded again: the string of its number
            import copy as _copy
            import pickle as _pickle
            trav = [_copy.copy(got), _copy.deepcopy(got), _pickle.loads(_pickle.dumps(got)), uuid.UUID(int=got.int)][sum(map(ord, s)) // 3 % 4]
            try:
                again = short_uuid.uuid_to_short_str(trav)
            except Exception as err:
                ctx.violation("encode-raises", [fname, type(err).__name__, str(err)[:80]], case)
                continue
            ctx.count("decoded_uuids_copied_and_encoded_again")
            if again != model_encode(exp.int, alpha):
                ctx.violation("encoding-differs-from-model", [again, model_encode(exp.int, alpha)], case)
                continue
        if exp is None:
            ctx.violation("invalid-string-accepted", [fname, s, str(got)], case)
        elif got != exp:
            ctx.violation("wrong-value", [fname, s, str(got), str(exp)], case)
        else:
            ctx.count("valid_strings_accepted")
    ctx.nontrivial(f"{klass}:{s}")


FOREIGN = "01OIl-_ {}éЖ中\n\x00"


def look_alike(ch, rng):
    """a character that Unicode compatibility normalisation (NFKC) maps to `ch`: full-width, mathematical bold, ..."""
    import unicodedata
    cands = [chr(ord(ch) - 0x21 + 0xFF01)]
    if "A" <= ch <= "Z":
        cands += [chr(0x1D400 + ord(ch) - ord("A")), chr(0x24B6 + ord(ch) - ord("A"))]
    elif "a" <= ch <= "z":
        cands += [chr(0x1D41A + ord(ch) - ord("a")), chr(0x24D0 + ord(ch) - ord("a"))]
    elif "0" <= ch <= "9":
        cands += [chr(0x1D7CE + ord(ch) - ord("0")), chr(0x2460 + ord(ch) - ord("1")) if ch != "0" else chr(0x24EA)]
    cands = [c for c in cands if c != ch and unicodedata.normalize("NFKC", c) == ch]
    return rng.choice(cands) if cands else "\uff0d"


def one_case(ctx, rng, alpha, seen, i):
    ctx.evaluated()
    r = i % 8
    if r == 0:  # boundary ints
        k = rng.randint(0, 22)
        base = rng.choice([57 ** k, 2 ** rng.randint(0, 128), 256 ** rng.randint(0, 16)])
        n = base + rng.choice([-2, -1, 0, 1, 2])
        if rng.random() < 0.35:
            # the two 64-bit halves are boundary values on their own (a half that is zero, all ones, a multiple of 57)
            half = lambda: rng.choice([0, 0, 1, 56, 57, 58, 57 * rng.getrandbits(rng.randint(1, 58)), 2 ** 63,
                                       2 ** 64 - 1, 2 ** rng.randint(0, 63), rng.getrandbits(64)])
            n = (half() << 64) | half()
            ctx.count("numbers_made_of_two_boundary_halves")
        n = min(max(n, 0), TOP - 1)
        check_int(ctx, n, alpha, seen, "boundary")
    elif r == 1:  # small numbers (padding)
        n = rng.getrandbits(rng.randint(0, 120))
        check_int(ctx, n, alpha, seen, "padded")
    elif r in (2, 3):
        check_int(ctx, rng.getrandbits(128), alpha, seen, "random")
    elif r == 4 and i % 32 == 4:  # characters that only LOOK like alphabet characters (compatibility forms)
        s = list(model_encode(rng.getrandbits(128), alpha))
        k = rng.randrange(3)
        if k == 0:
            s = [look_alike(ch, rng) for ch in s]                    # every character in its full-width form
        elif k == 1:
            pos = rng.randrange(22)
            s[pos] = look_alike(s[pos], rng)                          # one of them
        else:
            s = ["\ufb01"] + s[2:] if rng.random() < 0.5 else s[:20] + ["\u01c6"]    # a ligature standing for two letters
        check_string(ctx, "".join(s), alpha, "look_alike_char")
    elif r == 4 and i % 32 == 12:  # 22 characters with a pair of braces (a replacement field of str.format)
        s = list(model_encode(rng.getrandbits(128), alpha))
        a = rng.randrange(0, 21)
        b = rng.randrange(a + 1, 22)
        s[a], s[b] = "{", "}"
        if rng.random() < 0.3:
            s[a + 1:b] = list(rng.choice(["0", "", "x.y", "a[0]", "!r"]).ljust(b - a - 1, rng.choice(alpha)))[:b - a - 1]
        check_string(ctx, "".join(s), alpha, "braces")
    elif r == 4:  # foreign character
        s = list(model_encode(rng.getrandbits(128), alpha))
        pos = rng.randrange(22)
        s[pos] = rng.choice(FOREIGN)
        check_string(ctx, "".join(s), alpha, "foreign_char")
    elif r == 5:  # overflow
        n = rng.choice([TOP, TOP + 1, 57 ** 22 - 1, rng.randrange(TOP, 57 ** 22),
                        TOP + rng.getrandbits(rng.randint(1, 100))])
        check_string(ctx, model_encode(n, alpha), alpha, "overflow")
    elif r == 6 and i % 16 == 6:  # a valid short string with junk in front of / behind it
        s = model_encode(rng.getrandbits(128) if rng.random() < 0.7 else rng.getrandbits(60), alpha)
        # (... or the byte order mark a text file saved 'with signature' starts with)
        junk = rng.choice(["\n", " ", "\t", "\r\n", "\x00", "\n\n", "=", "\u2028", "\x0b", "\x1c", "\ufeff", "\ufeff"])
        where = rng.random()
        s = s + junk if where < 0.5 else junk + s if where < 0.8 else s[:-1] + junk[:1]
        check_string(ctx, s, alpha, "junk_around_valid")
    elif r == 6 and i % 32 == 14:  # a valid short string decorated the way canonical strings may be
        s = model_encode(rng.getrandbits(128) if rng.random() < 0.7 else rng.getrandbits(60), alpha)
        k = rng.randrange(11)
        if k >= 8:
            # still in the quotes of the dump it was copied from
            q = rng.choice(["\"", "'", "`"])
            s = q + s + q if k < 10 else q + s[:20] + q
            ctx.count("quoted_strings")
        elif k == 0:
            s = "-" + s
        elif k == 1:
            s = s + "-"
        elif k == 2:
            p = rng.randrange(1, 22)
            s = s[:p] + "-" + s[p:]
        elif k == 3:
            s = "-".join(s)
        elif k == 4:
            s = "-".join([s[:8], s[8:12], s[12:16], s[16:]])
        elif k == 5:
            s = "{" + s + "}"
        elif k == 6:
            s = "urn:uuid:" + s
        else:
            s = s[:11] + "--" + s[11:]
        check_string(ctx, s, alpha, "decorated_short")
    elif r == 6:  # wrong length
        ln = rng.choice([x for x in range(0, 41) if x != 22])
        pool = alpha if rng.random() < 0.7 else alpha + FOREIGN + "0123456789abcdef-"
        s = "".join(rng.choice(pool) for _ in range(ln))
        if rng.random() < 0.3:
            # a valid short string with extra / missing 'zero' digits: same number
            s = model_encode(rng.getrandbits(rng.randint(1, 128)), alpha)
            s = s + alpha[0] * rng.randint(1, 4) if rng.random() < 0.5 else s.rstrip(alpha[0])
            if len(s) == 22:
                s = s[:-1]
        check_string(ctx, s, alpha, "wrong_length")
    else:  # near-canonical garbage and valid short strings near the top
        if rng.random() < 0.5:
            n = TOP - 1 - rng.getrandbits(rng.randint(0, 64))
            s = model_encode(n, alpha)
            check_string(ctx, s, alpha, "valid_short")
            # ... and then a string that differs from it only in the case of one letter
            pos = [k for k, ch in enumerate(s) if ch.swapcase() != ch]
            if pos:
                k = rng.choice(pos)
                check_string(ctx, s[:k] + s[k].swapcase() + s[k + 1:], alpha, "case_variant")
        else:
            canon = list(str(uuid.UUID(int=rng.getrandbits(128))))
            pos = rng.randrange(len(canon))
            canon[pos] = rng.choice("gG zZ-_" + alpha)
            if rng.random() < 0.25:
                # (one of the four dashes typed as a blank, a tab, a line break or left as something else)
                canon = list(str(uuid.UUID(int=rng.getrandbits(128))))
                canon[rng.choice([8, 13, 18, 23])] = rng.choice(" \t\n\r_.:/")
            r2 = rng.random()
            if r2 < 0.12:
                # an intact canonical string behind a byte order mark
                canon = ["\ufeff"] + list(str(uuid.UUID(int=rng.getrandbits(128))))
            elif r2 < 0.3:
                # two letters of an intact one written as ONE character (the ligatures of a word processor; the
                # capital sharp s, the dotted capital i - characters whose lower / folded form is two characters)
                u = uuid.UUID(int=rng.getrandbits(128) | (0xff << (8 * rng.randrange(15))))
                text = str(u)
                k = text.index("ff") if "ff" in text else None
                if k is not None:
                    canon = list(text[:k] + rng.choice(["\ufb00", "\ufb00", "\u1e9e", "\u0130"]) + text[k + 2:])
                    ctx.count("canonical_strings_with_two_letters_written_as_one_character")
            if rng.random() < 0.15:
                q = rng.choice(["\"", "'"])
                canon = [q] + list(str(uuid.UUID(int=rng.getrandbits(128)))) + [q]     # an intact one, in quotes
                ctx.count("quoted_strings")
            check_string(ctx, "".join(canon), alpha, "damaged_canonical")


def concurrent_roundtrips(ctx, alpha, seed, rounds=600):
    """the functions are pure: concurrent callers must not disturb each other.  Four threads, switch interval
    1 microsecond, and sys.monitoring LINE events local to the functions of ak.short_uuid that give the GIL
    away (sleep(0)) with probability 1/4, so that threads really interleave inside the conversion loops"""
    import random
    import sys
    import threading
    import time
    import types
    errors = []
    old = sys.getswitchinterval()
    sys.setswitchinterval(1e-6)
    mon = sys.monitoring
    codes = [f.__code__ for f in vars(short_uuid).values() if isinstance(f, types.FunctionType)]
    inj = random.Random(f"{seed}/inject")
    injected = [0]

    def on_line(code, line):
        if inj.random() < 0.25:
            injected[0] += 1
            time.sleep(0)

    mon.use_tool_id(4, "vf-c20")
    mon.register_callback(4, mon.events.LINE, on_line)
    for c in codes:
        mon.set_local_events(4, c, mon.events.LINE)

    # (all the threads begin at the same moment, and each begins with a DECODE: what the module prepares on its first
    # use is prepared while the others are already asking)
    barrier = threading.Barrier(4)

    def worker(k):
        rng = random.Random(f"{seed}/{k}")
        first = rng.getrandbits(128)
        try:
            barrier.wait(30)
        except threading.BrokenBarrierError:
            pass
        try:
            if short_uuid.uuid_from_short_str(model_encode(first, alpha)) != uuid.UUID(int=first):
                errors.append(("differs", str(first), "first decode of the thread"))
        except Exception as err:
            errors.append(("raises", str(first), repr(err)))
        for _ in range(rounds):
            n = rng.getrandbits(128) if rng.random() < 0.8 else rng.getrandbits(40)
            u = uuid.UUID(int=n)
            try:
                s = short_uuid.uuid_to_short_str(u)
                back = short_uuid.uuid_from_short_str(s)
                # (the general entry point too, with both forms, from a thread that did not import the module)
                if short_uuid.uuid_from_str(s) != u or short_uuid.uuid_from_str(str(u)) != u:
                    back = None
                try:
                    short_uuid.uuid_from_str(s + "!")
                    back = None
                except ValueError:
                    pass
            except Exception as err:
                errors.append(("raises", str(n), repr(err)))
                continue
            if s != model_encode(n, alpha) or back != u:
                errors.append(("differs", str(n), s))

    threads = [threading.Thread(target=worker, args=(k,)) for k in range(4)]
    try:
        for t in threads:
            t.start()
        for t in threads:
            t.join(120)
    finally:
        sys.setswitchinterval(old)
        for c in codes:
            mon.set_local_events(4, c, 0)
        mon.register_callback(4, mon.events.LINE, None)
        mon.free_tool_id(4)
    ctx.count("concurrent_roundtrips", 4 * rounds)
    ctx.count("yields_injected_inside_conversions", injected[0])
    for err in errors[:50]:
        ctx.violation("concurrent-callers-disturb-each-other", err,
                      {"kind": "int", "value": err[1], "class": "concurrent"})


class Masked(str):
    """a str subclass whose str() is not its value (the value is what counts: it IS the string)"""

    def __new__(cls, value, shown):
        obj = super().__new__(cls, value)
        obj.shown = shown
        return obj

    def __str__(self):
        return self.shown

    def __format__(self, spec):
        return self.shown


class CaseBlind(str):
    """a str subclass with an equality of its own - and therefore, as python has it, no hash"""

    def __eq__(self, other):
        return isinstance(other, str) and str.lower(self) == str.lower(other)

    def __ne__(self, other):
        return not self.__eq__(other)
    __hash__ = None


def str_subclass_cases(ctx, alpha, rng):
    u = uuid.UUID(int=rng.getrandbits(128))
    short, canon = model_encode(u.int, alpha), str(u)
    case = {"kind": "str", "value": short, "class": "str_subclass"}
    for value, shown, want in ((short, "<hidden>", u), (canon, "***", u), ("garbage", short, None),
                               ("", canon, None)):
        ctx.evaluated()
        ctx.count("str_subclass_arguments")
        try:
            got = short_uuid.uuid_from_str(Masked(value, shown))
        except ValueError:
            got = None
        except Exception as err:
            ctx.violation("wrong-exception-type", ["uuid_from_str", type(err).__name__, str(err)[:80]], case)
            continue
        if got != want:
            ctx.violation("valid-string-rejected" if want is not None else "invalid-string-accepted",
                          ["uuid_from_str", "str subclass with value %r shown as %r" % (value, shown), str(got)], case)
    for value, want in ((short, u), (canon, u), ("garbage", None), (short[:-1], None)):
        for fname in ("uuid_from_str", "uuid_from_short_str"):
            exp = want if fname == "uuid_from_str" or value == short else None
            ctx.evaluated()
            ctx.count("str_subclass_arguments")
            try:
                got = getattr(short_uuid, fname)(CaseBlind(value))
            except ValueError:
                got = None
            except Exception as err:
                ctx.violation("wrong-exception-type", [fname, type(err).__name__, str(err)[:80]], case)
                continue
            if got != exp:
                ctx.violation("valid-string-rejected" if exp is not None else "invalid-string-accepted",
                              [fname, "unhashable str subclass with value %r" % value, str(got)], case)


CHILD = r"""
import json, sys
from ak import short_uuid
out = []
for s in json.load(sys.stdin):
    for f in (short_uuid.uuid_from_short_str, short_uuid.uuid_from_str):
        try:
            out.append("A:" + str(f(s)))
        except ValueError:
            out.append("V")
        except Exception as err:
            out.append("E:" + type(err).__name__)
print(json.dumps(out))
"""


def optimized_interpreter_cases(ctx, alpha, rng):
    """the same rejections in an interpreter started with -O (assert statements are compiled away there)"""
    import json
    import os
    import subprocess
    import sys
    u = uuid.UUID(int=rng.getrandbits(128))
    short = model_encode(u.int, alpha)
    strings = ["", short[:-1], short + alpha[0], short, str(u), alpha[0] * 21, alpha[0] * 23, short[:10], "x" * 22]
    for flag in ("-O", "-OO"):
        ctx.evaluated()
        env = dict(os.environ, PYTHONPATH=vf.REPO)
        proc = subprocess.run([sys.executable, flag, "-c", CHILD], input=json.dumps(strings), capture_output=True,
                              text=True, timeout=60, env=env)
        if proc.returncode != 0:
            ctx.inconclusive_note("optimized child interpreter failed: " + proc.stderr[-200:])
            return
        res = json.loads(proc.stdout)
        ctx.count("strings_judged_in_an_optimized_interpreter", len(strings))
        for k, s in enumerate(strings):
            for j, fname in enumerate(("uuid_from_short_str", "uuid_from_str")):
                want = model_valid(s, alpha)
                if fname == "uuid_from_short_str" and not (len(s) == 22 and all(c in alpha for c in s)):
                    want = None
                got = res[2 * k + j]
                exp = "V" if want is None else "A:" + str(want)
                if got != exp:
                    mech = "invalid-string-accepted" if want is None and got.startswith("A:") else \
                        "wrong-exception-type" if got.startswith("E:") else "valid-string-rejected"
                    ctx.violation(mech, [fname, s, got, "interpreter flag " + flag],
                                  {"kind": "str", "value": s, "class": "optimized_interpreter"})


class _ProbeCtx:
    """what concurrent_roundtrips needs of a shard context, for a run in an interpreter of its own"""

    def __init__(self):
        self.errors, self.counters = [], {}

    def count(self, name, n=1):
        self.counters[name] = self.counters.get(name, 0) + n

    def violation(self, mech, detail, case):
        self.errors.append([mech, list(detail)])


def fresh_interpreter_probes(ctx, n):
    """the very first conversions of a process happen once per process: n more interpreters are started whose first
    use of the module are four threads decoding at the same moment"""
    import json
    import os
    import subprocess
    import sys
    for k in range(n):
        ctx.evaluated()
        try:
            r = subprocess.run([sys.executable, "-m", "vf.checks.c20", f"{ctx.seed}/{ctx.shard}/fresh{k}"],
                               capture_output=True, text=True, timeout=120, cwd=vf.VERIF, env=dict(os.environ))
            out = json.loads(r.stdout.strip().splitlines()[-1])
        except Exception as err:
            ctx.inconclusive_note(f"fresh interpreter probe {k} gave no result: {err!r}"[:200])
            continue
        ctx.count("fresh_interpreters_whose_first_conversions_were_concurrent")
        ctx.count("yields_injected_inside_conversions", out["counters"].get("yields_injected_inside_conversions", 0))
        for mech, detail in out["errors"][:5]:
            ctx.violation(mech, tuple(detail), {"kind": "int", "value": detail[1], "class": "concurrent"})


def run_shard(ctx):
    alpha = alphabet()
    seen = {}
    ctx.evaluated()
    concurrent_roundtrips(ctx, alpha, f"{ctx.seed}/{ctx.shard}")
    fresh_interpreter_probes(ctx, 6 if ctx.tier == "quick" else 10)
    for k in range(20):
        str_subclass_cases(ctx, alpha, ctx.rng(10 ** 6 + k))
    if ctx.shard == 0:
        optimized_interpreter_cases(ctx, alpha, ctx.rng(10 ** 6 + 99))
    if ctx.shard == 0:
        # deterministic boundary sweep
        for k in range(23):
            for d in (-1, 0, 1):
                n = 57 ** k + d
                if 0 <= n < TOP:
                    ctx.evaluated()
                    check_int(ctx, n, alpha, seen, "boundary")
        for n in (0, 1, TOP - 1, TOP - 2):
            ctx.evaluated()
            check_int(ctx, n, alpha, seen, "boundary")
        for s in ("", " ", alpha[:22], alpha[0] * 22, alpha[-1] * 22, alpha[0] * 21, alpha[0] * 23):
            ctx.evaluated()
            check_string(ctx, s, alpha, "fixed")
    import logging
    ak_log = logging.getLogger("ak")
    if not ak_log.handlers:
        ak_log.addHandler(logging.NullHandler())
    ak_log.propagate = False
    for i in range(ctx.cases):
        # every fourth case runs with the package's loggers switched to DEBUG (the messages go nowhere)
        debug = i % 4 == 3
        ak_log.setLevel(logging.DEBUG if debug else logging.WARNING)
        if debug:
            ctx.count("cases_with_debug_logging")
        one_case(ctx, ctx.rng(i), alpha, seen, i)
    ak_log.setLevel(logging.WARNING)
    ctx.sample({"int": "57**21+1", "encoded": model_encode(57 ** 21 + 1, alpha)})
    ctx.sample({"rejected": model_encode(TOP, alpha), "why": "denotes 2**128"})
    ctx.count("distinct_encodings", len(seen))


def replay(ctx, case):
    alpha = alphabet()
    ctx.evaluated()
    if case.get("class") == "str_subclass":
        import random
        for k in range(20):
            str_subclass_cases(ctx, alpha, random.Random(k))
        return
    if case.get("class") == "optimized_interpreter":
        import random
        optimized_interpreter_cases(ctx, alpha, random.Random(0))
        return
    if case["kind"] == "int":
        check_int(ctx, int(case["value"]), alpha, {}, case["class"])
    else:
        check_string(ctx, case["value"], alpha, case["class"])

LEVEL_TEXT = ("Runtime exploration: ~12k (quick) / ~1M (thorough) generated ints and strings are pushed "
              "through the real encode/decode functions and every result is compared with an "
              "independent base-57 model; boundaries of every digit position, all foreign-character "
              "positions and the overflow band 2^128..57^22-1 are driven on purpose. This is the "
              "right level for a pure function over 2^128 values: no enumeration is possible, but the "
              "failure classes are few and each is hit thousands of times.")
LEVEL_NOTE = ("Trusts uuid.UUID (stdlib) and the harness model (15 lines). Says nothing about values "
              "never generated; collisions are only searched within the sample and through the "
              "model equality (which implies injectivity for all sampled values).")
TECHNIQUE = "runtime monitoring: reference-model oracle over generated inputs"


if __name__ == "__main__":
    import json
    import sys
    _ctx = _ProbeCtx()
    if sys.argv[1].endswith(("fresh0", "fresh3")):
        # the very first conversion of this process is the one of the nil uuid (then the same string again, twice)
        import uuid as _uuid
        _alpha = alphabet()
        _first = short_uuid.uuid_to_short_str(_uuid.UUID(int=0))
        if _first != _alpha[0] * 22:
            _ctx.errors.append(("encoding-differs-from-model", [_first, 0, "the first conversion of the process"]))
        for _k in range(2):
            try:
                if short_uuid.uuid_from_str(_alpha[0] * 22).int != 0 or short_uuid.uuid_from_str(str(_uuid.UUID(int=0))).int != 0:
                    _ctx.errors.append(("decode-differs-from-model", ["uuid_from_str", 0, "the nil uuid"]))
            except Exception as _err:
                _ctx.errors.append(("decode-raises", ["uuid_from_str", 0, repr(_err)[:80]]))
    concurrent_roundtrips(_ctx, alphabet(), sys.argv[1], rounds=5)
    print(json.dumps({"errors": _ctx.errors, "counters": _ctx.counters}))
