"""C09 Emitted escape sequences are well-formed, self-contained and strippable."""
import collections
import enum
import itertools
from decimal import Decimal
from fractions import Fraction

import vf
vf.use_repo()
from ak.color import CHText, ColorFmt, ColorBytes  # noqa: E402
from vf import sgr  # noqa: E402

ID = "C09"
LEVEL = "exploration"
RULE = ("shard 0 enumerates: 8 names, all ints 0-255, all 216 (r,g,b) cube triples, g0-g23, each as foreground "
        "and as background, and all 32 effect combinations; every shard adds random (fg, bg, effects) "
        "combinations over those value classes, rendered over texts without ESC (empty, '[', 'm', '0;1m', "
        "'[31m', digits, ';', ':', unicode, newlines), alone and concatenated into multi-chunk texts with plain "
        "segments in between; plus invalid colour values (-1, 256, 1000, (0,0,6), (-1,0,0), 2- and 4-tuples, "
        "g24, g-1, gx, g, unknown / lower-case names, '', floats). The SGR terminal model must show every "
        "character with exactly the requested (fg, bg, effects) and be in default state after every chunk; "
        "strip_colors(str(x)) == x.plain_text(); no_color output has no ESC; ColorBytes emits the same bytes; "
        "invalid values raise ValueError. Non-trivial = specification with fg and bg both set or >= 2 effects; "
        "distinct by specification.")
ASSUMPTIONS = ["colour n<16 may be emitted either as 30-37/90-97 or as 38:5:n (same terminal colour)",
               "bool values and exotic spellings ('g 5', 'g023') are not used as colour values"]
TIERS = {
    "quick": {"shards": 2, "cases": 6000, "timeout": 300},
    "thorough": {"shards": 16, "cases": 60000, "timeout": 3000},
}
FLOORS = {"quick": {"single_chunks_formatted_to_a_width": 1500, "texts_of_a_derived_class_used_as_operands": 1500,
                    "distinct_nontrivial": 4000, "chunks_checked": 12000, "invalid_values_rejected": 1000,
                    "exhaustive_single_colour_specs": 1008, "strip_checks": 12000, "bytes_checks": 5000,
                    "multi_chunk_texts": 1000},
          "thorough": {"single_chunks_formatted_to_a_width": 6000, "texts_of_a_derived_class_used_as_operands": 6000,
                       "distinct_nontrivial": 200000, "chunks_checked": 900000, "invalid_values_rejected": 100000,
                       "exhaustive_single_colour_specs": 1008, "strip_checks": 900000, "bytes_checks": 400000,
                       "multi_chunk_texts": 100000}}
LEVEL_TEXT = ("Runtime exploration with a terminal model; the single-colour value space (504 values x fg/bg) and "
              "the 32 effect combinations are enumerated completely on every run, combinations are sampled.")
LEVEL_NOTE = ("The SGR model (vf/sgr.py) accepts only ESC[...m with the parameters listed there: any other escape "
              "sequence in the output is a violation. Texts never contain ESC.")
TECHNIQUE = "runtime monitoring: SGR terminal-model oracle, exhaustive over single colour values, sampled over combinations"

EFFECT_NAMES = ["bold", "faint", "underline", "blink", "crossed"]
# (control characters other than ESC are characters of the text like any other)
TEXTS = ["x", "", "[", "m", "0;1m", "[31m", "38:5:1", "a b", "é中", "line1\nline2", ";", "\t", "0", "abc" * 5,
         "\x0fdef", "\x0e", "\x07\x08"]
INVALID = [-1, 256, 1000, -256, (0, 0, 6), (-1, 0, 0), (6, 6, 6), (1, 2), (1, 2, 3, 4), (), "g24", "g-1", "gx",
           "g", "g99", "PINK", "red", "Red", "", "GRAY", 1.5, 300.0, "255", "#ff0000",
           # misspelled grays and names
           # ('g 5', 'g5 ', 'g+5' are tolerated by int() and accepted as g5: spelling leniency, not asserted either way)
           "gg5", "ggg12", "gg0", "gg23", "G5", " g5", "g5.0", "REDD", "RED ", "g2g",
           # numerically equal to valid codes, but not ints (must not be let through by a cache keyed on ==)
           1.0, 0.0, 7.0, 200.0, 255.0, Fraction(3), Decimal(5), (1.0, 2, 3), (0, 0, 5.0),
           # what a configuration FILE uses for 'the terminal's default' is not a colour value of this interface
           "-", " -", "--", "default", "none", "None",
           # names that read like replacement fields of a message template
           "{}", "{0}", "g{}", "{names}", "RED{x}", "{!r}", "{color}", "%s", "%(color)s", "{", "}",
           # bytes are no colour values, whatever they hold (three small bytes are no rgb triple)
           b"\x01\x02\x03", b"\x00\x00\x00", b"\x05\x00\x04", b"RED", b"g5", b"\x07"]


class VfCode(int):
    """a colour code of the application's own type"""


VfRGB = collections.namedtuple("VfRGB", "r g b")
VfShade = enum.IntEnum("VfShade", {"HOT": 196, "COLD": 21, "BLACK": 0, "LAST": 255})


class VfText(CHText):
    """an application's own text type"""


def all_single_values():
    vals = list(sgr.NAMES) + list(range(256))
    vals += [(r, g, b) for r in range(6) for g in range(6) for b in range(6)]
    vals += [f"g{k}" for k in range(24)]
    return vals


def rand_value(rng):
    r = rng.random()
    if r < 0.2:
        return None
    if r < 0.4:
        return rng.choice(sgr.NAMES)
    if r < 0.52:
        return rng.randrange(256)
    if r < 0.6:
        # a code given as an int of another type (an enumeration of the application, a subclass of int)
        return rng.choice([VfCode(rng.randrange(256)), rng.choice(list(VfShade))])
    if r < 0.8:
        t = (rng.randrange(6), rng.randrange(6), rng.randrange(6))
        if rng.random() < 0.25:
            return VfRGB(*t)       # (a named tuple of the application is a tuple)
        return t   # (a list [r, g, b] raises TypeError 'unhashable': only tuples are documented)
    return f"g{rng.randrange(24)}"


def check_spec(ctx, color, bg, effects, text, case):
    """one formatter over one text; returns the chunk (or None)"""
    kw = {k: True for k in effects}
    # (an effect is switched on by any true value: a flag read from a settings file is often 1 or "yes")
    given = {k: (True, 1, "yes", 2)[(len(text) + i) % 4] for i, k in enumerate(effects)}
    try:
        f = ColorFmt(color, bg_color=bg, **given)
        chunk = f(text)
        out = str(chunk)
    except Exception as err:
        ctx.violation("valid-specification-raises", {"type": type(err).__name__, "msg": str(err)[:100]}, case)
        return None
    want = sgr.expected_state(color, bg, **kw)
    try:
        got = sgr.cells(out)
        after = sgr.cells(out + "X")[-1]
    except sgr.SgrError as err:
        ctx.violation("malformed-or-bleeding-sequence", {"err": str(err), "out": out[:80]}, case)
        return None
    ctx.count("chunks_checked")
    if "".join(c for c, _ in got) != text:
        ctx.violation("visible-characters-differ", {"out": out[:80]}, case)
    bad = [st for _, st in got if st != want]
    if bad:
        ctx.violation("wrong-colour-or-effects", {"shown": repr(bad[0]), "requested": repr(want), "out": out[:60]}, case)
    if after[1] != sgr.DEFAULT:
        ctx.violation("colour-bleeds-after-chunk", {"out": out[:60]}, case)
    # strip: through the chunk's own entry point and through CHText's (which one is used first in
    # this process depends on the shard)
    ctx.count("strip_checks")
    strippers = [("chunk", chunk.strip_colors), ("CHText", CHText.strip_colors)]
    if STRIP_ORDER[0]:
        strippers.reverse()
    for who, fn in strippers:
        if fn(out) != text:
            ctx.violation("strip-colors-leaves-sequences", {"via": who, "stripped": fn(out)[:80]}, case)
    if chunk.plain_text() != text:
        ctx.violation("strip-colors-leaves-sequences", {"via": "plain_text"}, case)
    # no_color twin
    try:
        nc = str(ColorFmt(color, bg_color=bg, no_color=True, **kw)(text))
        if sgr.ESC in nc or nc != text:
            ctx.violation("no-color-formatter-emits-escape", {"out": nc[:60]}, case)
    except Exception as err:
        ctx.violation("no-color-formatter-raises", {"type": type(err).__name__}, case)
    # bytes twin
    try:
        nb = ColorBytes(color, bg_color=bg, no_color=True, **kw)(text.encode())
        if nb != text.encode():
            ctx.violation("no-color-formatter-emits-escape", {"cls": "ColorBytes", "out": repr(nb)[:60]}, case)
        b = ColorBytes(color, bg_color=bg, **kw)(text.encode())
        ctx.count("bytes_checks")
        if b != out.encode():
            ctx.violation("bytes-formatter-differs", {"bytes": repr(b)[:80], "text": out[:60]}, case)
    except Exception as err:
        ctx.violation("bytes-formatter-raises", {"type": type(err).__name__, "msg": str(err)[:80]}, case)
    return chunk, want


def check_invalid(ctx, value, as_bg, case):
    for cls in (ColorFmt, ColorBytes):
        try:
            if as_bg:
                cls(None, bg_color=value)
            else:
                cls(value)
        except ValueError:
            ctx.count("invalid_values_rejected")
        except Exception as err:
            ctx.violation("invalid-colour-raises-other-exception",
                          {"cls": cls.__name__, "type": type(err).__name__, "msg": str(err)[:80]}, case)
        else:
            ctx.violation("invalid-colour-accepted", {"cls": cls.__name__}, case)


def jv(v):
    return v  # tuples survive the replay files (vf.core.jsonable keeps them)


STRIP_ORDER = [False]


def run_shard(ctx):
    STRIP_ORDER[0] = bool(ctx.shard % 2)
    if ctx.shard == 0:
        for v in all_single_values():
            for as_bg in (False, True):
                ctx.evaluated()
                ctx.count("exhaustive_single_colour_specs")
                case = {"kind": "spec", "color": None if as_bg else jv(v), "bg": jv(v) if as_bg else None,
                        "effects": [], "text": "x"}
                check_spec(ctx, None if as_bg else v, v if as_bg else None, [], "x", case)
        for n in range(6):
            for eff in itertools.combinations(EFFECT_NAMES, n):
                for color in (None, 'RED', 200):
                    ctx.evaluated()
                    case = {"kind": "spec", "color": color, "bg": None, "effects": list(eff), "text": "ab"}
                    check_spec(ctx, color, None, list(eff), "ab", case)
                    if n >= 2:
                        ctx.nontrivial(repr((color, None, eff)))
        for v in INVALID:
            for as_bg in (False, True):
                ctx.evaluated()
                check_invalid(ctx, v, as_bg, {"kind": "invalid", "value": jv(v), "as_bg": as_bg})
    for i in range(ctx.cases):
        rng = ctx.rng(i)
        ctx.evaluated()
        if i % 10 == 9:
            v = rng.choice(INVALID + [rng.randint(256, 10 ** 6), -rng.randint(1, 10 ** 6),
                                      (rng.randint(6, 9), 0, 0), f"g{rng.randint(24, 999)}"])
            as_bg = rng.random() < 0.5
            check_invalid(ctx, v, as_bg, {"kind": "invalid", "value": jv(v), "as_bg": as_bg})
            continue
        # a text of several chunks
        parts = []
        model = []
        res = CHText()
        n_chunks = rng.choice([1, 1, 2, 3, 5])
        if rng.random() < 0.02:
            n_chunks = rng.choice([127, 128, 129, 200, 520])   # hundreds of sequences in one string
            ctx.count("texts_of_more_than_100_chunks")
        ok = True
        chunks = []
        for _ in range(n_chunks):
            color, bg = rand_value(rng), rand_value(rng)
            eff = [e for e in EFFECT_NAMES if rng.random() < 0.25]
            text = rng.choice(TEXTS)
            case = {"kind": "spec", "color": jv(color), "bg": jv(bg), "effects": eff, "text": text}
            got = check_spec(ctx, color, bg, eff, text, case)
            if got is None:
                ok = False
                break
            chunk, want = got
            if (color is not None and bg is not None) or len(eff) >= 2:
                ctx.nontrivial(repr((jv(color), jv(bg), eff)))
            parts.append(case)
            res += chunk
            chunks.append((chunk, text, want))
            model += [(c, want) for c in text]
            if rng.random() < 0.5:
                # the text is rendered (and measured) while it is being assembled
                try:
                    if sgr.cells(str(res)) != model or len(res) != len(model) or format(res, "") != str(res):
                        ctx.violation("intermediate-rendering-differs", {"out": str(res)[:120]},
                                      {"kind": "multi", "parts": list(parts)})
                except sgr.SgrError as err:
                    ctx.violation("malformed-or-bleeding-sequence", {"err": str(err)}, {"kind": "multi", "parts": list(parts)})
            if rng.random() < 0.4:
                plain = rng.choice(TEXTS)
                res += plain
                model += [(c, sgr.DEFAULT) for c in plain]
                parts.append({"kind": "plain", "text": plain})
        if not ok or n_chunks == 1:
            continue
        ctx.count("multi_chunk_texts")
        case = {"kind": "multi", "parts": parts}
        try:
            if sgr.cells(str(res)) != model:
                ctx.violation("multi-chunk-text-shows-wrong-colours", {"out": str(res)[:120]}, case)
        except sgr.SgrError as err:
            ctx.violation("malformed-or-bleeding-sequence", {"err": str(err), "out": str(res)[:80]}, case)
        if CHText.strip_colors(str(res)) != res.plain_text() or res.plain_text() != "".join(c for c, _ in model):
            ctx.violation("strip-colors-leaves-sequences", {"stripped": CHText.strip_colors(str(res))[:80]}, case)
        # a chunk is walked character by character (a loop, the constructor's argument list, a join): every piece is
        # one character of the chunk with the chunk's look
        c0, text0, want0 = chunks[0]
        if 0 < len(text0) <= 12:
            ctx.count("chunks_walked_character_by_character")
            try:
                walked = sgr.cells("".join(str(piece) for piece in c0))
                rebuilt = sgr.cells(str(CHText(*c0)))
                spaced = sgr.cells(str(CHText("-").join(c0)))
                wmodel = [(ch, want0) for ch in text0]
                smodel = [x for k, ch in enumerate(text0) for x in ([("-", sgr.DEFAULT)] if k else []) + [(ch, want0)]]
                # ... and a text made of this one chunk is padded to a fixed width: the padding is nobody's text, it has
                # the terminal's own look (and what follows is back in the default state)
                padded = sgr.cells(str(CHText(c0).fixed_len(len(text0) + 3)) + "|")
                if padded != wmodel + [(" ", sgr.DEFAULT)] * 3 + [("|", sgr.DEFAULT)]:
                    ctx.violation("padding-of-a-fixed-width-text-is-coloured", {"text": text0, "shown": str(padded)[:120]}, case)
                if walked != wmodel or rebuilt != wmodel or spaced != smodel:
                    ctx.violation("pieces-of-a-chunk-show-something-else", {"text": text0, "walked": str(walked)[:80],
                                                                            "joined": str(spaced)[:80]}, case)
            except sgr.SgrError as err:
                ctx.violation("malformed-or-bleeding-sequence", {"err": str(err), "walk": True}, case)
            except Exception as err:
                ctx.violation("walking-a-chunk-raises", {"type": type(err).__name__, "msg": str(err)[:100]}, case)
        if len(chunks) <= 5:
            # the same chunks handed to the list constructor the package's own printers use, with chunks of
            # empty text (in other colours) in between: they show nothing and colour nothing
            with_empty = []
            for k, (c, _, _) in enumerate(chunks):
                if rng.random() < 0.5:
                    with_empty.append(chunks[(k + 1) % len(chunks)][0].clone(""))
                with_empty.append(c)
            made = CHText.make(with_empty)
            mmodel = [(ch, want) for _, text, want in chunks for ch in text]
            ctx.count("texts_made_from_chunk_lists")
            try:
                if sgr.cells(str(made)) != mmodel or len(made) != len(mmodel):
                    ctx.violation("text-made-from-a-chunk-list-shows-wrong-colours", {"out": str(made)[:120]}, case)
            except sgr.SgrError as err:
                ctx.violation("malformed-or-bleeding-sequence", {"err": str(err), "out": str(made)[:80]}, case)
        if len(chunks) <= 5:
            # ... and cut / padded to a width the way table cells are (the cut may fall inside a chunk)
            n = rng.randint(0, len(mmodel) + 2)
            cut = CHText.make(CHText.resize_chunks_list([c for c, _, _ in chunks], n))
            cmodel = (mmodel + [(" ", sgr.DEFAULT)] * n)[:n]
            ctx.count("chunk_lists_resized")
            try:
                if sgr.cells(str(cut)) != cmodel:
                    ctx.violation("resized-chunk-list-shows-wrong-colours", {"out": str(cut)[:120], "width": n}, case)
            except sgr.SgrError as err:
                ctx.violation("malformed-or-bleeding-sequence", {"err": str(err), "out": str(cut)[:80]}, case)
        if len(chunks) <= 5:
            # the same chunks assembled by join on a coloured separator (a chunk or a text)
            (sep, sep_text, sep_want), items = chunks[0], chunks[1:]
            r_join = rng.random()
            sep_model = [(c, sep_want) for c in sep_text]
            if r_join < 0.4:
                joiner = sep
            elif r_join < 0.7:
                joiner = CHText(sep)
            else:
                # a separator made of several differently coloured chunks: " <sep> |"
                joiner = CHText(" ", sep, "|")
                sep_model = [(" ", sgr.DEFAULT)] + sep_model + [("|", sgr.DEFAULT)]
            joined = joiner.join([c if rng.random() < 0.7 else CHText(c) for c, _, _ in items] + ["pl"])
            jmodel = []
            for k, (_, text, want) in enumerate(items):
                jmodel += [(c, want) for c in text] + sep_model
            jmodel += [(c, sgr.DEFAULT) for c in "pl"]
            # ... and the same items handed over as ONE list of parts (strings, chunks and texts mixed)
            listed = CHText()
            listed += [c if k % 2 else CHText(c) for k, (c, _, _) in enumerate(chunks)] + ["pl"]
            lmodel = [(ch, want) for _, text, want in chunks for ch in text] + [(c, sgr.DEFAULT) for c in "pl"]
            ctx.count("texts_extended_by_a_list_of_parts")
            try:
                if sgr.cells(str(listed)) != lmodel or listed.plain_text() != "".join(c for c, _ in lmodel) \
                        or CHText.strip_colors(str(listed)) != listed.plain_text():
                    ctx.violation("list-of-parts-shows-wrong-text-or-colours", {"out": str(listed)[:120]}, case)
            except sgr.SgrError as err:
                ctx.violation("malformed-or-bleeding-sequence", {"err": str(err), "out": str(listed)[:80]}, case)
            ctx.count("joined_texts")
            try:
                if sgr.cells(str(joined)) != jmodel:
                    ctx.violation("joined-text-shows-wrong-colours",
                                  {"out": str(joined)[:120], "separator_is_chunk": joiner is sep}, case)
            except sgr.SgrError as err:
                ctx.violation("malformed-or-bleeding-sequence", {"err": str(err), "out": str(joined)[:80]}, case)
        if len(chunks) <= 5:
            # one chunk formatted to a width (f"{chunk:>10}"): the padding is not part of the chunk - it shows
            # no colour and no effect
            chunk, text, want = chunks[i % len(chunks)]
            pad = rng.choice([1, 2, 5])
            fill, align = rng.choice(["", "", "*", "."]), rng.choice("<>^")
            fch = fill or " "
            if rng.random() < 0.2:
                # the text happens to consist of the very character the field is filled with ("**" in a field of '*',
                # blanks in a field of blanks): which cells are text and which are filler still shows in the colours
                text = fch * rng.choice([1, 2, 3])
                chunk = chunk.clone(text)
                ctx.count("formatted_chunks_made_of_the_fill_character")
            spec = "%s%s%d" % (fill, align, len(text) + pad)
            left = {"<": 0, ">": pad, "^": pad // 2}[align]
            fmodel = [(fch, sgr.DEFAULT)] * left + [(c, want) for c in text] + [(fch, sgr.DEFAULT)] * (pad - left)
            ctx.count("single_chunks_formatted_to_a_width")
            try:
                out = format(chunk, spec)
                if sgr.cells(out) != fmodel:
                    ctx.violation("padding-of-a-formatted-chunk-is-coloured-or-misplaced", {"out": out[:120], "spec": spec}, case)
            except sgr.SgrError as err:
                ctx.violation("malformed-or-bleeding-sequence", {"err": str(err), "spec": spec}, case)
            # the chunks as a text of a class derived from CHText (an application's own text type), handed to
            # plain texts and chunks as an operand
            sub = VfText(*[c for c, _, _ in chunks])
            smodel = [(ch, want) for _, text, want in chunks for ch in text]
            how = i % 4
            if how == 0:
                mixed = CHText("p")
                mixed += sub
                xmodel = [("p", sgr.DEFAULT)] + smodel
            elif how == 1:
                mixed = CHText(sub, "x")
                xmodel = smodel + [("x", sgr.DEFAULT)]
            elif how == 2:
                mixed = chunks[0][0] + sub
                xmodel = [(c, chunks[0][2]) for c in chunks[0][1]] + smodel
            else:
                mixed = CHText("|").join([sub, "q", sub])
                xmodel = smodel + [("|", sgr.DEFAULT), ("q", sgr.DEFAULT), ("|", sgr.DEFAULT)] + smodel
            ctx.count("texts_of_a_derived_class_used_as_operands")
            try:
                if sgr.cells(str(mixed)) != xmodel or mixed.plain_text() != "".join(c for c, _ in xmodel) \
                        or len(mixed) != len(xmodel):
                    ctx.violation("operand-of-a-derived-text-class-shows-wrong-text-or-colours",
                                  {"out": str(mixed)[:120], "how": how}, case)
            except sgr.SgrError as err:
                ctx.violation("malformed-or-bleeding-sequence", {"err": str(err), "how": how}, case)
        if len(chunks) <= 5:
            # a text appended to itself (the documented 't += t', also as the only part of a list); its first and its
            # last chunk have one look, as a frame around a value has
            first, mid = chunks[0], chunks[1]
            frame = CHText(first[0], mid[0], first[0].clone("]") if i % 3 else first[0])
            fmodel2 = [(c, first[2]) for c in first[1]] + [(c, mid[2]) for c in mid[1]] + \
                [(c, first[2]) for c in ("]" if i % 3 else first[1])]
            if i % 2:
                frame += frame
            else:
                frame += [frame]
            ctx.count("texts_appended_to_themselves")
            try:
                if sgr.cells(str(frame)) != fmodel2 + fmodel2 or frame.plain_text() != "".join(c for c, _ in fmodel2) * 2 \
                        or len(frame) != 2 * len(fmodel2):
                    ctx.violation("text-appended-to-itself-shows-something-else",
                                  {"out": str(frame)[:160], "expected_text": "".join(c for c, _ in fmodel2) * 2}, case)
            except sgr.SgrError as err:
                ctx.violation("malformed-or-bleeding-sequence", {"err": str(err), "self_append": True}, case)
        if len(chunks) <= 5 and model:
            # a piece of the text cut with a stop far behind its end, then used like any text: its last character, the
            # piece in a field; and the whole text taken as a slice and extended - the text itself shows what it showed
            try:
                k = rng.randrange(len(model))
                piece = res[k:len(model) + rng.choice([1, 5, 100])]
                pmodel = model[k:]
                last = piece[-1:]
                field = format(piece, ">%d" % (len(pmodel) + 3))
                ctx.count("slices_with_a_stop_behind_the_end_used_again")
                if sgr.cells(str(last)) != pmodel[-1:] or len(piece) != len(pmodel) or \
                        sgr.cells(field) != [(" ", sgr.DEFAULT)] * 3 + pmodel:
                    ctx.violation("piece-of-a-text-shows-something-else-when-it-is-used-again",
                                  {"piece": str(piece)[:80], "last": str(last)[:40], "field": field[:80], "len": len(piece)}, case)
                whole = res[:] if i % 2 else res[:len(model) + 7]
                whole += chunks[0][0]
                if sgr.cells(str(res)) != model or len(res) != len(model):
                    ctx.violation("text-changed-when-a-slice-of-it-was-extended", {"out": str(res)[:120]}, case)
            except sgr.SgrError as err:
                ctx.violation("malformed-or-bleeding-sequence", {"err": str(err), "slice": True}, case)
        if i < 30 and len(ctx.samples) < 2:
            ctx.sample({"parts": parts, "rendered": str(res)})


def replay(ctx, case):
    ctx.evaluated()
    if case["kind"] == "invalid":
        v = case["value"]
        check_invalid(ctx, v, case["as_bg"], case)   # (Fraction / Decimal values come back as their repr: harmless)
    elif case["kind"] == "spec":
        check_spec(ctx, case["color"], case["bg"], case["effects"], case["text"], case)
    else:
        res = CHText()
        model = []
        chunks = []
        for p in case["parts"]:
            if p["kind"] == "plain":
                res += p["text"]
                model += [(c, sgr.DEFAULT) for c in p["text"]]
            else:
                got = check_spec(ctx, p["color"], p["bg"], p["effects"], p["text"], p)
                if got is None:
                    return
                res += got[0]
                model += [(c, got[1]) for c in p["text"]]
                chunks.append((got[0], p["text"], got[1]))
        if CHText.strip_colors(str(res)) != res.plain_text():
            ctx.violation("strip-colors-leaves-sequences", {"stripped": CHText.strip_colors(str(res))[:80]}, case)
        if 2 <= len(chunks) <= 5:
            (sep, sep_text, sep_want), items = chunks[0], chunks[1:]
            for joiner in (sep, CHText(sep)):
                jmodel = []
                for _, text, want in items:
                    jmodel += [(c, want) for c in text] + [(c, sep_want) for c in sep_text]
                jmodel += [(c, sgr.DEFAULT) for c in "pl"]
                try:
                    if sgr.cells(str(joiner.join([c for c, _, _ in items] + ["pl"]))) != jmodel:
                        ctx.violation("joined-text-shows-wrong-colours", {"separator_is_chunk": joiner is sep}, case)
                except sgr.SgrError as err:
                    ctx.violation("malformed-or-bleeding-sequence", {"err": str(err)}, case)
        try:
            if sgr.cells(str(res)) != model:
                ctx.violation("multi-chunk-text-shows-wrong-colours", {"out": str(res)[:120]}, case)
        except sgr.SgrError as err:
            ctx.violation("malformed-or-bleeding-sequence", {"err": str(err)}, case)
