"""C17 Layered HTTP connections compose adapters without side effects."""
import base64
import copy
import io
import urllib.error
import json
import random
from urllib.parse import urlencode

import vf
vf.use_repo()
from ak import conn_http as H  # noqa: E402
from ak.mcaller_http import MCallerHttp, method_http  # noqa: E402
from vf.core import sig_of  # noqa: E402

# building the real urllib opener loads the system certificates (35 ms per connection); the checks
# replace the opener by a recording fake anyway, so its construction is stubbed when possible
_impl = getattr(H, "_HttpConnImpl", None)
if _impl is not None and hasattr(_impl, "_make_opener"):
    _impl._make_opener = staticmethod(lambda *args, **kwargs: None)

ID = "C17"
LEVEL = "exploration"
RULE = ("chains of 1-5 wrappers over one address given as str, list, tuple or dict (with and without trailing slash) (HttpConn with 0-2 adapters given as list or single object, "
        "BAuthConn, ClientAuthConn, TokenAuthConn - at most one authenticating layer -, path prefixes with and "
        "without slashes, response recorders and response processors returning falsy members of the body); 30% of the histories "
        "with DEBUG logging of ak.conn_http switched on; histories on shared connections: request through X, derive Y from "
        "X, request through Y, through X again, add_adapter on a derived connection, two derivations from one adapters list object, MCallerHttp subclass with "
        "_HTTP_PREFIX_MAP built on X, clone() with None / one adapter / list, calls through the clone and through "
        "the original caller (cached prefixed connections), request through X again; arguments: all five verbs, "
        "params, str / bytes / dict / list bodies, caller headers; caller objects are deep-copied beforehand. A fake "
        "opener records every urllib Request. Oracle: the harness computes url, method, headers (Authorization "
        "decoded), body bytes and the response-adapter call order from the chain description. Non-trivial = "
        "history on a chain of >= 3 layers with an authenticating layer and a prefix; distinct by history.")
ASSUMPTIONS = ["adapters passed to clone() as a tuple are not exercised (the property speaks of one adapter or a list)",
               "X-Request-ID header is ignored here (C16)"]
TIERS = {
    "quick": {"shards": 4, "cases": 2000, "timeout": 300},
    "thorough": {"shards": 16, "cases": 20000, "timeout": 3000},
}
FLOORS = {"quick": {"wrappers_with_two_components_called": 6000,
                    "lazy_wrappers_consumed": 6000,
                    "distinct_nontrivial": 800, "requests_checked": 80000, "clone_with_list": 2000,
                    "requests_through_original_after_derivation": 15000, "caller_objects_checked": 30000,
                    "response_adapter_orders_checked": 80000, "requests_with_an_empty_path_segment": 2000,
                    "wrappers_of_a_derived_caller_class_called": 6000},
          "thorough": {"wrappers_with_two_components_called": 24000,
                       "lazy_wrappers_consumed": 24000,
                       "distinct_nontrivial": 25000, "requests_checked": 1200000, "clone_with_list": 30000,
                       "requests_through_original_after_derivation": 300000, "caller_objects_checked": 400000,
                       "response_adapter_orders_checked": 1200000, "requests_with_an_empty_path_segment": 30000,
                       "wrappers_of_a_derived_caller_class_called": 24000}}
LEVEL_TEXT = ("Runtime exploration over histories of requests and derivations on shared connection objects; every "
              "request that reaches the (fake) opener is compared with the request the harness derives from the "
              "chain description, and caller-owned objects with their deep copies.")
LEVEL_NOTE = "no network; responses are a fixed JSON body; one address per history"
TECHNIQUE = "runtime monitoring: expected-request model over histories of requests/derivations, recording opener"


class Resp:
    def __init__(self, method):
        self.data = b'{"r": 1, "zero": 0, "empty": [], "none": null, "txt": ""}'
        self._method = method
        self.code = 200

    def __enter__(self):
        return self

    def __exit__(self, *a):
        pass

    def read(self):
        return self.data

    def getheaders(self):
        return {}


class ErrBody(io.BytesIO):
    def __init__(self, method):
        super().__init__(b"")
        self._method = method

    def getheaders(self):
        return []


class Opener:
    def __init__(self):
        self.reqs = []
        self.fail_next = False
        self.empty_next = False

    def open(self, request):
        self.reqs.append(request)
        if self.empty_next:
            # the server answers 200 with an empty body (as many do for DELETE and PUT)
            self.empty_next = False
            resp = Resp(request.method)
            resp.data = b""
            return resp
        if self.fail_next:
            self.fail_next = False
            raise urllib.error.HTTPError(request.full_url, 503, "unavailable", {}, ErrBody(request.method))
        return Resp(request.method)


class Rec(H.RequestAdapter):
    """records the responses it has seen; like a list it has a length - zero when it is attached"""

    def __init__(self, tag, log):
        self.tag = tag
        self.log = log
        self.seen = 0

    def __len__(self):
        return self.seen

    def process_response(self, rv):
        self.log.append(self.tag)
        self.seen += 1
        return rv


class CountingPrefix(H.RequestAdapterAddPathPrefix):
    """a path-prefix adapter of the application that counts its requests (and has that count as its length)"""
    used = 0

    def __len__(self):
        return self.used

    def process_req_args(self, req_args):
        self.used += 1
        return super().process_req_args(req_args)


class Assign(H.RequestAdapter):
    """an adapter that changes the request by ASSIGNING new values to the request arguments (the caller's own
    objects must stay untouched): an api key parameter, a body envelope, a method override"""

    def __init__(self, what):
        self.what = what

    def process_req_args(self, req_args):
        if self.what == 'apikey':
            p = req_args.params
            req_args.params = (list(p.items()) if isinstance(p, dict) else list(p or [])) + [('api_key', 'K')]
        elif self.what == 'envelope':
            if not isinstance(req_args.data, bytes):
                req_args.data = {'env': req_args.data}
        elif self.what == 'address':
            req_args.address = "http://mirror.example/m"        # (the request goes to another server)
        else:
            req_args.method = 'OPTIONS'


class KeyInPath(H.RequestAdapterAddPathPrefix):
    """an authentication scheme of the application's own: the key travels in the path, and the adapter wants to
    see the responses (as the token-refreshing adapters of real services do)"""
    AUTH_TYPE = "key-in-path"

    def __init__(self, tag, log):
        super().__init__("/key/K")
        self.tag = tag
        self.log = log

    def process_response(self, rv):
        self.log.append(self.tag)
        return rv


RESPONSE = {"r": 1, "zero": 0, "empty": [], "none": None, "txt": ""}


class Unwrap(H.RequestAdapter):
    """response processor that replaces the decoded body by one of its members (often falsy)"""
    def __init__(self, key, log):
        self.key = key
        self.log = log

    def process_response(self, rv):
        self.log.append("u:" + self.key)
        if isinstance(rv, dict) and self.key in rv:
            return rv[self.key]
        return rv


class MA(MCallerHttp):
    @method_http(None, 'ca')
    def call_a(self, **kw):
        return self.get_conn().post("/m/a", **kw)

    @method_http(None, 'ca')
    def call_same(self, **kw):
        """both mixins have a method of this name: python runs this one (the first base)"""
        return self.get_conn().post("/m/s", **kw)

    @method_http(None, 'ca')
    def call_nested(self, **kw):
        """a wrapper of component 'ca' that only delegates to a wrapper of component 'cb'"""
        return self.call_b(**kw)


    @method_http(None, ['ca', 'cq'])
    def call_multi(self, **kw):
        """a wrapper that works with either of two components: each caller class knows one of them"""
        return self.get_conn().get("/m/x", **kw)

    def _send(self, **kw):
        """a plain helper of the caller class (no wrapper): the wrappers of several components share it"""
        return self.get_conn().post("/m/h", **kw)

    @method_http(None, 'ca')
    def call_helper_a(self, **kw):
        return self._send(**kw)

    @method_http(None, 'ca')
    def call_this(this, **kw):
        """a wrapper whose author calls the first parameter 'this'"""
        return this.get_conn().post("/m/t", **kw)

    @method_http(None, 'ca')
    def call_lazy(self, **kw):
        """a wrapper written as a generator: the request is sent when the caller takes the result"""
        yield self.get_conn().post("/m/l", **kw)


class MB(MCallerHttp):
    @method_http(None, 'cb')
    def call_b(self, **kw):
        return self.get_conn().get("m/b", **kw)

    @method_http(None, 'cb')
    def call_takes_lazy(self, **kw):
        """a wrapper of component 'cb' that takes the result of the lazy wrapper of component 'ca'"""
        return next(self.call_lazy(**kw))

    @method_http(None, 'cz')
    def call_helper_z(self, **kw):
        return self._send(**kw)

    @method_http(None, 'cb')
    def call_nested_this(me, **kw):
        """a wrapper of component 'cb' that delegates to the wrapper of component 'ca' above"""
        return me.call_this(**kw)

    @method_http
    def call_c(self, **kw):
        return self.get_conn().put("/m/c", **kw)

    @method_http(None, 'cz')
    def call_same(self, **kw):
        return self.get_conn().delete("/m/other", **kw)


class M(MA, MB):
    """a method caller composed of two mixins"""
    _HTTP_PREFIX_MAP = {'ca': '/cmpA', 'cb': '', 'cz': '/cmpZ'}


class EqPrefix(H.RequestAdapterAddPathPrefix):
    """a path-prefix adapter of the application with value semantics (as a dataclass has): two adapters adding
    the same prefix compare equal - they are still two adapters"""

    def __init__(self, prefix):
        super().__init__(prefix)
        self.vf_prefix = prefix

    def __eq__(self, other):
        return isinstance(other, EqPrefix) and other.vf_prefix == self.vf_prefix

    def __hash__(self):
        return hash(self.vf_prefix)


class M3(M):
    """a caller class that declares anew a wrapper it has inherited - for another component, with another path"""

    @method_http(None, 'cz')
    def call_a(self, **kw):
        return self.get_conn().post("/m/a3", **kw)


class M4(MCallerHttp):
    """a caller whose components live under prefixes that differ only in their slashes ('/srv' + 'list' and
    '/srv/' + 'list' are two addresses)"""
    # (... and a component whose name has a comma in it, next to a component called like one of its halves)
    # (... and a component whose name is the empty text)
    _HTTP_PREFIX_MAP = {'s1': '/srv', 's2': '/srv/', 's3': 'srv', 's4': '/Srv', 'srv,eu': '/eu/srv', 'eu': '/eu',
                        '': '/api/v1'}

    @method_http(None, '')
    def call_s6(self):
        return self.get_conn().get("list")

    @method_http(None, 'srv,eu')
    def call_s5(self):
        return self.get_conn().get("list")

    @method_http(None, 's1')
    def call_s1(self):
        return self.get_conn().get("list")

    @method_http(None, 's2')
    def call_s2(self):
        return self.get_conn().get("list")

    @method_http(None, 's3')
    def call_s3(self):
        return self.get_conn().get("list")

    @method_http(None, 's4')
    def call_s4(self):
        return self.get_conn().get("list")


class M2(MA, MB):
    """another caller class built from the same mixins: it reaches the other component of call_multi"""
    _HTTP_PREFIX_MAP = {'cq': '/cmpQ', 'cb': '', 'cz': '/z'}


def build(rng, log):
    address = rng.choice(["http://h", "http://h:80/", "https://h/base", "http://h/root/"])
    how = rng.choice(["str", "str", "list", "tuple", "dict"])
    if how == "str":
        conn = H.HttpConn(address)
    else:
        # the implementation object is built from the arguments as given: no trailing slash is removed
        conn = H.HttpConn([address] if how == "list" else (address,) if how == "tuple" else {'address': address})
        address = ("raw", address)
    layers = []
    auth_used = False
    for _ in range(rng.randint(0, 4)):
        r = rng.random()
        if r < 0.25 and not auth_used:
            auth_used = True
            kind = rng.choice(['b', 'c', 't', 'k'])
            # (some secrets are long generated ones)
            # (... and some are numbers: a PIN from a configuration file read as int, as float, as bool)
            secret = rng.choice(["p@ss é", "sec", "S3cr3t/" * 11, "k" * 57, "é" * 40, 1, True, 1.0, 1234, 1234.0])
            if kind == 'k':
                tag = "k%d" % rng.randrange(10 ** 6)
                conn = H.HttpConn(conn, adapters=[KeyInPath(tag, log)])
                layers.append([('prefix', "/key/K"), ('rec', tag)])
            elif kind == 'b':
                conn = H.BAuthConn(conn, "us:er", secret)
                layers.append([('auth', "Basic", "us:er:" + str(secret))])
            elif kind == 'c':
                conn = H.ClientAuthConn(conn, "nm", "cid", secret)
                layers.append([('auth', "Basic", "cid:" + str(secret))])
            else:
                conn = H.TokenAuthConn(conn, "tok123")
                layers.append([('auth', "Bearer", "tok123")])
        else:
            own = []
            ads = []
            for _ in range(rng.randint(0, 2)):
                if rng.random() < 0.6:
                    p = rng.choice(["/x", "/y/", "z", "/v1"])
                    ads.append(H.RequestAdapterAddPathPrefix(p) if rng.random() < 0.6 else EqPrefix(p))
                    own.append(('prefix', p))
                elif rng.random() < 0.15:
                    what = rng.choice(['apikey', 'envelope', 'method', 'address'])
                    ads.append(Assign(what))
                    own.append(('assign', what))
                elif rng.random() < 0.25:
                    key = rng.choice(["zero", "empty", "none", "txt", "r"])
                    ads.append(Unwrap(key, log))
                    own.append(('unwrap', key))
                else:
                    tag = "t%d" % rng.randrange(10 ** 6)
                    ads.append(Rec(tag, log))
                    own.append(('rec', tag))
            arg = ads if len(ads) != 1 or rng.random() < 0.5 else ads[0]
            conn = H.HttpConn(conn, adapters=arg)
            layers.append(own)
            if rng.random() < 0.25:
                # one more adapter is attached to the finished connection (it is asked last, so it acts like an
                # innermost layer); it may be EQUAL to an adapter that is in the chain already
                have = [a[1] for layer in layers for a in layer if a[0] == 'prefix' and not a[1].startswith("/key")]
                p = rng.choice(have) if have and rng.random() < 0.7 else "/late"
                conn.add_adapter(EqPrefix(p))
                layers.insert(0, [('prefix', p)])
    return conn, address, layers


def expected(address, layers, path, method, params, data, headers):
    order = [a for layer in reversed(layers) for a in layer]
    hdr = dict(headers or {})
    for a in order:
        if a[0] == 'prefix':
            p = a[1]
            sp = path
            if sp and sp.startswith('/') and p.endswith('/'):
                sp = sp[1:]
            path = p + sp
        elif a[0] == 'auth':
            for k in [k for k in hdr if k.lower() == 'authorization']:
                del hdr[k]      # (one header, however the caller spelled it)
            hdr['Authorization'] = (a[1], a[2])
        elif a[0] == 'assign':
            if a[1] == 'apikey':
                params = (list(params.items()) if isinstance(params, dict) else list(params or [])) + [('api_key', 'K')]
            elif a[1] == 'envelope':
                if not isinstance(data, bytes):
                    data = {'env': data}
            elif a[1] == 'address':
                address = ("raw", "http://mirror.example/m")
            else:
                method = 'OPTIONS' 
    if params:
        path += "?" + urlencode(params)
    if isinstance(address, tuple):
        addr = address[1]          # "address + path", a '/' is inserted only when neither side has one
        if not addr.endswith('/') and not path.startswith('/'):
            path = '/' + path
    else:
        addr = address[:-1] if address.endswith('/') else address
        if not path.startswith('/'):
            path = '/' + path
    url = addr + path
    if data is None:
        body = None
    elif isinstance(data, bytes):
        body = data
    elif isinstance(data, str):
        body = data.encode()
    else:
        body = json.dumps(data).encode()
        hdr.setdefault('Content-Type', 'application/json')
    rec = [a[1] if a[0] == 'rec' else "u:" + a[1] for a in reversed(order) if a[0] in ('rec', 'unwrap')]
    return url, method, hdr, body, rec


def expected_return(layers, body=None):
    """what the request returns: the decoded body pushed through the response processors in
    reverse order of the adapters"""
    order = [a for layer in reversed(layers) for a in layer]
    rv = dict(RESPONSE) if body is None else body
    for a in reversed(order):
        if a[0] == 'unwrap' and isinstance(rv, dict) and a[1] in rv:
            rv = rv[a[1]]
    return rv


class Stop(Exception):
    pass


def run_history(ctx, rng, case):
    import logging
    lg = logging.getLogger("ak.conn_http")
    old_level, old_prop = lg.level, lg.propagate
    debug_on = rng.random() < 0.3
    if debug_on:
        # detailed logging switched on (as `-vvv` of a script does): requests must be the same
        lg.setLevel(logging.DEBUG)
        lg.propagate = False
        if not lg.handlers:
            lg.addHandler(logging.NullHandler())
        ctx.count("histories_with_debug_logging")
    try:
        return _run_history(ctx, rng, case)
    finally:
        lg.setLevel(old_level)
        lg.propagate = old_prop


def _run_history(ctx, rng, case):
    log = []
    steps = []

    def fail(mech, detail):
        ctx.violation(mech, dict(detail, steps=steps[-6:], layers=repr(layers)[:400]), case)
        raise Stop()

    def check_req(req, exp, tag):
        url, method, hdr, body, rec = exp
        ctx.count("requests_checked")
        if req.full_url != url:
            fail("wrong-url", {"step": tag, "got": req.full_url, "expected": url})
        if req.get_method() != method:
            fail("wrong-method", {"step": tag, "got": req.get_method(), "expected": method})
        if req.data != body:
            fail("wrong-body-encoding", {"step": tag, "got": repr(req.data), "expected": repr(body)})
        got = {k.lower(): v for k, v in req.header_items()}
        for k, v in got.items():
            text = v.decode('latin-1') if isinstance(v, bytes) else str(v)
            if "\n" in text or "\r" in text:
                # (http.client refuses to send such a header: the request would never leave)
                fail("header-value-cannot-be-sent", {"step": tag, "header": k, "value": text[:80]})
        got.pop('x-request-id', None)
        for k, v in hdr.items():
            g = got.pop(k.lower(), None)
            if k == 'Authorization' and isinstance(v, tuple):
                g = g.decode() if isinstance(g, bytes) else g
                kind, cred = v
                if g is None or not g.startswith(kind + " "):
                    fail("authorization-header-missing-or-wrong-scheme", {"step": tag, "got": g})
                val = g[len(kind) + 1:]
                if kind == "Basic":
                    try:
                        val = base64.b64decode(val, validate=True).decode()     # (strictly: what a server does)
                    except Exception:
                        fail("authorization-does-not-decode", {"step": tag, "got": g})
                if val != cred:
                    fail("authorization-decodes-to-wrong-credentials", {"step": tag, "got": val, "expected": cred})
            elif g != v:
                fail("caller-header-lost-or-changed", {"step": tag, "header": k, "got": g, "expected": v})
        if got:
            fail("unexpected-headers", {"step": tag, "headers": got})
        ctx.count("response_adapter_orders_checked")
        if log != rec:
            fail("response-adapters-not-applied-once-in-reverse-order", {"step": tag, "called": list(log),
                                                                          "expected": rec})

    try:
        conn, address, layers = build(rng, log)
        op = Opener()
        conn.conn_impl.opener = op

        def do(c, lay, tag):
            verb = rng.choice(['get', 'post', 'put', 'delete', 'patch'])
            path = rng.choice(["/p", "p/q", "", "/a b", "//bucket/key", "/p//q/", "http://other.example/x",
                               "HTTPS://h/p", "/http://h/p"] if rng.random() < 0.3 else
                              ["/p", "p/q", "", "/a b"])
            if "//" in path:
                # (also a path that reads like an address: it is a path, the request goes to this connection's server)
                ctx.count("requests_with_an_empty_path_segment")
            params = rng.choice([None, {}, {'a': 1, 'b': 'x y'}, {'q': 'é&='},
                                 [('tag', 'red'), ('tag', 'blue'), ('page', 1)], (('k', 'v'), ('k', 'v'))])
            data = rng.choice([None, "txt", b"\x00b", {'k': [1, 2]}, [1, "é"], "", 0])
            headers = rng.choice([None, {}, {'X-A': '1'}, {'Content-Type': 'text/x', 'X-B': 'q'},
                                  {'Authorization': 'Bearer stale-token', 'X-A': '2'},
                                  # (header names are case-insensitive: the same header, spelled the caller's way)
                                  {'authorization': 'Bearer stale-token'},
                                  {'X-A': '3', 'aUTHORIZATION': 'Basic c3RhbGU6c3RhbGU='}])
            own_auth = bool(headers) and any(k.lower() == 'authorization' for k in headers)
            if own_auth and 'Authorization' not in headers:
                ctx.count("requests_whose_caller_spells_the_authorization_header_its_own_way")
            layer_auth = any(a[0] == 'auth' for layer in lay for a in layer)
            keep = copy.deepcopy((params, data, headers))
            exp = expected(address, lay, path, verb.upper(), *copy.deepcopy(keep))
            steps.append([tag, verb, path, repr(params), repr(data), repr(headers)])
            del log[:]
            n_before = len(op.reqs)
            if rng.random() < 0.25:
                # somebody looks at the connection (its description is composed on demand and cached)
                try:
                    str(c), repr(c)
                    ctx.count("connections_described_between_requests")
                except Exception:
                    ctx.count("describing_a_connection_raises(observed)")
            if rng.random() < 0.07 and not (own_auth and layer_auth):
                # the server answers with an error: the exception reaches the caller, the request was the right
                # one, and the connection works as before afterwards
                op.fail_next = True
                try:
                    getattr(c, verb)(path, params=params, data=data, headers=headers)
                    fail("http-error-swallowed", {"step": tag})
                except urllib.error.HTTPError:
                    ctx.count("requests_answered_with_an_http_error")
                except Exception as err:
                    fail("request-raises", {"step": tag, "type": type(err).__name__, "msg": str(err)[:150]})
                if len(op.reqs) != n_before + 1:
                    fail("not-exactly-one-request-sent", {"step": tag, "sent": len(op.reqs) - n_before})
                if (params, data, headers) != keep:
                    fail("caller-objects-modified", {"step": tag})
                log_save = list(log)
                del log[:]
                check_req(op.reqs[-1], (exp[0], exp[1], exp[2], exp[3], []), tag + " (http error)")
                n_before = len(op.reqs)
                del log_save
            raw = rng.random() < 0.12
            empty_body = not raw and rng.random() < 0.1
            if empty_body:
                op.empty_next = True
                ctx.count("requests_answered_with_an_empty_body")
            try:
                ret = getattr(c, verb)(path, params=params, data=data, headers=headers, **({'raw_response': True} if raw else {}))
                op.empty_next = False
            except Exception as err:
                op.empty_next = False
                if own_auth and layer_auth and len(op.reqs) == n_before:
                    # the caller's own Authorization header meets an authenticating layer: refusing the request
                    # is fine, sending it with the caller's value is not
                    ctx.count("requests_with_conflicting_authorization_refused")
                    return
                fail("request-raises", {"step": tag, "type": type(err).__name__, "msg": str(err)[:150]})
            if len(op.reqs) != n_before + 1:
                fail("not-exactly-one-request-sent", {"step": tag, "sent": len(op.reqs) - n_before})
            want_ret = expected_return(lay, "" if empty_body else None)
            if raw:
                # (the response object itself goes through the processors - which are still all called)
                ctx.count("raw_responses_requested")
                if not isinstance(ret, Resp):
                    fail("returned-value-differs-from-processed-response", {"step": tag, "got": repr(ret)[:80],
                                                                            "expected": "the response object"})
            elif ret != want_ret or type(ret) is not type(want_ret):
                fail("returned-value-differs-from-processed-response", {"step": tag, "got": repr(ret)[:80],
                                                                        "expected": repr(want_ret)[:80]})
            ctx.count("caller_objects_checked")
            if (params, data, headers) != keep:
                fail("caller-objects-modified", {"step": tag, "before": repr(keep), "after": repr((params, data, headers))})
            check_req(op.reqs[-1], exp, tag)

        do(conn, layers, "orig")
        if rng.random() < 0.6:
            d = H.HttpConn(conn, adapters=H.RequestAdapterAddPathPrefix("/d"))
            d_layers = layers + [[('prefix', "/d")]]
        else:
            # derived connection without own adapters
            d = H.HttpConn(conn, adapters=rng.choice([None, []]))
            d_layers = layers + [[]]
        do(d, d_layers, "derived")
        do(conn, layers, "orig after derive")
        ctx.count("requests_through_original_after_derivation")
        d_now = d_layers
        if rng.random() < 0.5:
            # add_adapter on the derived connection must not leak into the original
            tag = "t%d" % rng.randrange(10 ** 6)
            extra = Rec(tag, log) if rng.random() < 0.5 else H.RequestAdapterAddPathPrefix("/late")
            d.add_adapter(extra)
            steps.append(["add_adapter on derived"])
            added = ('rec', tag) if isinstance(extra, Rec) else ('prefix', "/late")
            # own adapters of the derived connection come first, parents' follow, the added one is last
            d_layers2 = [[added]] + d_layers
            d_now = d_layers2
            do(d, d_layers2, "derived after add_adapter")
            do(conn, layers, "orig after add_adapter on derived")
            ctx.count("requests_through_original_after_derivation")
        if rng.random() < 0.5:
            # the caller keeps its list of adapters and uses the same list object again
            shared = [H.RequestAdapterAddPathPrefix("/s1")]
            if rng.random() < 0.5:
                shared.append(H.RequestAdapterAddPathPrefix("/s2"))
            shared_descr = [('prefix', a.prefix) for a in shared]
            keep_ids = [id(a) for a in shared]
            e1 = H.HttpConn(conn, adapters=shared)
            e2 = H.HttpConn(d, adapters=shared)
            steps.append(["two derivations from one adapters list"])
            do(e1, layers + [shared_descr], "first user of shared list")
            do(e2, d_now + [shared_descr], "second user of shared list")
            do(e1, layers + [shared_descr], "first user again")
            if rng.random() < 0.5:
                # the first user gets one more adapter: that is its own business - the caller's list stays what it
                # is, and a connection made from that list afterwards knows nothing of it
                e1.add_adapter(H.RequestAdapterAddPathPrefix("/e1only"))
                steps.append(["add_adapter on the first user of the shared list"])
                e3 = H.HttpConn(conn, adapters=shared)
                do(e3, layers + [shared_descr], "third user of shared list")
                # (an adapter added later is asked last: it acts like an innermost layer)
                do(e1, [[('prefix', "/e1only")]] + layers + [shared_descr], "first user after add_adapter")
                ctx.count("connections_made_from_a_list_whose_earlier_user_got_another_adapter")
            if [id(a) for a in shared] != keep_ids:
                fail("caller-adapter-list-modified", {"len_before": len(keep_ids), "len_after": len(shared)})
            do(conn, layers, "orig after shared-list derivations")
        m = M(conn if isinstance(conn, H.HttpConn) else H.HttpConn(conn))
        ml = layers if isinstance(conn, H.HttpConn) else layers + [[]]
        a1, a2 = (CountingPrefix if rng.random() < 0.5 else H.RequestAdapterAddPathPrefix)("/c1"), \
            H.RequestAdapterAddPathPrefix("/c2")
        how = rng.choice(['none', 'one', 'list', 'list'])
        steps.append(["clone", how])
        clone_arg = None if how == 'none' else a1 if how == 'one' else [a1, a2]
        try:
            cl = m.clone(clone_arg)
            if how == 'list' and rng.random() < 0.5:
                m.clone(clone_arg)      # a second clone from the very same list object
                if clone_arg != [a1, a2]:
                    fail("caller-adapter-list-modified", {"len_after": len(clone_arg)})
        except Exception as err:
            fail("clone-raises", {"how": how, "type": type(err).__name__, "msg": str(err)[:150]})
        if how == 'none' and rng.random() < 0.6:
            # the clone's connection gets an adapter of its own: requests through the original stay what they were
            try:
                cl.http_conn.add_adapter(H.RequestAdapterAddPathPrefix("/cl-own"))
                steps.append(["add_adapter on the connection of the clone"])
                do(m.http_conn, ml, "connection of the original after add_adapter on the clone's")
                ctx.count("clones_without_adapters_whose_connection_got_one_later")
            except Stop:
                raise
            except Exception as err:
                fail("clone-raises", {"how": how, "type": type(err).__name__, "msg": str(err)[:150]})
            how = 'late'
        if how == 'list':
            ctx.count("clone_with_list")
        cl_layers = ([[('prefix', "/cl-own")]] if how == 'late' else []) + ml + [[] if how in ('none', 'late') else [('prefix', "/c1")] if how == 'one'
                          else [('prefix', "/c1"), ('prefix', "/c2")]]
        # two caller classes made of the same mixins are used in this process, in either order
        m2 = M2(conn if isinstance(conn, H.HttpConn) else H.HttpConn(conn))
        pairs = [(m, '/cmpA', "first class"), (m2, '/cmpQ', "second class")]
        if rng.random() < 0.5:
            pairs.reverse()
        for mc, prefix, tag in pairs + pairs[:1]:
            del log[:]
            steps.append([tag, "call_multi"])
            try:
                mc.call_multi()
            except Exception as err:
                fail("method-caller-raises", {"step": tag, "method": "call_multi", "type": type(err).__name__,
                                              "msg": str(err)[:150]})
            check_req(op.reqs[-1], expected(address, ml + [[('prefix', prefix)]], "/m/x", "GET", None, None, None),
                      tag + " call_multi")
            ctx.count("wrappers_with_two_components_called")
        # a wrapper declared anew in a derived caller class is the one that runs, with its own component
        m3 = M3(conn if isinstance(conn, H.HttpConn) else H.HttpConn(conn))
        for name, suffix, path, method in (("call_a", [[('prefix', '/cmpZ')]], "/m/a3", "POST"),
                                           ("call_b", [], "m/b", "GET"),
                                           ("call_same", [[('prefix', '/cmpA')]], "/m/s", "POST")):
            del log[:]
            steps.append(["derived caller class", name])
            try:
                getattr(m3, name)()
            except Exception as err:
                fail("method-caller-raises", {"step": "derived caller class", "method": name,
                                              "type": type(err).__name__, "msg": str(err)[:150]})
            check_req(op.reqs[-1], expected(address, ml + suffix, path, method, None, None, None),
                      "derived caller class " + name)
            ctx.count("wrappers_of_a_derived_caller_class_called")
        # components whose prefixes read alike, all used through ONE caller object, in any order, more than once
        m4 = M4(conn if isinstance(conn, H.HttpConn) else H.HttpConn(conn))
        names = [("call_s1", "/srv"), ("call_s2", "/srv/"), ("call_s3", "srv"), ("call_s4", "/Srv"), ("call_s5", "/eu/srv"), ("call_s6", "/api/v1")]
        for name, prefix in [rng.choice(names) for _ in range(5)]:
            del log[:]
            steps.append(["caller with look-alike prefixes", name])
            try:
                getattr(m4, name)()
            except Exception as err:
                fail("method-caller-raises", {"step": "caller with look-alike prefixes", "method": name,
                                              "type": type(err).__name__, "msg": str(err)[:150]})
            check_req(op.reqs[-1], expected(address, ml + [[('prefix', prefix)]], "list", "GET", None, None, None),
                      "caller with look-alike prefixes " + name)
            ctx.count("wrappers_of_components_with_look_alike_prefixes_called")
        for mc, lay, tag in [(cl, cl_layers, "clone " + how), (m, ml, "caller after clone"),
                             (cl, cl_layers, "clone again")]:
            for name, suffix, path, method in (("call_a", [[('prefix', '/cmpA')]], "/m/a", "POST"),
                                               ("call_b", [], "m/b", "GET"),
                                               ("call_a", [[('prefix', '/cmpA')]], "/m/a", "POST"),
                                               ("call_same", [[('prefix', '/cmpA')]], "/m/s", "POST"),
                                               ("call_nested", [], "m/b", "GET"),
                                               ("call_helper_a", [[('prefix', '/cmpA')]], "/m/h", "POST"),
                                               ("call_helper_z", [[('prefix', '/cmpZ')]], "/m/h", "POST"),
                                               ("call_helper_a", [[('prefix', '/cmpA')]], "/m/h", "POST"),
                                               ("call_this", [[('prefix', '/cmpA')]], "/m/t", "POST"),
                                               ("call_nested_this", [[('prefix', '/cmpA')]], "/m/t", "POST"),
                                               ("call_lazy", [[('prefix', '/cmpA')]], "/m/l", "POST"),
                                               ("call_takes_lazy", [[('prefix', '/cmpA')]], "/m/l", "POST"),
                                               ("call_c", [], "/m/c", "PUT")):
                del log[:]
                steps.append([tag, name])
                try:
                    res = getattr(mc, name)()
                    if name == "call_lazy":
                        next(res)       # (plain code takes the result of the lazy wrapper)
                        ctx.count("lazy_wrappers_consumed")
                except Exception as err:
                    fail("method-caller-raises", {"step": tag, "method": name, "type": type(err).__name__,
                                                  "msg": str(err)[:150]})
                check_req(op.reqs[-1], expected(address, lay + suffix, path, method, None, None, None),
                          tag + " " + name)
        # the prefix of a live path-prefix adapter is re-assigned between two requests (its public attribute)
        moving = H.RequestAdapterAddPathPrefix("/api/v1/")
        e3 = H.HttpConn(conn, adapters=[moving])
        do(e3, layers + [[('prefix', "/api/v1/")]], "before the prefix is re-assigned")
        moving.prefix = rng.choice(["/api/v2/", "/api/v2", "v3/"])
        do(e3, layers + [[('prefix', moving.prefix)]], "after the prefix was re-assigned")
        ctx.count("prefixes_re_assigned_between_requests")
        do(conn, layers, "orig after clones")
        ctx.count("requests_through_original_after_derivation")
        flat = [a for layer in layers for a in layer]
        if len(layers) >= 3 and any(a[0] == 'auth' for a in flat) and any(a[0] == 'prefix' for a in flat):
            ctx.nontrivial(sig_of([list(address) if isinstance(address, tuple) else address, layers, steps]))
    except Stop:
        pass
    return steps


def run_shard(ctx):
    for i in range(ctx.cases):
        ctx.evaluated()
        case = {"rng_key": ctx.rng_key(i)}
        steps = run_history(ctx, ctx.rng(i), case)
        if i < 2:
            ctx.sample({"history": steps[:8]})


def replay(ctx, case):
    ctx.evaluated()
    run_history(ctx, random.Random(case["rng_key"]), case)
