"""C04 Source positions are exact and cover the text."""
import vf
vf.use_repo()
from ak import llparser  # noqa: E402
from vf.core import sig_of  # noqa: E402
from vf import llmon  # noqa: E402

ID = "C04"
LEVEL = "exploration"
RULE = ("texts are assembled from pieces (words, keyword, numbers, quoted strings with blanks and "
        "non-ASCII letters, ';', brackets, // comments, /* */ comments closing on the same or on a later "
        "line, blank runs with tabs, form feeds and other whitespace characters, line breaks, blank lines, trailing blanks) while the harness tracks "
        "(line, column) of every piece itself; each text is given as str, as list of lines and as a lazy iterable of lines during whose "
        "consumption the same parser parses another text, to four "
        "tokenizer configurations (comments skipped / comments as grammar tokens / blanks as grammar "
        "tokens / no span matcher / only ' ' is space, so a trailing TAB is an unmatched character) and parsed (both smart_factorization values) with a statement grammar that has common-prefix "
        "groups (left-factorized productions with an empty remainder, also with an empty prefix) and nullable nodes before "
        "';', before ')' , at line ends and at the end of the text. Observed: the complete token stream "
        "of the parser's tokenizer and every node of the raw tree. Non-trivial = text of >=2 lines "
        "with a multi-line span token or an empty node whose following token is on a later line; "
        "distinct by (configuration, text, form).")
ASSUMPTIONS = ["str input is right-stripped line by line by the tokenizer (documented behaviour): a trailing "
               "blank run is a token only when the text is given as list of lines",
               "the position of the end-of-text token is only required to be an empty span not before the "
               "last token and inside the text"]
TIERS = {
    "quick": {"shards": 4, "cases": 4000, "timeout": 300},
    "thorough": {"shards": 16, "cases": 12000, "timeout": 3000},
}
FLOORS = {"quick": {"lexical_errors_behind_a_syntax_error_checked": 500, "sequence_nodes_checked": 1800,
                    "original_text_asked_with_the_text_in_another_form": 100000,
                    "distinct_nontrivial": 800, "tokens_checked": 50000, "nodes_checked": 30000,
                    "empty_nodes_checked": 2000, "multiline_span_tokens": 500, "lexical_errors_checked": 300,
                    "first_tokens_of_later_lines": 5000},
          "thorough": {"lexical_errors_behind_a_syntax_error_checked": 2100, "sequence_nodes_checked": 7500,
                       "original_text_asked_with_the_text_in_another_form": 400000,
                       "distinct_nontrivial": 30000, "tokens_checked": 2000000, "nodes_checked": 1000000,
                       "empty_nodes_checked": 80000, "multiline_span_tokens": 20000,
                       "lexical_errors_checked": 10000, "first_tokens_of_later_lines": 200000}}
LEVEL_TEXT = ("Runtime exploration with an exact reference: the harness builds every text from pieces and knows "
              "the (line, column) span of each piece, so the whole token stream and every tree node of the real "
              "tokenizer/parser can be compared position by position, and get_orig_text can be compared with "
              "the harness' own slice of the text.")
LEVEL_NOTE = ("Only ASCII blanks/tabs and '\\n' line breaks; one family of token patterns; the end-of-text "
              "token's position is only bounded, not fixed.")
TECHNIQUE = "runtime monitoring: position-tracking text generator as reference model for token stream and tree spans"

TOK = r"""(?P<SPACE>\s+)|(?P<COMMENT_EOL>//.*)|(?P<COMMENT_ML>/\*)|(?P<WORD>[a-z_]+)|(?P<NUM>[0-9]+)
          |(?P<SEMI>;)|(?P<STRING>"[^"]*")|(?P<LP>\()|(?P<RP>\))"""
TOK_NARROW = r"""(?P<SPACE>[ ]+)|(?P<COMMENT_EOL>//.*)|(?P<COMMENT_ML>/\*)|(?P<WORD>[a-z_]+)|(?P<NUM>[0-9]+)
          |(?P<SEMI>;)|(?P<STRING>"[^"]*")|(?P<LP>\()|(?P<RP>\))"""
TOK_NOSPAN = r"""(?P<SPACE>\s+)|(?P<COMMENT_EOL>//.*)|(?P<WORD>[a-z_]+)|(?P<NUM>[0-9]+)
          |(?P<SEMI>;)|(?P<STRING>"[^"]*")|(?P<LP>\()|(?P<RP>\))"""
TOK_PASCAL = r"""(?P<SPACE>\s+)|(?P<COMMENT_EOL>//.*)|(?P<COMMENT_ML>\(\*)|(?P<WORD>[a-z_]+)|(?P<NUM>[0-9]+)
          |(?P<SEMI>;)|(?P<STRING>"[^"]*")|(?P<LP>\()|(?P<RP>\))"""
# (written the way the tokenizer pattern may be written: blanks and a comment inside the regexp)
SPAN_PASCAL = {'COMMENT_ML': r"""(?P<END_COMMENT> ( \*[^)] | [^*] )* )
                                 \*\)      # the closer"""}
# two kinds of multi-line comments in one tokenizer, each with its own closer
TOK_TWO = TOK.replace("(?P<LP>", "(?P<COMMENT_P>\\(\\*)|(?P<LP>")
SPAN_TWO = {'COMMENT_ML': None, 'COMMENT_P': r"(?P<END_COMMENT_P>(\*[^)]|[^*])*)\*\)"}
SPAN = {'COMMENT_ML': r"(?P<END_COMMENT>(\*[^/]|[^*])*)\*/"}
# the closing mark is a token of its own: the multi-line token ends IN FRONT of it (the span regexp closes with a
# look-ahead, which may match nothing at all: right behind the opener, or at the start of a later line)
TOK_LA = TOK.replace("(?P<WORD>", "(?P<COMMENT_END>\\*/)|(?P<WORD>")
SPAN_LA = {'COMMENT_ML': r"(?P<END_COMMENT>(\*[^/]|[^*])*?)(?=\*/)"}
# the tokenizer pattern of a case-insensitive language starts with an inline flag; the comments of that language are
# closed by 'x*/' - a small x (the span regexp is the user's own regular expression: it has no such flag)
TOK_CI = "(?i)" + TOK
SPAN_CI = {'COMMENT_ML': r"(?P<END_COMMENT>((?!x\*/).)*)x\*/"}
# a block comment that is closed by '<<<' or by the first empty line (the closer regexp matches an empty line)
TOK_BL = TOK.replace("(?P<COMMENT_ML>/\\*)", "(?P<COMMENT_ML>>>>)")
SPAN_BL = {'COMMENT_ML': r"(?P<END_COMMENT>.*?)(?:<<<|^$)"}
SYN = {'COMMENT_EOL': 'COMMENT', 'COMMENT_ML': 'COMMENT', 'SEMI': ';', 'LP': '(', 'RP': ')'}
SPAN_TWO['COMMENT_ML'] = SPAN['COMMENT_ML']
SYN_TWO = dict(SYN, COMMENT_P='COMMENT')
SYN_LA = dict(SYN, COMMENT_END='COMMENT')
SYN_NOSPAN = {'COMMENT_EOL': 'COMMENT', 'SEMI': ';', 'LP': '(', 'RP': ')'}
KEYW = {('WORD', 'if'): 'IF', ('WORD', 'do'): 'DO'}

STMT_PRODS = {
    'E': [('STMTS',)],
    'STMTS': [('STMT', 'STMTS'), ()],
    'STMT': [('WORD', 'OPTNUM', ';'), ('IF', 'OPTW', 'OPTNUM', ';'), ('NUM', 'OPTW', ';'),
             ('STRING', 'MORE', ';'), ('(', 'STMTS', ')'), ('DO', 'DECL', ';'),
             # reached only by backtracking: "( ab )" first fails as a block, then LBL tries WORD NUM, gives the
             # WORD back and matches nothing - in front of the very token it had consumed
             ('(', 'LBL', 'WORD', ')')],
    # further string literals behind the first one: a sequence template (its node is a leaf holding the elements)
    'MORE': "sequence of STRING",
    'LBL': [('WORD', 'NUM'), ()],
    'OPTNUM': [('NUM',), ()],
    'OPTW': [('WORD',), ()],
    # groups of alternatives with a common prefix (left-factorized by the parser), one alternative
    # of each group being the bare prefix; the prefix of the third group can be empty
    # (longer alternative first: when the smart undo leaves a group un-factorized the parser tries
    # the alternatives in this order and can only fall back inside the still open node)
    # (the WORD group is nested: WORD [WORD [NUM]] | WORD STRING; in the NUM group a string literal - possibly the
    # empty one - is the last token in front of an optional suffix)
    'DECL': [('WORD', 'WORD', 'NUM'), ('WORD', 'WORD'), ('WORD', 'STRING'),
             ('NUM', 'STRING', 'WORD'), ('NUM', 'STRING'), ('NUM', 'WORD'), ('NUM',),
             ('OPTP', 'STRING'), ('OPTP',)],
    'OPTP': [('(', ')'), ()],
}


def item_prods(extra):
    return {
        'E': [('ITEMS',)],
        'ITEMS': [('ITEM', 'ITEMS'), ()],
        'ITEM': [(t,) for t in ['WORD', 'IF', 'DO', 'NUM', ';', 'STRING', '(', ')'] + extra],
    }


CONFIGS = [
    dict(name="comments-skipped", tok=TOK, span=SPAN, syn=SYN, skip=None, prods=STMT_PRODS, stmt=True,
         kept=set()),
    dict(name="comments-are-tokens", tok=TOK, span=SPAN, syn=SYN, skip={'SPACE'},
         prods=item_prods(['COMMENT']), stmt=False, kept={'COMMENT'}),
    dict(name="blanks-are-tokens", tok=TOK, span=SPAN, syn=SYN, skip={'COMMENT'},
         prods=item_prods(['SPACE']), stmt=False, kept={'SPACE'}),
    dict(name="no-span-matcher", tok=TOK_NOSPAN, span=None, syn=SYN_NOSPAN, skip=None, prods=STMT_PRODS,
         stmt=True, kept=set()),
    # the same opener group name as in the other configurations, another comment syntax
    dict(name="pascal-comments", tok=TOK_PASCAL, span=SPAN_PASCAL, syn=SYN, skip=None, prods=STMT_PRODS, stmt=True,
         kept=set(), ml=("(*", "*)")),
    dict(name="two-comment-syntaxes", tok=TOK_TWO, span=SPAN_TWO, syn=SYN_TWO, skip=None, prods=STMT_PRODS, stmt=True,
         kept=set(), mls=[("/*", "*/"), ("(*", "*)")]),
    dict(name="closing-mark-is-a-token", tok=TOK_LA, span=SPAN_LA, syn=SYN_LA, skip=None, prods=STMT_PRODS, stmt=True,
         kept=set(), closer_is_token=True),
    dict(name="inline-flag-in-the-tokenizer-pattern", tok=TOK_CI, span=SPAN_CI, syn=SYN, skip=None, prods=STMT_PRODS,
         stmt=True, kept=set(), ml=("/*", "x*/"), ml_bodies=True),
    dict(name="block-closed-by-an-empty-line", tok=TOK_BL, span=SPAN_BL, syn=SYN, skip=None, prods=STMT_PRODS,
         stmt=True, kept=set(), ml=(">>>", "<<<"), blank_line_closes=True),
    dict(name="only-blanks-are-space", tok=TOK_NARROW, span=SPAN, syn=SYN, skip=None, prods=STMT_PRODS,
         stmt=True, kept=set(), narrow=True),
]
_PARSERS = {}


def get_parser(cfg_id, smart=True):
    if (cfg_id, smart) not in _PARSERS:
        c = CONFIGS[cfg_id]
        # (the configuration containers are the caller's: after the construction he changes them, see make_llparser)
        _PARSERS[cfg_id, smart] = llmon.make_llparser(
            c["tok"], productions={k: llparser.ProdSequence('STRING') if isinstance(v, str) else list(v)
                                   for k, v in c["prods"].items()}, synonyms=c["syn"],
            span_matchers=c["span"], keywords=KEYW, skip_tokens=c["skip"], smart_factorization=smart)
    return _PARSERS[cfg_id, smart]


# ---------------------------------------------------------------- text generation
WORDS = ["ab", "x", "foo_bar", "iff", "z"]
NUMS = ["0", "12", "007"]
# (letters typed as base letter + combining mark, Hangul written in jamo: they are the characters they are)
STRS = ['""', '"s t"', '"é中 x"', '"// no"', '"/* no */"', '"a;b"', '"e\u0301 x"', '"\u1112\u1161\u11ab"']
BLANKS = [" ", "  ", "\t", " \t ", "    ", " \x0c", "\x0b", "\x0c", "\u00a0 ", " \u2003", "\x1f "]
ML_BODIES = ["", " x ", " a\nb ", "\n\n q", " é\n  \n\t* z ", "\n", " 1\n 2\n 3 ", " ; \" ", " o\u0308\n u\u0308 "]
EOL_BODIES = ["", " c", " x /* y", " é中;", " a\u030a"]
# bodies for the comments that end with 'x*/' in a language whose tokenizer pattern carries the inline flag (?i)
ML_BODIES_X = ML_BODIES + [" X*/ ", " aX*/\nX */ ", "X*/"]


def gen_stmt(rng, depth=0):
    """list of token pieces [(name, lexeme)] of one statement"""
    r = rng.random()
    if r < 0.18:
        out = [("DO", "do")]
        out.extend(rng.choice([
            [("WORD", rng.choice(WORDS)), ("WORD", rng.choice(WORDS))],
            [("WORD", rng.choice(WORDS)), ("WORD", rng.choice(WORDS)), ("NUM", rng.choice(NUMS))],
            [("NUM", rng.choice(NUMS))],
            [("NUM", rng.choice(NUMS)), ("WORD", rng.choice(WORDS))],
            [("WORD", rng.choice(WORDS)), ("STRING", rng.choice(STRS))],
            [("NUM", rng.choice(NUMS)), ("STRING", rng.choice(STRS + ['""']))],
            [("NUM", rng.choice(NUMS)), ("STRING", rng.choice(STRS + ['""'])), ("WORD", rng.choice(WORDS))],
            [], [("(", "("), (")", ")")], [("STRING", rng.choice(STRS))],
            [("(", "("), (")", ")"), ("STRING", rng.choice(STRS))],
        ]))
    elif r < 0.3:
        out = [("WORD", rng.choice(WORDS))]
        if rng.random() < 0.5:
            out.append(("NUM", rng.choice(NUMS)))
    elif r < 0.45:
        out = [("IF", "if")]
        if rng.random() < 0.5:
            out.append(("WORD", rng.choice(WORDS)))
        if rng.random() < 0.5:
            out.append(("NUM", rng.choice(NUMS)))
    elif r < 0.65:
        out = [("NUM", rng.choice(NUMS))]
        if rng.random() < 0.5:
            out.append(("WORD", rng.choice(WORDS)))
    elif r < 0.8 or depth >= 2:
        out = [("STRING", rng.choice(STRS))]
        for _ in range(rng.choice([0, 0, 1, 2, 4])):
            out.append(("STRING", rng.choice(STRS)))
    else:
        out = [("(", "(")]
        if rng.random() < 0.35:
            if rng.random() < 0.4:
                out.extend([("WORD", rng.choice(WORDS)), ("NUM", rng.choice(NUMS))])
            out.extend([("WORD", rng.choice(WORDS)), (")", ")")])
            return out
        for _ in range(rng.randint(0, 2)):
            out.extend(gen_stmt(rng, depth + 1))
        out.append((")", ")"))
        return out
    out.append((";", ";"))
    return out


def gen_pieces(rng, cfg):
    """-> list of (kind, name, text); kind in tok / blank / nl / bad"""
    if cfg["stmt"]:
        toks = []
        for _ in range(rng.randint(0, 5)):
            toks.extend(gen_stmt(rng))
    else:
        names = ['WORD', 'IF', 'DO', 'NUM', ';', 'STRING', '(', ')']
        toks = []
        for _ in range(rng.randint(0, 10)):
            n = rng.choice(names)
            lex = {'WORD': rng.choice(WORDS), 'IF': 'if', 'DO': 'do', 'NUM': rng.choice(NUMS), ';': ';',
                   'STRING': rng.choice(STRS), '(': '(', ')': ')'}[n]
            toks.append((n, lex))
    pieces = []

    def filler(must_separate):
        """random skipped stuff; returns list of pieces"""
        out = []
        n = rng.choice([0, 1, 1, 2, 3])
        for _ in range(n):
            r = rng.random()
            if r < 0.35:
                out.append(("blank", "SPACE", rng.choice(BLANKS)))
            elif r < 0.65:
                out.append(("nl", None, "\n"))
            elif r < 0.85 and cfg["span"]:
                opener, closer = rng.choice(cfg["mls"]) if cfg.get("mls") else cfg.get("ml", ("/*", "*/"))
                if cfg.get("closer_is_token"):
                    out.append(("tok", "COMMENT", opener + rng.choice(ML_BODIES)))
                    out.append(("tok", "COMMENT", closer))
                    continue
                if cfg.get("blank_line_closes"):
                    body = rng.choice(["", " x ", " a\nb ", " 1\n 2\n 3 ", " é\n\t* z ", " ; \" "])
                    if rng.random() < 0.5:
                        # the block runs up to the first empty line (which closes it and is an empty line)
                        out.append(("tok", "COMMENT", opener + body + "\n"))
                        out.append(("nl", None, "\n"))
                    else:
                        out.append(("tok", "COMMENT", opener + body + closer))
                    continue
                out.append(("tok", "COMMENT", opener + rng.choice(ML_BODIES_X if cfg.get("ml_bodies") else ML_BODIES)
                            + closer))
            elif r < 0.95:
                out.append(("tok", "COMMENT", "//" + rng.choice(EOL_BODIES)))
                out.append(("nl", None, "\n"))
            else:
                out.append(("nl", None, "\n"))
                out.append(("nl", None, "\n"))
        if must_separate and not out:
            out.append(("blank", "SPACE", " ") if rng.random() < 0.7 else ("nl", None, "\n"))
        return out

    if cfg.get("narrow"):
        # in this configuration only ' ' is skipped: blank pieces use nothing else
        def filler(must_separate, _orig=filler):  # noqa: F811
            out = []
            for kind, name, txt in _orig(must_separate):
                if kind == "blank":
                    txt = " " * max(1, len(txt))
                out.append((kind, name, txt))
            return out
    pieces.extend(filler(False))
    prev = None
    for name, lex in toks:
        need_sep = prev is not None and (prev[0] in ("WORD", "IF", "DO", "NUM") and name in ("WORD", "IF", "DO", "NUM"))
        if prev is not None:
            pieces.extend(filler(need_sep))
        pieces.append(("tok", name, lex))
        prev = (name, lex)
    pieces.extend(filler(False))
    # merge adjacent blanks
    merged = []
    for p in pieces:
        if merged and p[0] == "blank" and merged[-1][0] == "blank":
            merged[-1] = ("blank", "SPACE", merged[-1][2] + p[2])
        else:
            merged.append(p)
    if cfg["span"] and not cfg.get("closer_is_token") and not cfg.get("blank_line_closes") and rng.random() < 0.15:
        # a statement line is kept as a comment further down: a block comment whose body has a whole line that reads
        # exactly like an earlier line of the text
        groups, cur, dirty = [], [], False
        for p in merged:
            if p[0] == "nl":
                if cur and not dirty:
                    groups.append(cur)
                cur, dirty = [], False
            elif "\n" in p[2]:
                if cur:
                    cur = []
                dirty = True        # (the rest of this line belongs to a token that began above)
                cur = []
            else:
                cur.append(p)
        opener, closer = rng.choice(cfg["mls"]) if cfg.get("mls") else cfg.get("ml", ("/*", "*/"))
        good = [g for g in groups if sum(1 for q in g if q[0] == "tok") >= 2
                and closer not in "".join(q[2] for q in g) and opener not in "".join(q[2] for q in g)]
        if good and all(p[0] != "bad" for p in merged):
            line = "".join(q[2] for q in rng.choice(good)).rstrip()
            if merged and merged[-1][0] != "nl":
                merged.append(("nl", None, "\n"))
            merged.append(("tok", "COMMENT", opener + rng.choice(["", " was:"]) + "\n" + line + "\n" + closer))
    return merged


def layout(pieces, form):
    """-> text, expected token stream [(name, start, end, lexeme)] incl. skipped tokens"""
    text = "".join(p[2] for p in pieces)
    line, col = 1, 1
    stream = []
    for i, (kind, name, txt) in enumerate(pieces):
        start = (line, col)
        for ch in txt:
            if ch == "\n":
                line += 1
                col = 1
            else:
                col += 1
        end = (line, col)
        if kind == "tok":
            stream.append((name, start, end, txt))
        elif kind == "blank":
            at_line_end = i + 1 == len(pieces) or pieces[i + 1][0] == "nl"
            if form == "str" and at_line_end:
                continue  # right-stripped by the tokenizer
            stream.append((name, start, end, txt))
        elif kind == "bad":
            stream.append(("<bad>", start, end, txt))
    return text, stream


def slice_text(text, start, end):
    lines = text.split("\n")
    (sl, sc), (el, ec) = start, end
    if sl == el:
        return lines[sl - 1][sc - 1:ec - 1]
    return "\n".join([lines[sl - 1][sc - 1:]] + lines[sl:el - 1] + [lines[el - 1][:ec - 1]])


_LINES = []


def all_nodes(node, out):
    out.append(node)
    if isinstance(node.value, list):
        for c in node.value:
            if hasattr(c, 'span'):
                all_nodes(c, out)
    return out


# ---------------------------------------------------------------- judging
def mixed_line_ends(ctx, parser, text, case):
    """the same text as it looks after an editor on another system touched some of its lines: every other line ends
    with CR LF. For a str text the CR is a trailing blank of its line (never a token). Whatever the tree is - every
    node returns exactly the characters between its own start and end"""
    parts = text.split("\n")
    mixed = "".join(ln + ("\r\n" if k % 2 == 0 else "\n") for k, ln in enumerate(parts[:-1])) + parts[-1]
    try:
        tree = parser.parse(mixed, do_cleanup=False)
    except llparser.Error:
        ctx.count("texts_with_mixed_line_ends_refused(not judged)")
        return
    ctx.count("texts_with_mixed_line_ends_parsed")
    nodes = []
    all_nodes(tree, nodes)
    for node in nodes:
        if node.start_pos is None or node.end_pos is None:
            continue
        try:
            got = node.get_orig_text(mixed)
        except Exception as err:
            ctx.violation("get-orig-text-raises", {"type": type(err).__name__, "msg": str(err)[:100], "line_ends": "mixed"}, case)
            return
        want = slice_text(mixed, node.start_pos.coords, node.end_pos.coords)
        if got != want:
            ctx.violation("get-orig-text-of-inner-node" if not node.is_leaf() else "get-orig-text-of-leaf",
                          {"node": node.name, "got": got[:60], "expected": want[:60], "line_ends": "mixed CR LF / LF"}, case)
            return


def judge(ctx, cfg_id, pieces, form, case):
    cfg = CONFIGS[cfg_id]
    parser = get_parser(cfg_id, case.get("smart", True))
    text, stream = layout(pieces, "lines" if form == "lazy" else form)
    if form == "str":
        src = text
    else:
        # (the caller keeps ONE list object for its lines and refills it for every text)
        _LINES[:] = text.split("\n")
        src = _LINES
    if form == "lazy":
        # the text is a lazy iterable of lines; while it is being consumed the same parser is used
        # for another text (re-entrant use of one long-lived parser)
        lines = src

        def lazy_lines():
            for k, line in enumerate(lines):
                if k % 2 == 1:
                    try:
                        parser.parse("zz /* q\n q */ 7 ;\n  (\n)", do_cleanup=False)
                    except llparser.Error:
                        pass
                yield line
        make_src = lazy_lines
    else:
        make_src = lambda: src
    n_lines = text.count("\n") + 1
    skip = parser.skip_tokens
    ctx.evaluated()
    bad = [s for s in stream if s[0] == "<bad>"]
    if bad and form == "str" and any(p[0] == "bad" and p[1] == "ws" for p in pieces):
        return   # a str text is right-stripped line by line: trailing whitespace never reaches the tokenizer
    if bad:
        try:
            # (every other such text is named for the diagnostics - by a file name with a per cent sign in it)
            parser.parse(make_src(), do_cleanup=False,
                         **({'src_name': ("rates 5%.txt", "notes%20v2.txt", "%s", "100%d{0}")[len(text) % 4]}
                            if len(text) % 2 else {}))
        except llparser.LexicalError as err:
            ctx.count("lexical_errors_checked")
            if err.src_pos.line != bad[0][1][0]:
                ctx.violation("lexical-error-names-wrong-line",
                              {"reported": err.src_pos.coords, "bad_char_at": bad[0][1]}, case)
        except llparser.ParsingError:
            ctx.violation("unmatched-character-not-reported", {"bad_char_at": bad[0][1]}, case)
        except Exception as err:
            ctx.violation("unmatched-character-raises-other-exception",
                          {"type": type(err).__name__, "msg": str(err)[:100], "bad_char_at": bad[0][1]}, case)
        else:
            ctx.violation("unmatched-character-not-reported", {"bad_char_at": bad[0][1]}, case)
        if form != "lazy" and bad[0][1][0] >= 2:
            # the same text behind a first line that is wrong for the grammar (a statement cannot start with a
            # closing bracket): the character nothing matches is further down, and it is still what is reported
            wrong = ") ) ; ) ) ; ) ;"
            try:
                parser.parse(wrong + "\n" + text if form == "str" else [wrong] + text.split("\n"), do_cleanup=False)
                ctx.violation("unmatched-character-not-reported", {"bad_char_at": bad[0][1], "behind": wrong}, case)
            except llparser.LexicalError as err:
                ctx.count("lexical_errors_behind_a_syntax_error_checked")
                if err.src_pos.line != bad[0][1][0] + 1:
                    ctx.violation("lexical-error-names-wrong-line",
                                  {"reported": err.src_pos.coords, "bad_char_at": bad[0][1], "behind": wrong}, case)
            except llparser.ParsingError:
                ctx.violation("unmatched-character-not-reported", {"bad_char_at": bad[0][1], "behind": wrong}, case)
            except Exception as err:
                ctx.violation("unmatched-character-raises-other-exception",
                              {"type": type(err).__name__, "msg": str(err)[:100], "behind": wrong}, case)
        return
    # ---- token stream of the parser's tokenizer
    end_pos = None
    tokenizer = getattr(parser, "tokenizer", None)
    if tokenizer is not None and hasattr(tokenizer, "tokenize"):
        try:
            got = list(tokenizer.tokenize(make_src(), "x"))
        except llparser.Error as err:
            ctx.violation("tokenizer-raises", {"type": type(err).__name__, "msg": str(err)[:100]}, case)
            return
        end_tok = got.pop()
        # (positions are read through the two public accessors in turns)
        obs = [(t.name,) + (t.span if k % 2 else (t.start_pos.coords, t.end_pos.coords)) for k, t in enumerate(got)]
        exp = [(n, s, e) for n, s, e, _ in stream]
        if obs != exp:
            k = next((i for i, (a, b) in enumerate(zip(obs, exp)) if a != b), min(len(obs), len(exp)))
            detail = {"index": k, "got": obs[k] if k < len(obs) else None,
                      "expected": exp[k] if k < len(exp) else None}
            mech = "token-stream-differs"
            if k < len(obs) and k < len(exp) and obs[k][0] == exp[k][0]:
                mech = "token-start-wrong" if obs[k][1] != exp[k][1] else "token-end-wrong"
                if mech == "token-start-wrong" and k > 0 and exp[k][1][1] >= 1 and exp[k][1][0] > exp[k - 1][2][0] \
                        and obs[k][1] == exp[k - 1][2]:
                    mech = "first-token-of-line-starts-at-previous-line-end"
            ctx.violation(mech, detail, case)
            return
        ctx.count("tokens_checked", len(obs))
        for k, (n, s, e) in enumerate(exp):
            if k > 0 and s[0] > exp[k - 1][2][0]:
                ctx.count("first_tokens_of_later_lines")
            if n == "COMMENT" and e[0] > s[0]:
                ctx.count("multiline_span_tokens")
        end_pos = end_tok.start_pos.coords
        last_end = exp[-1][2] if exp else (1, 1)
        if end_tok.start_pos.coords != end_tok.end_pos.coords or end_pos < last_end or end_pos[0] > n_lines:
            ctx.violation("end-token-position", {"end": end_pos, "last_token_end": last_end}, case)
    else:
        ctx.count("tokenizer_not_observable")
    # ---- tree
    try:
        tree = parser.parse(make_src(), do_cleanup=False)
    except llparser.Error as err:
        ctx.violation("valid-text-rejected", {"type": type(err).__name__, "msg": str(err)[:200]}, case)
        return
    if form == "str" and text.count("\n") >= 2 and len(text) % 3 == 0:
        mixed_line_ends(ctx, parser, text, case)
    if form != "lazy" and len(text) % 4 == 1:
        # the same text parsed with the start symbol named explicitly (the documented keyword): the same tree, at the
        # same places
        try:
            again = parser.parse(make_src(), start_symbol_name=tree.name, do_cleanup=False)
        except llparser.Error as err:
            ctx.violation("valid-text-rejected", {"type": type(err).__name__, "msg": str(err)[:200],
                                                  "start_symbol_name": tree.name}, case)
            return
        ctx.count("texts_parsed_again_with_the_start_symbol_named")
        spans_a = [(n.name, n.start_pos.coords if n.start_pos else None, n.end_pos.coords if n.end_pos else None)
                   for n in all_nodes(tree, [])]
        spans_b = [(n.name, n.start_pos.coords if n.start_pos else None, n.end_pos.coords if n.end_pos else None)
                   for n in all_nodes(again, [])]
        if spans_a != spans_b:
            k = next((i for i, (a, b) in enumerate(zip(spans_a, spans_b)) if a != b), min(len(spans_a), len(spans_b)))
            ctx.violation("node-span-wrong", {"with_start_symbol_name": spans_b[k:k + 1], "without": spans_a[k:k + 1]}, case)
            return
    exp_leaves = [s for s in stream if s[0] not in skip]
    order = []  # leaves and empty nodes in document order
    n_asked = [0]

    def text_arg():
        """the text as get_orig_text is given it: the object that was parsed, or the same lines as a tuple, a
        one-shot iterator or a generator"""
        n_asked[0] += 1
        k = n_asked[0] % 5
        if k in (0, 1):
            return src
        ctx.count("original_text_asked_with_the_text_in_another_form")
        the_lines = text.split("\n")
        return tuple(the_lines) if k == 2 else iter(the_lines) if k == 3 else (ln for ln in the_lines)

    def walk(node):
        if (node.value is None or node.value == []) and node.name in cfg["prods"]:
            order.append(("empty", node))
        elif isinstance(node.value, list) and isinstance(cfg["prods"].get(node.name), str):
            # the node of a sequence template: a leaf holding its elements.  It stands for "element, rest of the
            # sequence" with an empty rest at the end, so like every node whose last part matched nothing it ends
            # where the following token starts (judged below, when the following token is known)
            for c in node.value:
                walk(c)
            order.append(("seq", node))
        elif isinstance(node.value, list) and node.name in cfg["prods"]:
            for c in node.value:
                walk(c)
            first, last = node.value[0], node.value[-1]
            ctx.count("nodes_checked")
            if node.start_pos.coords != first.start_pos.coords or node.end_pos.coords != last.end_pos.coords:
                ctx.violation("inner-node-span-not-first-child-to-last-child",
                              {"node": node.name, "span": node.span}, case)
            else:
                want = slice_text(text, node.start_pos.coords, node.end_pos.coords)
                try:
                    got_txt = node.get_orig_text(text_arg())
                except (AssertionError, IndexError) as err:
                    ctx.violation("get-orig-text-asserts", {"node": node.name, "msg": str(err)[:120]}, case)
                    return
                if got_txt != want:
                    ctx.violation("get-orig-text-of-inner-node", {"node": node.name, "got": got_txt[:60],
                                                                  "expected": want[:60]}, case)
        else:
            order.append(("leaf", node))

    walk(tree)
    leaves = [n for k, n in order if k == "leaf"]
    if [(n.name,) + tuple(n.span) for n in leaves] != [(a, b, c) for a, b, c, _ in exp_leaves]:
        ctx.violation("leaf-spans-differ", {
            "got": [(n.name, n.span) for n in leaves][:8], "expected": [x[:3] for x in exp_leaves][:8]}, case)
        return
    nontrivial = False
    for leaf, (name, s, e, lexeme) in zip(leaves, exp_leaves):
        ctx.count("nodes_checked")
        try:
            got_txt = leaf.get_orig_text(text_arg())
        except (AssertionError, IndexError) as err:
            ctx.violation("get-orig-text-asserts", {"node": name, "msg": str(err)[:120]}, case)
            continue
        if got_txt != lexeme:
            ctx.violation("get-orig-text-of-leaf", {"leaf": name, "got": got_txt[:60], "expected": lexeme[:60]}, case)
        if name == "COMMENT" and e[0] > s[0]:
            nontrivial = True
    for idx, (kind, node) in enumerate(order):
        if kind == "seq":
            ctx.count("sequence_nodes_checked")
            follower = next((n for k, n in order[idx + 1:] if k == "leaf"), None)
            want_end = follower.start_pos.coords if follower is not None else end_pos
            if node.start_pos.coords != node.value[0].start_pos.coords or (
                    want_end is not None and node.end_pos.coords != want_end) or (
                    node.end_pos.coords < node.value[-1].end_pos.coords):
                ctx.violation("sequence-node-span-not-first-element-to-following-token",
                              {"span": node.span, "first_element": node.value[0].span, "expected_end": want_end}, case)
            continue
        if kind != "empty":
            continue
        ctx.count("empty_nodes_checked")
        follower = next((n for k, n in order[idx + 1:] if k == "leaf"), None)
        want = follower.start_pos.coords if follower is not None else end_pos
        prev_leaf = next((n for k, n in reversed(order[:idx]) if k == "leaf"), None)
        got = node.start_pos.coords
        if node.start_pos.coords != node.end_pos.coords:
            ctx.violation("empty-node-span-not-empty", {"node": node.name, "span": node.span}, case)
        elif want is not None and got != want:
            ctx.violation("empty-node-not-at-following-token", {"node": node.name, "at": got, "following": want}, case)
        elif want is None and prev_leaf is not None and got < prev_leaf.end_pos.coords:
            ctx.violation("empty-node-before-previous-token", {"node": node.name, "at": got}, case)
        if prev_leaf is not None and follower is not None and follower.start_pos.line > prev_leaf.end_pos.line:
            nontrivial = True
    # a copy of the tree carries the same spans (the original was judged above)
    if len(text) % 4 == 0:
        try:
            orig_nodes = all_nodes(tree, [])
            copy_nodes = all_nodes(tree.clone(), [])
        except Exception as err:
            ctx.violation("cloning-the-tree-raises", {"type": type(err).__name__, "msg": str(err)[:100]}, case)
            return
        ctx.count("cloned_trees_compared")
        a = [(n.name, n.span) for n in orig_nodes]
        b = [(n.name, n.span) for n in copy_nodes]
        if a != b:
            k = next((i for i, (x, y) in enumerate(zip(a, b)) if x != y), min(len(a), len(b)))
            ctx.violation("copy-of-the-tree-has-other-spans", {"node": a[k][0] if k < len(a) else None,
                                                                "original": a[k][1] if k < len(a) else None,
                                                                "copy": b[k][1] if k < len(b) else None}, case)
    if nontrivial and n_lines >= 2:
        ctx.nontrivial(sig_of([cfg_id, text, form]))


# ---------------------------------------------------------------- patterns that look at their surroundings
# Token patterns may use '^', look-behind and \b: whether a character can start a token then depends on what
# precedes it ON THE LINE.  Reference: the documented scan - the pattern is matched at the current column of
# the line (not against a copy of the rest of the line).
TOK_CTX = r"""(?P<SPACE>\s+)|(?P<COMMENT>^\#.*)|(?P<WORD>[a-z_]+)|(?P<NUM>(?<![a-z_])[0-9]+)|(?P<SEMI>;)
          |(?P<END>\bend\b)"""
CTX_LEXEMES = ["ab", "x", "12", "7", ";", "#c", "# x 1", " ", "  ", "end", "_"]
_CTX = {}


def ctx_parser():
    if not _CTX:
        _CTX['parser'] = llparser.LLParser(
            TOK_CTX, productions={'E': [('ITEMS',)], 'ITEMS': [('ITEM', 'ITEMS'), ()],
                                  'ITEM': [('WORD',), ('NUM',), ('SEMI',), ('END',)]})
        import re
        _CTX['ref'] = re.compile(TOK_CTX, re.VERBOSE)
    return _CTX['parser'], _CTX['ref']


def context_pattern_case(ctx, lines, form):
    parser, ref = ctx_parser()
    ctx.evaluated()
    case = {"kind": "context-patterns", "lines": lines, "form": form}
    exp, bad_line = [], None
    for ln, line in enumerate(lines, 1):
        col = 0
        while col < len(line):
            m = ref.match(line, col)
            if m is None or m.end() == col:
                bad_line = ln
                break
            exp.append((m.lastgroup, (ln, col + 1), (ln, m.end() + 1)))
            col = m.end()
        if bad_line:
            break
    src = "\n".join(lines) if form == "str" else list(lines)
    try:
        got = list(parser.tokenizer.tokenize(src, "x"))
    except llparser.LexicalError as err:
        ctx.count("context_pattern_lexical_errors")
        if bad_line is None:
            ctx.violation("valid-text-rejected", {"type": "LexicalError", "msg": str(err)[:150]}, case)
        elif err.src_pos.line != bad_line:
            ctx.violation("lexical-error-names-wrong-line", {"reported": err.src_pos.coords, "bad_line": bad_line}, case)
        return
    except llparser.Error as err:
        ctx.violation("tokenizer-raises", {"type": type(err).__name__, "msg": str(err)[:100]}, case)
        return
    if bad_line is not None:
        ctx.violation("unmatched-character-not-reported", {"bad_line": bad_line, "line": lines[bad_line - 1]}, case)
        return
    got.pop()
    obs = [(t.name, t.start_pos.coords, t.end_pos.coords) for t in got]
    ctx.count("context_pattern_texts_tokenized")
    if obs != exp:
        k = next((i for i, (a, b) in enumerate(zip(obs, exp)) if a != b), min(len(obs), len(exp)))
        ctx.violation("token-stream-differs", {"index": k, "got": obs[k] if k < len(obs) else None,
                                               "expected": exp[k] if k < len(exp) else None}, case)


def gen_context_lines(rng):
    lines = []
    for _ in range(rng.randint(1, 3)):
        line = "".join(rng.choice(CTX_LEXEMES) for _ in range(rng.randint(1, 6))).rstrip()
        lines.append(line)
    return lines


def run_case(ctx, cfg_id, pieces, smart=True):
    for form in ("str", "lines", "lazy"):
        if form == "lines" and len(pieces) >= 4 and not any(p[0] == "bad" for p in pieces):
            # the same parser has just parsed the caller's list of lines when it held another text (the first
            # half of this one)
            cut = len(pieces) // 2
            if CONFIGS[cfg_id]["stmt"]:
                # (a prefix that ends where a top-level statement ends)
                depth, ends, at_start, block = 0, [0], True, False
                for k, p in enumerate(pieces):
                    if p[0] != "tok" or p[1] == "COMMENT":
                        continue
                    if p[1] == "(":
                        if depth == 0 and at_start:
                            block = True       # a '( ... )' statement (not the brackets of a declaration)
                        depth += 1
                    elif p[1] == ")":
                        depth -= 1
                        if depth == 0 and block:
                            ends.append(k + 1)
                            block, at_start = False, True
                            continue
                    elif p[1] == ";" and depth == 0:
                        ends.append(k + 1)
                        at_start = True
                        continue
                    at_start = False
                cut = max(e for e in ends if e <= max(cut, 1)) if any(e <= max(cut, 1) for e in ends) else 0
            half = pieces[:cut]
            if half and half[-1][2].startswith("//"):
                half = half + [("nl", None, "\n")]
            judge(ctx, cfg_id, half, form, {"cfg": cfg_id, "pieces": [list(p) for p in half], "form": form,
                                            "smart": smart})
        case = {"cfg": cfg_id, "pieces": [list(p) for p in pieces], "form": form, "smart": smart}
        judge(ctx, cfg_id, pieces, form, case)


NP_TOK = r"""(?P<SPACE>\s+)|(?P<A>a)|(?P<B>b)|(?P<C>c)|(?P<D>d)|(?P<E>e)|(?P<F>f)|"(?P<Q>[^"]*)"|(?P<SEMI>;)"""
NP_TEMPLATES = [
    [('A', 'B', 'C'), ('A', 'B', 'C', 'E'), ('A', 'F')],
    [('A', 'B', 'C', 'E'), ('A', 'B', 'C'), ('A', 'F')],
    [('A', 'B', 'C', 'D'), ('A', 'B', 'C'), ('A', 'B'), ('A', 'E')],
    [('A', 'B', 'C', 'D'), ('A', 'B', 'C'), ('A', 'B'), ('A',)],
    [('A', 'B', 'C'), ('A', 'B', 'D'), ('A', 'B', 'E'), ('A', 'B', 'F'), ('A', 'B', 'A'), ('A', 'B'), ('A', 'C')],
    # a quoted string (its value may be the empty string) is the last token in front of an optional tail
    [('A', 'Q', 'C'), ('A', 'Q')],
    [('A', 'Q'), ('A', 'Q', 'C')],
    [('A', 'Q', 'C'), ('A', 'Q'), ('B', 'Q', 'Q'), ('B', 'Q')],
    [('Q', 'Q', 'A'), ('Q', 'Q'), ('Q',)],
]
_NP_PARSERS = {}


_SAME_SIZE = {}


def same_size_texts_case(ctx, k0):
    """a tool reads one small text after the other - all of one length - looks at each and drops it: what a leaf gives
    back as its original text is cut from the text it was given, whatever was looked at before"""
    if 'p' not in _SAME_SIZE:
        _SAME_SIZE['p'] = llparser.LLParser(r"(?P<SPACE>\s+)|(?P<W>[a-z]+)|(?P<N>[0-9]+)|(?P<EQ>=)",
                                            synonyms={'W': 'WORD', 'N': 'NUM', 'EQ': '='},
                                            productions={'E': [('WORD', '=', 'NUM')]})
    parser = _SAME_SIZE['p']
    text = None
    for k in range(k0, k0 + 30):
        ctx.evaluated()
        word, num = "v" + "abcdefghij"[k % 10] + "xyz"[k % 3], "%03d" % (k * 7 % 1000)
        case = {"same_size_texts": k0, "k": k}
        got = tree = leaves = text = None               # (the text read before is gone, and all that was made from it)
        text = "".join([word, " = ", num]) if k % 2 else "".join([word, " =\n", num])
        try:
            tree = parser.parse(text, do_cleanup=False)
            leaves = [c for c in tree.value]
            got = [c.get_orig_text(text) for c in leaves] + [tree.get_orig_text(text)]
        except Exception as err:
            ctx.violation("get-orig-text-raises", {"type": type(err).__name__, "msg": str(err)[:150]}, case)
            return
        ctx.count("texts_of_one_size_read_one_after_the_other")
        if got != [word, "=", num, text]:
            ctx.violation("get-orig-text-of-leaf", {"node": "WORD / = / NUM / E", "got": got, "expected": [word, "=", num, text]}, case)
            return


def nested_prefix_case(ctx, rng):
    """alternatives sharing prefixes, some of them nested: whatever the parser does with them internally, the node of X
    spans from the start of its first token to the end of its last one - also when skipped text follows"""
    k = rng.randrange(len(NP_TEMPLATES))
    smart = rng.random() < 0.5
    if (k, smart) not in _NP_PARSERS:
        _NP_PARSERS[k, smart] = llparser.LLParser(
            NP_TOK, productions={'S': [('X', 'SEMI')], 'X': list(NP_TEMPLATES[k])},
            start_symbol_name='S', smart_factorization=smart)
    parser = _NP_PARSERS[k, smart]
    ctx.evaluated()
    alts = [rng.choice(NP_TEMPLATES[k])]
    text, line, col = "", 1, 1
    spans = []

    def put(piece):
        nonlocal text, line, col
        text += piece
        for ch in piece:
            if ch == "\n":
                line, col = line + 1, 1
            else:
                col += 1
    put(rng.choice(["", " ", "\n  "]))
    for alt in alts:
        start = end = None
        for t in alt:
            lex = rng.choice(['""', '"x y"', '""']) if t == 'Q' else t.lower()
            if start is None:
                start = (line, col)
            put(lex)
            end = (line, col)
            put(rng.choice([" ", "  ", "\n", "\n\n   ", " \t "]))
        spans.append((start, end))
    put(";")
    case = {"nested_prefix_template": k, "smart": smart, "text": text}
    try:
        root = parser.parse(text, do_cleanup=False)
    except Exception as err:
        ctx.violation("valid-text-rejected", {"type": type(err).__name__, "msg": str(err)[:200]}, case)
        return
    xs = [c for c in root.value if c.name == 'X']
    ctx.count("nodes_over_nested_prefix_groups_checked", len(xs))
    if len(xs) != len(spans):
        ctx.violation("valid-text-rejected", {"msg": "tree has %d X nodes for %d alternatives" % (len(xs), len(spans))}, case)
        return
    for x, (start, end) in zip(xs, spans):
        want_txt = slice_text(text, start, end)
        got_txt = x.get_orig_text(text)
        if x.span != (start, end) or got_txt != want_txt:
            ctx.violation("inner-node-span-not-first-token-to-last-token",
                          {"node": "X", "span": x.span, "expected": (start, end), "orig_text": got_txt[:40]}, case)
            return


def run_shard(ctx):
    for i in range(ctx.cases):
        rng = ctx.rng(i)
        if i % 40 == 5:
            same_size_texts_case(ctx, i)
        if i % 8 == 3:
            for _ in range(4):
                nested_prefix_case(ctx, rng)
        if i % 8 == 7:
            lines = gen_context_lines(rng)
            for form in ("str", "lines"):
                context_pattern_case(ctx, lines, form)
            continue
        cfg_id = rng.randrange(len(CONFIGS))
        pieces = gen_pieces(rng, CONFIGS[cfg_id])
        if i % 331 == 17 and pieces:
            # one line is longer than 65535 characters: columns beyond any 16-bit field
            k = rng.randrange(len(pieces))
            while k > 0 and (pieces[k - 1][2].startswith("//") or (
                    CONFIGS[cfg_id].get("closer_is_token") and pieces[k - 1][2].startswith("/*")) or (
                    CONFIGS[cfg_id].get("blank_line_closes") and pieces[k - 1][2].startswith(">>>"))):
                k -= 1
            pieces.insert(k, ("blank", "SPACE", " " * rng.choice([65534, 65536, 70000])))
            merged = []
            for p in pieces:
                if merged and p[0] == "blank" and merged[-1][0] == "blank":
                    merged[-1] = ("blank", "SPACE", merged[-1][2] + p[2])
                else:
                    merged.append(p)
            pieces = merged
            ctx.count("texts_with_a_line_longer_than_65535")
        if i % 6 == 5:
            # a character no pattern matches, as a piece of its own
            pos = rng.randint(0, len(pieces)) if rng.random() < 0.7 else 0
            if CONFIGS[cfg_id].get("narrow") and rng.random() < 0.6:
                # a whitespace character that is not a token here, as the last character of a line
                ends = [k for k, p in enumerate(pieces) if p[0] == "nl"] + [len(pieces)]
                pos = rng.choice(ends)
                while pos > 0 and pieces[pos - 1][2].startswith("//"):
                    pos -= 1
                pieces.insert(pos, ("bad", "ws", rng.choice(["\t", "\x0c", "\t\t"])))
                run_case(ctx, cfg_id, pieces, smart=True)
                continue
            while pos > 0 and pieces[pos - 1][2].startswith("//"):
                pos -= 1  # anything behind '//' belongs to the comment
            while pos > 0 and CONFIGS[cfg_id].get("closer_is_token") and pieces[pos - 1][2].startswith("/*"):
                pos -= 1  # (here the closing mark is a piece of its own: in front of it one is inside the comment)
            while pos > 0 and CONFIGS[cfg_id].get("blank_line_closes") and pieces[pos - 1][2].startswith(">>>") and \
                    pieces[pos - 1][2].endswith("\n"):
                pos -= 1  # (the empty line that closes the block has to stay empty)
            # (... also the colour sequences of a terminal, pasted with the text: characters no token starts with)
            pieces.insert(pos, ("bad", None, rng.choice(["@", "$", "%", "/ ", "}", "\ufeff", "\x00", "\ufeff",
                                                         "\x1b[31m", "\x1b[0m", "\x1b[38;5;200m"])))
        run_case(ctx, cfg_id, pieces, smart=rng.random() < 0.5)
        if i in (0, 1, 7):
            text, stream = layout(pieces, "str")
            ctx.sample({"config": CONFIGS[cfg_id]["name"], "text": text,
                        "expected_tokens": [[n, s, e] for n, s, e, _ in stream][:12]})


def replay(ctx, case):
    if "same_size_texts" in case:
        same_size_texts_case(ctx, case["same_size_texts"])
        return
    if "nested_prefix_template" in case:
        import random
        for k in range(400):
            nested_prefix_case(ctx, random.Random(k))
        return
    if case.get("kind") == "context-patterns":
        context_pattern_case(ctx, case["lines"], case["form"])
        return
    _replay(ctx, case)


def _replay(ctx, case):
    pieces = [tuple(p) for p in case["pieces"]]
    judge(ctx, case["cfg"], pieces, case["form"], case)
