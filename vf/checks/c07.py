"""C07 Component builds are reported at the first parent build that ships them."""
import json
import logging
import os
import re

import vf
vf.use_repo()
from ak.ghist import ReposCollection, RBuild, ProjectRepo  # noqa: E402
from vf import mockgit as mg  # noqa: E402
from vf.core import sig_of  # noqa: E402

ID = "C07"
LEVEL = "exploration"
RULE = ('[later additions: repositories tracking a remote other than origin handed over as ProjectRepo objects; a tag hook reporting the version name; parent histories that merge two built sides one of which still pins the oldest component build] '
        "scenario A (2/3 of the cases): a component repository (linear release branch with increasing build "
        "tags, optionally a forked second branch; in 30% the main line is origin/master with build_<n>_master_success tags whose "
        "major.minor come from a VERSION file that changes along the branch; commits minutes, hours or days apart, "
        "parent commits younger than the component commits they pin) and a parent repository (random DAG, 1-3 branches, build "
        "tags) whose every commit pins an existing component version in a DEPENDS file, pins non-decreasing "
        "along every edge; repositories supplied in both dict orders. Oracle: for every reported component "
        "build r and parent branch PB the harness computes the parent builds whose pinned version contains "
        "r, their minimal elements, and demands included_at(PB) to be a non-empty duplicate-free subset of "
        "the minimal ones (none when no build contains r), and that parent build to be present among PB's "
        "reported builds. Scenario B (1/3): random dependency graphs over 1-6 repositories (self "
        "dependencies, dependencies on unknown repositories, cycles) in random dict order: ValueError iff "
        "cycle, otherwise components before owners. Non-trivial = scenario A where >=2 parent builds pin "
        "different component versions and some included_at entry was observed, or scenario B graph with "
        ">=3 repositories and >=2 edges; distinct by scenario.")
ASSUMPTIONS = ["completeness of included_at is asserted for builds of the component lineage the pins refer to (main-line "
               "builds; when a lower-sorted release branch owns the main line below its fork point, a pin is credited to "
               "the builds of the lineage the pinned build is reported in); for builds of another lineage only soundness "
               "(the property does not fix cross-branch containment)", "commit times within the cut-off windows"]
TIERS = {
    "quick": {"shards": 4, "cases": 3000, "timeout": 300},
    "thorough": {"shards": 16, "cases": 9000, "timeout": 3000},
}
FLOORS = {"quick": {"ticket_commits_traced_to_their_component_build": 7000,
                    "parents_whose_oldest_commits_pin_nothing": 300, "component_builds_inside_one_long_bump": 1500,
                    "distinct_nontrivial": 1200, "included_at_entries_observed": 3000,
                    "component_build_x_parent_branch_decisions": 5000, "dependency_graphs": 1000,
                    "cyclic_graphs_rejected": 300, "parent_builds_reported_without_own_commit": 100,
                    "components_with_an_unreadable_first_version_location": 100,
                    "scenarios_with_refs_read_from_git_directories": 100},
          "thorough": {"ticket_commits_traced_to_their_component_build": 28000,
                       "parents_whose_oldest_commits_pin_nothing": 1200, "component_builds_inside_one_long_bump": 1500,
                       "distinct_nontrivial": 25000, "included_at_entries_observed": 100000,
                       "component_build_x_parent_branch_decisions": 200000, "dependency_graphs": 40000,
                       "cyclic_graphs_rejected": 10000, "parent_builds_reported_without_own_commit": 4000,
                       "components_with_an_unreadable_first_version_location": 3000,
                       "scenarios_with_refs_read_from_git_directories": 3000}}
LEVEL_TEXT = ("Runtime exploration with a graph oracle over generated two-repository histories and generated "
              "dependency graphs; every included_at entry produced by the real code is re-derived from pins and "
              "reachability by the harness.")
LEVEL_NOTE = ("histories <= 13 component / 12 parent commits, one or two components per parent; tag-based build detection, "
              "or build numbers saved in a version file (second configured location when the first is unreadable); in 15% of "
              "the single-report scenarios the refs are read by the production reader from .git directories "
              "(packed-refs and loose files, annotated tags in both)")
TECHNIQUE = "runtime monitoring: pin/reachability oracle over generated component+parent histories; topological-order oracle"

TEXT = "BUG-7"


def gen_comp(rng, name="comp", step=60):
    """step: seconds between commits.  In 'master mode' the main line is origin/master, its build tags carry no
    major.minor (build_<n>_master_success): the numbers are completed from the VERSION file of the tagged commit,
    whose major.minor may change along the branch"""
    m = rng.randint(2, 9)
    commits = {}
    base = 1_600_000_000
    tags = {}
    versions = []
    bn = 0
    prev = None
    master_mode = rng.random() < 0.3
    # builds without tags: the build number is kept in VERSION and a commit whose number differs from its
    # parents' is a build
    saved_mode = not master_mode and rng.random() < 0.15
    # the release line of the main line: 10.20, or 0.9 (a major version of zero)
    major, minor = rng.choice([(10, 20), (10, 20), (0, 9)])
    if master_mode:
        major, minor = 10, 20
    rel = "%d_%d" % (major, minor)
    # the component's own tag format, read by an overridden parse_buildtag hook: "lib-10.20-b3"
    hook_tags = not master_mode and not saved_mode and rng.random() < 0.25
    # the first build of a component may carry the number 0
    bn = -1 if rng.random() < 0.2 else 0
    # an older location of the version is still configured first; the file left there is a note, not a number
    old_note = rng.choice(["see VERSION", "moved", "1.x"]) if (master_mode or saved_mode) and rng.random() < 0.3 else None
    for cid in range(1, m + 1):
        msg = "BUG-7 c%d" % cid if rng.random() < 0.5 else "misc" if rng.random() < 0.7 else \
            "rework of the cache\n\nsecond part of BUG-7 (c%d)" % cid     # (the ticket is named in the message body)
        if master_mode and cid > 1 and rng.random() < 0.3:
            minor += 1
        files = {"VERSION": "%d.%d" % (major, minor)} if master_mode else {}
        note = {"version.txt": old_note} if old_note and (cid > 1 or rng.random() < 0.7) else {}
        files.update(note)
        if saved_mode:
            # (the first and the last commit always change the number: a head that only repeats the number of an
            # earlier build is reported under that number - what that means is left open, see DESIGN 6.2)
            if cid == 1 or cid == m or rng.random() < 0.6:
                bn += 1
                versions.append((cid, (major, minor, bn)))
            commits[cid] = mg.Commit(name, cid, [prev] if prev else [], msg, base + cid * step,
                                     dict(note, VERSION="%d.%d.%d" % (major, minor, bn)))
            prev = commits[cid]
            continue
        commits[cid] = mg.Commit(name, cid, [prev] if prev else [], msg, base + cid * step, files)
        prev = commits[cid]
        if rng.random() < 0.6:
            for _ in range(2 if rng.random() < 0.15 else 1):
                # (sometimes the same commit was built once more: second build tag, another number)
                bn += 1
                tags[f"build_{bn}_master_success" if master_mode else
                     f"lib-{major}.{minor}-b{bn}" if hook_tags else f"build_{bn}_release_{rel}_success"] = cid
                versions.append((cid, (major, minor, bn)))
    heads = {"origin/master" if master_mode else "origin/release/%d.%d" % (major, minor if not master_mode else 20): m}
    if rng.random() < 0.5 and not saved_mode:
        f = rng.randint(1, m)
        prev = commits[f]
        k = rng.randint(1, 4)
        # the side branch may have been started (much) later than the main line ended
        later = m + (rng.choice([0, 0, 3, 40]) if step > 60 else 0)
        for cid in range(m + 1, m + k + 1):
            msg = "BUG-7 c%d" % cid if rng.random() < 0.5 else "misc" if rng.random() < 0.7 else \
            "rework of the cache\n\nsecond part of BUG-7 (c%d)" % cid     # (the ticket is named in the message body)
            commits[cid] = mg.Commit(name, cid, [prev], msg, base + (cid + later) * step,
                                     dict({"version.txt": old_note} if old_note else {}, VERSION="10.30")
                                     if master_mode else {})
            prev = commits[cid]
            if rng.random() < 0.6:
                bn += 1
                tags[f"lib-10.30-b{bn}" if hook_tags else f"build_{bn}_release_10_30_success"] = cid
        heads["origin/release/10.30"] = m + k
    return mg.Repo(name, commits, heads, tags), versions


def gen_comp_with_merges(rng, name="comp", step=60):
    """a component whose main line is no line: topic branches fork from it and are merged back (the topic as the
    first or as the last parent of the merge), builds are made on the main commits and on the topics"""
    commits, tags, versions = {}, {}, []
    base = 1_600_000_000
    major, minor = 10, 20
    state = {'cid': 0, 'bn': 0}
    # builds without tags: the number is kept in VERSION, a commit whose number differs from the numbers of ALL its
    # parents is a build; a merge carries the higher number of its parents (the version was raised on one side)
    saved_mode = rng.random() < 0.35
    number = {}

    def add(parents, build_p=0.6):
        state['cid'] += 1
        cid = state['cid']
        msg = "BUG-7 c%d" % cid if rng.random() < 0.5 else "misc"
        if saved_mode:
            if not parents or build_p >= 1 or rng.random() < build_p:
                state['bn'] += 1
                number[cid] = state['bn']
                versions.append((cid, (major, minor, state['bn'])))
            else:
                number[cid] = max(number[p] for p in parents)
            commits[cid] = mg.Commit(name, cid, [commits[p] for p in parents], msg, base + cid * step,
                                     {"VERSION": "%d.%d.%d" % (major, minor, number[cid])})
            return cid
        commits[cid] = mg.Commit(name, cid, [commits[p] for p in parents], msg, base + cid * step, {})
        if rng.random() < build_p:
            state['bn'] += 1
            tags[f"build_{state['bn']}_release_{major}_{minor}_success"] = cid
            versions.append((cid, (major, minor, state['bn'])))
        return cid

    main = [add([])]
    for _ in range(rng.randint(2, 7)):
        if len(main) >= 2 and rng.random() < 0.4:
            fork = rng.choice(main[:-1])
            tip = fork
            for _ in range(rng.randint(1, 2)):
                tip = add([tip], build_p=0.5)
            main.append(add([main[-1], tip] if rng.random() < 0.5 else [tip, main[-1]], build_p=0.8))
        else:
            main.append(add([main[-1]]))
    if saved_mode and number[main[-1]] in [number[p.intid] for p in commits[main[-1]].parents]:
        # (the head is a build of its own: what a head that repeats an earlier number means is left open)
        main.append(add([main[-1]], build_p=1))
    heads = {"origin/release/%d.%d" % (major, minor): main[-1]}
    return mg.Repo(name, commits, heads, tags), versions


def gen_parent(rng, versions, versions2=None, comp=None, comp2=None, step=60):
    """commit times are consistent: a parent commit is younger than the component commits it pins"""
    n = rng.randint(2, 12)
    commits = {}
    pins = {}
    pins2 = {}
    base = 1_600_000_000 + 1000
    ids = list(range(1, n + 1))
    # the oldest commits of some parents are older than the dependency: they have no file that pins anything
    unpinned = rng.randint(1, max(1, n // 3)) if rng.random() < 0.25 and not versions2 else 0
    # the build tags of some parents keep the dots and dashes of the branch name ("build_7_release_5.2-lts_success"):
    # major.minor then come from the VERSION file of the tagged commit
    dotted = unpinned == 0 and rng.random() < 0.15
    for cid in ids:
        earlier = ids[:cid - 1]
        if not earlier:
            ps = []
        elif len(earlier) >= 2 and rng.random() < 0.2:
            ps = rng.sample(earlier[-5:], 2)
        else:
            ps = [rng.choice(earlier[-3:])]
        msg = "BUG-7 p%d" % cid if rng.random() < 0.2 else "misc %d" % cid
        lo = max([pins[p] for p in ps if p in pins], default=0)
        pin = min(len(versions) - 1, lo + rng.choice([0, 0, 1, 1, 2, 3]))
        if cid <= unpinned:
            ts = base + cid * 60
            if step > 60:
                ts = max([commits[c].committed_date for c in ids[:cid - 1]] + [base]) + rng.randint(60, step)
            commits[cid] = mg.Commit("par", cid, [commits[p] for p in ps], msg, ts, {"README": "no dependencies yet"})
            continue
        pins[cid] = pin
        v = versions[pin][1]
        depends = {"comp": "%d.%d.%d" % v}
        if versions2:
            lo2 = max([pins2[p] for p in ps], default=0)
            pins2[cid] = min(len(versions2) - 1, lo2 + rng.choice([0, 0, 1, 1, 2]))
            depends["comp2"] = "%d.%d.%d" % versions2[pins2[cid]][1]
        ts = base + cid * 60
        if step > 60:
            pinned = [comp.commits[versions[pin][0]].committed_date]
            if versions2:
                pinned.append(comp2.commits[versions2[pins2[cid]][0]].committed_date)
            ts = max(pinned + [commits[c].committed_date for c in ids[:cid - 1]]) + rng.randint(60, step)
        commits[cid] = mg.Commit("par", cid, [commits[p] for p in ps], msg, ts,
                                 dict({"DEPENDS": json.dumps(depends)}, **({"VERSION": "5.%d" % (cid % 4)} if dotted else {})))
    # (the trunk of the parent is called master or, in newer repositories, main)
    names = rng.sample(["origin/release/5.4", "origin/release/5.10", "origin/release/5.5",
                        "origin/master" if n % 3 else "origin/main"], rng.randint(1, 3))
    heads = {nm: (rng.choice(ids[-(n // 2 + 1):]) if rng.random() < 0.8 else rng.choice(ids)) for nm in names}
    if rng.random() < 0.12 and ("origin/master" in heads) != ("origin/main" in heads):
        # the trunk was renamed and the old ref is still there (stale, or still moving)
        heads["origin/main" if "origin/master" in heads else "origin/master"] = rng.choice(ids)
    tags = {}
    # (the build counter of an old project has reached the thousands)
    bn = rng.choice([0, 0, 0, 0, 9996, 8885])
    for cid in ids:
        if rng.random() < 0.4:
            bn += 1
            if dotted:
                tags[f"build_{bn}_release_5.{cid % 4}-lts_success"] = cid
            else:
                tags[f"build_{bn}_release_5_{rng.randint(0, 9)}_success"] = cid
    other_tags = {}
    if rng.random() < 0.2:
        # tags kept in a namespace of their own (an archive of old build tags, somebody's personal tags): their names
        # only END like build tags - they mark no builds
        for k in range(rng.randint(1, 3)):
            other_tags[rng.choice(["archive/build_%d_release_5_0_success", "old/build_%d_release_5_4_success",
                                   "user/jo/build_%d_release_5_1_success"]) % (k + 1)] = rng.choice(ids)
    return mg.Repo("par", commits, heads, tags, other_tags=other_tags), pins, pins2


def gen_parent_merge(rng, versions, side_pins=None):
    """a parent history shaped on purpose: two side branches are built and then merged. Side A has only commits of
    the parent's own (one mentions the ticket) and still pins the oldest component build; side B moves the pin
    forward. The merge commit - A or B as its first parent - is built too"""
    commits, pins, tags = {}, {}, {}
    base = 1_600_000_000 + 1000
    state = {'cid': 0, 'bn': 0}

    def add(parents, pin, msg=None, build=False):
        state['cid'] += 1
        cid = state['cid']
        pins[cid] = pin
        commits[cid] = mg.Commit("par", cid, [commits[p] for p in parents],
                                 msg or ("BUG-7 p%d" % cid if rng.random() < 0.15 else "misc %d" % cid), base + cid * 60,
                                 {"DEPENDS": json.dumps({"comp": "%d.%d.%d" % versions[pin][1]})})
        if build:
            state['bn'] += 1
            tags[f"build_{state['bn']}_release_5_{rng.randint(0, 9)}_success"] = cid
        return cid

    old_pin = rng.choice([0, 0, min(1, len(versions) - 1)])
    tip = add([], old_pin)
    for _ in range(rng.randint(0, 2)):
        tip = add([tip], old_pin, build=rng.random() < 0.3)
    a = tip
    # (side_pins: both sides move the pin - to component builds on two parallel sub-branches of the component - and
    # the merge pins a build that has them both)
    for k in range(rng.randint(1, 2)):
        a = add([a], side_pins[0] if side_pins else old_pin,
                msg="BUG-7 p-own %d" % k if k == 0 or rng.random() < 0.5 else None)
    b = tip
    pin_b = old_pin
    for _ in range(rng.randint(1, 3)):
        pin_b = side_pins[1] if side_pins else min(len(versions) - 1, pin_b + rng.choice([1, 1, 2]))
        b = add([b], pin_b, build=rng.random() < 0.4)
    if side_pins:
        pin_b = side_pins[2]
    # the ends of both sides are builds
    for side in (a, b):
        if side not in tags.values():
            state['bn'] += 1
            tags[f"build_{state['bn']}_release_5_{rng.randint(0, 9)}_success"] = side
    merge = add([a, b] if rng.random() < 0.6 else [b, a], pin_b, build=rng.random() < 0.85)
    last = merge
    for _ in range(rng.randint(0, 2)):
        pin_b = min(len(versions) - 1, pin_b + rng.choice([0, 1]))
        last = add([last], pin_b, build=rng.random() < 0.5)
    heads = {"origin/master" if len(commits) % 3 else "origin/main": last}
    if rng.random() < 0.5:
        heads["origin/release/5.4"] = rng.choice([a, b, merge])
    return mg.Repo("par", commits, heads, tags), pins, {}


def grow(comp, par, versions, pins, how, second=None):
    """how = {"branch": parent branch name}.  The component's main head gets one more build tag; a new parent
    commit that pins this build becomes the head of a parent branch and is built"""
    main_branch = next(b for b in comp.branches if b != "origin/release/10.30")
    h = comp.branches[main_branch]
    bn = 1 + max(int(re.match(r"build_(\d+)_|lib-[0-9.]+-b(\d+)", t).group(1) or
                     re.match(r"build_(\d+)_|lib-[0-9.]+-b(\d+)", t).group(2)) for t in comp.tags)
    major, minor = versions[-1][1][0], versions[-1][1][1]
    vfile = comp.commits[h].tree.files.get("VERSION")
    if main_branch == "origin/master":
        major, minor = [int(x) for x in vfile.data.decode().split(".")]
        comp.add_tag("build_%d_master_success" % bn, h)
    elif any(t.startswith("lib-") for t in comp.tags):
        comp.add_tag("lib-%d.%d-b%d" % (major, minor, bn), h)
    else:
        comp.add_tag("build_%d_release_%d_%d_success" % (bn, major, minor), h)
    versions.append((h, (major, minor, bn)))
    branch = how["branch"]
    hp = par.branches[branch]
    depends = json.loads(par.commits[hp].tree.files["DEPENDS"].data.decode()) if "DEPENDS" in par.commits[hp].tree.files else {}
    depends["comp"] = "%d.%d.%d" % (major, minor, bn)
    cid = max(par.commits) + 1
    ts = max(par.commits[hp].committed_date, comp.commits[h].committed_date) + 60
    par.add_commit(cid, [hp], "misc %d" % cid, ts, {"DEPENDS": json.dumps(depends)}, branch=branch)
    pbn = 1 + max([int(re.match(r"build_(\d+)_", t).group(1)) for t in par.tags] or [0])
    par.add_tag("build_%d_release_5_0_success" % pbn, cid)
    pins[cid] = len(versions) - 1
    if second:
        second[2][cid] = second[2][hp]       # (the pin of the other component stays what it was)


def judge_a(ctx, comp, par, versions, pins, reverse_order, case, second=None, n_reports=1):
    """second = (comp2 repo, versions2, pins2) when the parent pins two components"""
    ctx.evaluated()
    git_dirs = []
    if case.get("disk_refs"):
        # the refs are read from .git directories by the production reader (packed refs and loose files,
        # annotated tags in both); the commit objects still come from the mock
        import tempfile
        top = tempfile.mkdtemp(prefix="vf-c07-git-")
        git_dirs.append(top)
        try:
            return _judge_a(ctx, comp, par, versions, pins, reverse_order, case, second, n_reports, top)
        finally:
            import shutil
            shutil.rmtree(top, ignore_errors=True)
    return _judge_a(ctx, comp, par, versions, pins, reverse_order, case, second, n_reports, None)


def _judge_a(ctx, comp, par, versions, pins, reverse_order, case, second, n_reports, top):
    def src(mock, nm):
        if top is None:
            return mock
        d = case["disk_refs"]
        disk, stats = mg.disk_refs_repo(mock, os.path.join(top, nm + " [v2] {a,b}*?"), d["seed"] + len(nm), d["loose"])
        ctx.count("refs_in_loose_files", stats[1])
        ctx.count("annotated_tags_in_loose_files", stats[3])
        ctx.count("annotated_tags_in_packed_refs", stats[0])
        return disk
    if top is not None:
        ctx.count("scenarios_with_refs_read_from_git_directories")
    remote = case.get("remote") or 'origin'
    if remote != 'origin':
        # the repositories track another remote (given to the ProjectRepo objects, which are handed to the collection
        # as they are); a remote called 'origin' exists too and has nothing but an old master
        for mock in [par, comp] + ([second[0]] if second else []):
            mock.remote = remote
            mock.decoys = {"origin/master": min(mock.commits)}
            mock._publish_branches()
        ctx.count("scenarios_tracking_a_remote_other_than_origin")
    pcls = mg.PRepo2 if second else mg.PRepo
    if second and case.get("two_files") and not case.get("grow"):
        # the two components are pinned in two files of their own
        descr = mg.describe(par)
        for entry in descr["commits"]:
            files = entry[4]
            if "DEPENDS" in files:
                both = json.loads(files["DEPENDS"])
                files["DEPENDS"] = json.dumps({"comp": both["comp"]})
                files["DEPENDS2"] = json.dumps({"comp2": both["comp2"]})
        par = mg.rebuild(descr)
        pcls = type("PRepoTwoFiles", (mg.PRepo2,), {"_COMPONENTS_VERSIONS_LOCATIONS": {'comp': 'DEPENDS', 'comp2': 'DEPENDS2'}})
        ctx.count("parents_that_pin_their_components_in_two_files")
    if case.get("kept_cache"):
        # the owner class keeps what it has read from the version files between the reports (the hook for "a simple
        # dictionary is not enough"); the first report of the collection asks for a text only commits of the owner mention
        pcls = type(pcls.__name__ + "KeepsCache", (pcls,), {
            "_mk_components_versions_cache": lambda self: self.__dict__.setdefault("_vf_kept_cache", {})})
        ctx.count("owners_that_keep_their_versions_cache_between_reports")
    order_in = [('par', pcls('par', src(par, 'par'), remote)),
                # (the component's repository object may carry another id of its own - the name of its project - than
                # the id the collection knows it by, which is the id the owner's version files use)
                ('comp', type(mg.component_repo_for('comp', comp))('comp' if len(versions) % 3 else 'proj-lib',
                                                                   src(comp, 'comp'), remote))]
    if second:
        order_in.insert(1, ('comp2', type(mg.component_repo_for('comp2', second[0]))('comp2', src(second[0], 'comp2'),
                                                                                    remote)))
    if any(isinstance(r, mg.TRepoHookNamed) for _, r in order_in):
        ctx.count("components_whose_tag_hook_names_the_version")
    if reverse_order:
        order_in.reverse()
    try:
        repos = ReposCollection(dict(order_in))
        sr = list(repos.sorted_repos)
        if sr[-1] != 'par' or sorted(sr) != sorted(n for n, _ in order_in):
            ctx.violation("component-not-analysed-first", {"sorted_repos": sr}, case)
            return
        for k_rep in range(n_reports):
            # a long-lived collection is asked for reports several times: the last one is judged
            if k_rep == n_reports - 1 and k_rep and case.get("grow") and comp.tags:
                # ... and before the last one the repositories have grown (as after a fetch): the component
                # was built once more and the parent, pinning that build, was built on top of a branch head
                grow(comp, par, versions, pins, case["grow"], second)
                ctx.count("repositories_grown_between_two_reports")
            if case.get("kept_cache") and k_rep == 0 and n_reports > 1:
                dict(repos.make_reports_data("misc "))     # (some commits of the owner say that, none of the component)
                continue
            data = dict(repos.make_reports_data(TEXT))
        if n_reports > 1:
            ctx.count("reports_on_a_reused_collection")
    except Exception as err:
        ctx.violation("report-raises", {"type": type(err).__name__, "msg": str(err)[:200]}, case)
        return
    if sorted(data) != sorted(n for n, _ in order_in):
        # (the reports are labelled with the ids the collection knows its repositories by)
        ctx.violation("reports-not-labelled-with-the-ids-of-the-collection",
                      {"labels": sorted(map(str, data)), "ids": sorted(n for n, _ in order_in)}, case)
        return
    judge_component(ctx, data, 'comp', comp, par, versions, pins, case)
    two_trunks = "origin/main" in par.branches and "origin/master" in par.branches
    if not ctx.mech_counts and sum(map(ord, str(sorted(pins.items())))) % 3 == 0 and not two_trunks:
        # (with two trunks two sections of the printed report are titled 'master': not compared)
        judge_printed(ctx, repos, data, case)
    if second:
        ctx.count("two_component_scenarios")
        judge_component(ctx, data, 'comp2', second[0], par, second[1], second[2], case)


PRINTED_BUILD_RE = re.compile(r"^  (\S.*?) \((\d{4}-\d\d-\d\d \d\d:\d\d:\d\d)\)(?: / (\S+) (\S+) (.+))?$")
PRINTED_MORE_RE = re.compile(r"^ {3,}/ (\S+) (\S+) (.+)$")


def judge_printed(ctx, repos, data, case):
    """what the user reads: the printed report must show, for every component build, exactly the parent builds
    recorded in the report data"""
    try:
        report = repos.make_report(TEXT)
        text = str(report.ch_text(no_color=True))
        # (the report object is kept and shown again - on the console first, in a mail later: the same text)
        str(report) if len(text) % 2 else None
        again = str(report.ch_text(no_color=True))
        if again != text:
            ctx.violation("report-printed-again-differs", {"first": text[:200], "second": again[:200]}, case)
            return
    except Exception as err:
        ctx.violation("report-raises", {"type": type(err).__name__, "msg": str(err)[:200], "printed": True}, case)
        return
    shown = {}
    repo = branch = None
    last = None
    for line in text.split("\n"):
        m = re.match(r"^==== repo (\S+) ====$", line)
        if m:
            repo, branch, last = m.group(1), None, None
            continue
        if repo and line.startswith(repo + " ") and line.endswith(":"):
            branch, last = line[len(repo) + 1:-1], None
            continue
        m = PRINTED_BUILD_RE.match(line)
        if m and branch is not None:
            last = shown.setdefault((repo, branch), [])
            last.append([m.group(1), []])
            if m.group(3):
                last[-1][1].append((m.group(3), m.group(4), m.group(5)))
            continue
        m = PRINTED_MORE_RE.match(line)
        if m and last:
            last[-1][1].append((m.group(1), m.group(2), m.group(3)))
    ctx.count("printed_reports_compared_with_data")
    for rid, rgraph in data.items():
        for br in rgraph.branches:
            want = []
            for rb in br.get_rbuilds_list():
                if rb.rcommit is None:
                    continue      # (fake 'not merged' builds have no time stamp and no parents)
                name = "- not built -" if rb.build_num.is_fake_not_built() else str(rb.build_num)
                incl = [(str(a), str(b), "- not built -" if c.is_fake_not_built() else str(c))
                        for a, b, c in rb.included_at]
                want.append([name, incl])
            got = shown.get((rid, br.branch_name), [])
            if got != want:
                ctx.violation("printed-report-differs-from-report-data",
                              {"repo": rid, "branch": br.branch_name, "printed": got[:4], "data": want[:4]}, case)
                return
            ctx.count("printed_included_at_entries", sum(len(x[1]) for x in want))


def judge_component(ctx, data, cname, comp, par, versions, pins, case):
    crg, prg = data[cname], data['par']
    order, exp = mg.branch_oracle(par)
    # the trunk of the parent may have been renamed with the old ref still there: both are reported as 'master', and
    # which of the two sorts lower is not said anywhere. The two are judged together, under both readings: an entry
    # for 'master' has to be a first shipping build of one of the trunks in one of the readings
    trunks = [b for b in ("origin/main", "origin/master") if b in par.branches]
    readings = [exp] if len(trunks) < 2 else [mg.branch_oracle(par, lower_trunk=t)[1] for t in trunks]
    if len(trunks) == 2:
        ctx.count("parents_with_two_trunks")
    ptags = {}
    for tname, cid in par.tags.items():
        m = re.match(r"build_(\d+)_release_(\d+)[_.](\d+)(?:-lts)?_success", tname)
        ptags.setdefault(cid, set()).add("%s.%s.%s" % (m.group(2), m.group(3), m.group(1)))
    prb = {br.branch_name: br for br in prg.branches}
    main_head = next(h for b, h in comp.branches.items() if b != "origin/release/10.30")
    main_line = mg.ancestors(comp.commits[main_head])
    # when the main line is master, a release branch forked from it sorts lower and OWNS the part of the main
    # line below its fork point: the report lists those builds under the release branch and lists their
    # commits once more under the first own build of master.  The report credits a parent build to the
    # lineage the pinned build belongs to, so containment is judged per lineage (see DESIGN 6.2, C07)
    side_owned = set()
    if "origin/master" in comp.branches and "origin/release/10.30" in comp.branches:
        side_owned = mg.ancestors(comp.commits[comp.branches["origin/release/10.30"]])
    n_entries = 0
    problems = []
    # which component builds are report-related is decided here, not taken from the report: a build is, when it is the
    # earliest build of the main line containing a commit whose message names the ticket (anywhere in the message)
    reported_builds = {r.rcommit.commit.intid for cbr in crg.branches for r in cbr.rbuilds.values()
                       if r.build_type == RBuild.NORMAL and r.rcommit is not None}
    build_commits = sorted({cid for cid in comp.tags.values() if cid in main_line})
    times = [c.committed_date for c in comp.commits.values()]
    # (a branch whose head is more than 30 days older than the newest report-related commit is left out of the
    # report on purpose: the trace is only made for components whose whole history lies inside 29 days)
    traceable = max(times) - min(times) <= 29 * 86400 and len(main_line) <= 60
    anc_of_build = {b: mg.ancestors(comp.commits[b]) for b in build_commits} if traceable else {}
    for cid in sorted(main_line):
        if TEXT not in comp.commits[cid].message or not comp.tags or not traceable:
            continue
        containing = [b for b in build_commits if cid in anc_of_build[b]]
        if not containing:
            continue
        earliest = [b for b in containing if not any(x != b and x in anc_of_build[b] for x in containing)]
        ctx.count("ticket_commits_traced_to_their_component_build")
        if not set(earliest) & reported_builds:
            problems.append(("report-related-component-build-missing-from-the-report",
                             {"commit": cid, "message": comp.commits[cid].message[:60], "earliest_builds": earliest,
                              "reported_builds": sorted(reported_builds)}))
    for cbr in crg.branches:
        for r in cbr.rbuilds.values():
            if r.build_type != RBuild.NORMAL:
                continue
            rc = r.rcommit.commit.intid
            # builds of the main line (the only ones the parent can pin) are judged strictly, wherever the
            # report put them (a lower-sorted side branch owns the part of the main line below its fork point)
            in_pinned_branch = rc in main_line
            got = {}
            for (rid, bname, bnum) in r.included_at:
                n_entries += 1
                if rid != 'par':
                    problems.append(("included-at-names-wrong-repository", {"repo": rid}))
                got.setdefault(str(bname), []).append(str(bnum))
            for b in order:
                e = exp[b]
                if len(trunks) == 2 and b == trunks[1]:
                    continue        # (judged together with the other trunk)
                ctx.count("component_build_x_parent_branch_decisions")

                def contains(x):
                    if x not in pins:
                        return False        # (a parent commit from before the dependency existed)
                    cv = versions[pins[x]][0]
                    if (rc in side_owned) != (cv in side_owned):
                        return False
                    return rc in mg.ancestors(comp.commits[cv])
                cont = {x for x in e['builds'] if contains(x)}
                minimal = {x for x in cont
                           if not any(y != x and y in mg.ancestors(par.commits[x]) for y in cont)}

                def bnames(x):
                    return ptags.get(x, {"8888.8888.8888"})
                g = got.get(mg.short_branch(b), [])
                if len(trunks) == 2 and b == trunks[0]:
                    # per reading: what the two trunks together would show; the first reading the entries fit is taken
                    fits = []
                    for reading in readings:
                        cont_r, min_r = set(), set()
                        for t in trunks:
                            c_t = {x for x in reading[t]['builds'] if contains(x)}
                            cont_r |= c_t
                            min_r |= {x for x in c_t
                                      if not any(y != x and y in mg.ancestors(par.commits[x]) for y in c_t)}
                        names_r = set().union(*[bnames(x) for x in min_r]) if min_r else set()
                        fits.append((bool(cont_r) == bool(g) and set(g) <= names_r, cont_r, min_r))
                    fits.sort(key=lambda f: not f[0])
                    _, cont, minimal = fits[0]
                exp_names = set().union(*[bnames(x) for x in minimal]) if minimal else set()
                # left open (DESIGN 6.2): a component build that a parent build shipped, a later parent build on the
                # way did NOT ship any more (its pin moved to a parallel sub-branch of the component), and a still later
                # one ships again - whether it is recorded once more at the build that ships it again
                again = {x for x in cont - minimal
                         if any(y in pins and not contains(y) and any(z in mg.ancestors(par.commits[y]) for z in cont)
                                for y in mg.ancestors(par.commits[x]) - {x})}
                if again:
                    ctx.count("component_builds_shipped_again_after_a_parent_build_had_dropped_them")
                    exp_names = exp_names | set().union(*[bnames(x) for x in again])
                where = {"component_branch": cbr.branch_name, "component_build_commit": rc,
                         "parent_branch": b, "included_at": g}
                pair = len(trunks) == 2 and b == trunks[0]
                if len(g) != len(set(g)) and not (pair and all(g.count(x) <= 2 for x in g)):
                    problems.append(("duplicate-included-at", where))
                if in_pinned_branch:
                    if not cont:
                        if g:
                            problems.append(("included-at-build-that-does-not-contain-it", where))
                    else:
                        if not g:
                            problems.append(("missing-included-at", dict(where, expected=sorted(exp_names))))
                        elif not set(g) <= exp_names:
                            problems.append(("included-at-is-not-the-first-containing-build",
                                             dict(where, expected=sorted(exp_names))))
                        names = {str(rb.build_num): rb for br in prg.branches
                                 if br.branch_name == mg.short_branch(b) for rb in br.rbuilds.values()}
                        if not set(g) <= set(names):
                            problems.append(("first-shipping-parent-build-not-reported",
                                             dict(where, reported=sorted(names))))
                        else:
                            for x in g:
                                rb = names[x]
                                if rb.build_type == RBuild.NORMAL and not rb.rcommit.is_explicit:
                                    ctx.count("parent_builds_reported_without_own_commit")
                else:
                    allowed = set().union(*[bnames(x) for x in cont]) if cont else set()
                    if not set(g) <= allowed:
                        problems.append(("other-branch:included-at-build-that-does-not-contain-it",
                                         dict(where, allowed=sorted(allowed))))
    ctx.count("included_at_entries_observed", n_entries)
    for mech, detail in problems[:5]:
        ctx.violation(mech, detail, case)
    pinned_versions = {pins[x] for e in exp.values() for x in e['builds'] if x in pins}
    if len(pinned_versions) >= 2 and n_entries:
        ctx.nontrivial(sig_of(case))


class FakeGit:
    remotes = {}


def has_cycle(deps):
    color = {}

    def dfs(u):
        color[u] = 1
        for v in deps[u]:
            if v not in deps:
                continue
            if color.get(v) == 1:
                return True
            if v not in color and dfs(v):
                return True
        color[u] = 2
        return False
    return any(dfs(u) for u in deps if u not in color)


def gen_deps(rng):
    k = rng.randint(1, 6)
    names = rng.sample(["a", "b", "c", "d", "e", "f", "zz", "m1"], k)
    deps = {}
    for nm in names:
        others = [x for x in names if x != nm] + ["ghost"]
        p = 0.25 if rng.random() < 0.7 else 0.6
        deps[nm] = [x for x in others if rng.random() < p]
        if rng.random() < 0.05:
            deps[nm].append(nm)
    items = list(deps.items())
    rng.shuffle(items)
    return dict(items)


class StepBoundExceeded(BaseException):
    pass


STEP_BOUND = 50_000   # executed lines of ak/ghist.py; the largest value observed for <= 6 repositories is < 1000


class LineBudget:
    """counts executed lines of ak/ghist.py (sys.settrace); raises when the bound is exceeded:
    'terminates' restated as bounded progress, decided on logical steps, not on wall-clock"""

    def __init__(self, bound):
        self.bound = bound
        self.lines = 0

    def _local(self, frame, event, arg):
        if event == "line":
            self.lines += 1
            if self.lines > self.bound:
                raise StepBoundExceeded()
        return self._local

    def _global(self, frame, event, arg):
        if frame.f_code.co_filename.endswith("ghist.py"):
            return self._local
        return None

    def __enter__(self):
        import sys
        sys.settrace(self._global)
        return self

    def __exit__(self, *exc):
        import sys
        sys.settrace(None)
        return False


def judge_b(ctx, deps, case):
    ctx.evaluated()
    ctx.count("dependency_graphs")
    repos = {}
    for nm, ds in deps.items():
        cls = type("R_" + nm, (ProjectRepo,), {'_COMPONENTS_VERSIONS_LOCATIONS': {d: 'DEPENDS' for d in ds}})
        repos[nm] = cls(nm, FakeGit(), 'origin')
    skipped = [nm for nm in case.get("skipped") or [] if nm in repos]
    for nm in skipped:
        # (only the place of the repository is supplied for this id and no class is registered for it: the entry is
        # left out, as documented - whoever names it as a component simply has one component less)
        repos[nm] = FakeGit()
    if skipped:
        ctx.count("collections_with_an_entry_that_is_left_out")
        deps = {nm: [d for d in ds if d not in skipped] for nm, ds in deps.items() if nm not in skipped}
    cyc = has_cycle(deps)
    budget = LineBudget(STEP_BOUND)
    collection_cls = ReposCollection
    if case.get("registry"):
        # a collection subclass that registers plain repository types for (some of) the ids; the
        # objects actually supplied are what counts
        collection_cls = type("VfCollection", (ReposCollection,),
                              {'_REPOS_TYPES': {nm: ProjectRepo for nm in case["registry"]}})
    try:
        try:
            with budget:
                rc = collection_cls(repos)
        finally:
            ctx.maxi("max_lines_executed_by_dependency_sort", budget.lines)
    except StepBoundExceeded:
        ctx.violation("dependency-sort-exceeds-step-bound",
                      {"lines_executed": budget.lines, "bound": STEP_BOUND, "cyclic": cyc}, case)
        return
    except ValueError:
        if not cyc:
            ctx.violation("acyclic-dependencies-rejected", {"deps": deps}, case)
        else:
            ctx.count("cyclic_graphs_rejected")
        return
    except Exception as err:
        ctx.violation("collection-raises", {"type": type(err).__name__, "msg": str(err)[:200]}, case)
        return
    if cyc:
        ctx.violation("cyclic-dependencies-accepted", {"sorted_repos": list(rc.sorted_repos)}, case)
        return
    pos = {r: i for i, r in enumerate(rc.sorted_repos)}
    if sorted(pos) != sorted(deps) or len(rc.sorted_repos) != len(deps):
        ctx.violation("sorted-repos-not-a-permutation", {"sorted_repos": list(rc.sorted_repos)}, case)
        return
    for nm, ds in deps.items():
        for d in ds:
            if d in pos and pos[d] > pos[nm]:
                ctx.violation("owner-analysed-before-component",
                              {"owner": nm, "component": d, "sorted_repos": list(rc.sorted_repos)}, case)
                return
    if len(deps) >= 3 and sum(1 for ds in deps.values() for d in ds if d in deps) >= 2:
        ctx.nontrivial(sig_of(case))


def long_bump_case(ctx, n):
    """one parent build moves the pin across n report-related component builds (a component built on every commit,
    a parent released rarely): each of them is included at that parent build"""
    base = 1_600_000_000
    commits, tags, versions = {}, {}, []
    prev = None
    for cid in range(1, n + 1):
        commits[cid] = mg.Commit("comp", cid, [prev] if prev else [], "BUG-7 c%d" % cid, base + cid * 20, {})
        prev = commits[cid]
        tags["build_%d_release_10_20_success" % cid] = cid
        versions.append((cid, (10, 20, cid)))
    comp = mg.Repo("comp", commits, {"origin/release/10.20": n}, tags)
    p1 = mg.Commit("par", 1, [], "misc 1", base + 30, {"DEPENDS": json.dumps({"comp": "10.20.1"})})
    p2 = mg.Commit("par", 2, [p1], "misc 2", base + n * 20 + 60, {"DEPENDS": json.dumps({"comp": "10.20.%d" % n})})
    par = mg.Repo("par", {1: p1, 2: p2}, {"origin/release/5.4": 2},
                  {"build_1_release_5_0_success": 1, "build_2_release_5_0_success": 2})
    ctx.count("component_builds_inside_one_long_bump", n)
    judge_a(ctx, comp, par, versions, {1: 0, 2: n - 1}, False, {"kind": "long-bump", "n": n})


def run_shard(ctx):
    logging.disable(logging.CRITICAL)
    if ctx.shard == 0:
        long_bump_case(ctx, 1500)
    for i in range(ctx.cases):
        rng = ctx.rng(i)
        if i % 3 == 2:
            deps = gen_deps(rng)
            registry = [nm for nm in deps if rng.random() < 0.6] if rng.random() < 0.3 else []
            skipped = [nm for nm in deps if nm not in registry and rng.random() < 0.35] if registry else []
            judge_b(ctx, deps, {"kind": "deps", "deps": deps, "registry": registry, "skipped": skipped})
            continue
        # minutes between commits, or hours / days (commit times stay consistent between the repositories)
        step = 60 if rng.random() < 0.6 else rng.choice([7 * 3600, 2 * 86400])
        if step > 60:
            ctx.count("histories_spread_over_days")
        if i % 9 == 4:
            comp, versions = gen_comp_with_merges(rng, step=step)
            ctx.count("components_whose_main_line_has_merges")
        else:
            comp, versions = gen_comp(rng, step=step)
        if not versions:
            ctx.count("component_without_builds(skipped)")
            continue
        if any("version.txt" in c.tree.files for c in comp.commits.values()):
            ctx.count("components_with_an_unreadable_first_version_location")
        second = None
        versions2 = None
        if rng.random() < 0.35:
            comp2, versions2 = gen_comp(rng, "comp2", step=step)
            if not versions2:
                versions2 = None
        if not versions2 and step == 60 and len(versions) >= 2 and i % 7 == 3:
            par, pins, pins2 = gen_parent_merge(rng, versions)
            ctx.count("parents_that_merge_two_built_sides")
        elif not versions2 and step == 60 and i % 9 == 4 and len(versions) >= 3 and rng.random() < 0.7:
            # the component has merged topic branches: the two sides of the parent pin builds of two parallel topics
            anc = {k: mg.ancestors(comp.commits[versions[k][0]]) for k in range(len(versions))}
            pairs = [(x, y) for x in range(len(versions)) for y in range(len(versions))
                     if x < y and versions[x][0] not in anc[y] and versions[y][0] not in anc[x]]
            tops = [k for k in range(len(versions)) if pairs and all(versions[z][0] in anc[k] for z in pairs[0])]
            if pairs and tops:
                x, y = rng.choice([pr for pr in pairs if any(all(versions[z][0] in anc[k] for z in pr) for k in range(len(versions)))] or pairs[:1])
                top = [k for k in range(len(versions)) if versions[x][0] in anc[k] and versions[y][0] in anc[k]]
                if top:
                    par, pins, pins2 = gen_parent_merge(rng, versions, side_pins=(x, y, rng.choice(top)))
                    ctx.count("parent_merges_whose_sides_pin_parallel_topics_of_the_component")
                else:
                    par, pins, pins2 = gen_parent(rng, versions, versions2, comp, None, step)
            else:
                par, pins, pins2 = gen_parent(rng, versions, versions2, comp, None, step)
        else:
            par, pins, pins2 = gen_parent(rng, versions, versions2, comp, comp2 if versions2 else None, step)
        if len(pins) < len(par.commits):
            ctx.count("parents_whose_oldest_commits_pin_nothing")
        if versions2:
            second = (comp2, versions2, pins2)
        rev = rng.random() < 0.5
        n_reports = rng.choice([1, 1, 2, 3])
        case = {"kind": "histories", "grow": ({"branch": rng.choice(sorted(par.branches))}
                                              if n_reports > 1 and rng.random() < 0.6 else None),
                "comp": mg.describe(comp), "par": mg.describe(par),
                "versions": [[c, list(v)] for c, v in versions], "pins": {str(k): v for k, v in pins.items()},
                "reverse": rev, "n_reports": n_reports}
        if n_reports == 1 and rng.random() < 0.15:
            case["disk_refs"] = {"seed": rng.getrandbits(32), "loose": rng.choice([0.0, 0.3, 0.6])}
        if rng.random() < 0.15:
            case["remote"] = rng.choice(["upstream", "up/stream"])
        if n_reports > 1 and rng.random() < 0.4:
            case["kept_cache"] = True
        if second and rng.random() < 0.5:
            case["two_files"] = True
        if second:
            case.update(comp2=mg.describe(comp2), versions2=[[c, list(v)] for c, v in versions2],
                        pins2={str(k): v for k, v in pins2.items()})
        judge_a(ctx, comp, par, versions, pins, rev, case, second, n_reports)
        if i < 2:
            ctx.sample({"component_tags": comp.tags, "component_branches": comp.branches,
                        "parent_pins(commit->version index)": case["pins"], "parent_tags": par.tags,
                        "parent_branches": par.branches})


def replay(ctx, case):
    logging.disable(logging.CRITICAL)
    if case["kind"] == "deps":
        judge_b(ctx, case["deps"], case)
        return
    if case["kind"] == "long-bump":
        long_bump_case(ctx, case["n"])
        return
    versions = [(c, tuple(v)) for c, v in case["versions"]]
    pins = {int(k): v for k, v in case["pins"].items()}
    second = None
    if "comp2" in case:
        second = (mg.rebuild(case["comp2"]), [(c, tuple(v)) for c, v in case["versions2"]],
                  {int(k): v for k, v in case["pins2"].items()})
    judge_a(ctx, mg.rebuild(case["comp"]), mg.rebuild(case["par"]), versions, pins, case["reverse"], case,
            second, case.get("n_reports", 1))
