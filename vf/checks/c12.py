"""C12 Tables are rectangular, aligned, width-bounded and account for every record."""
import collections
import types
import vf
vf.use_repo()
from ak.color import CHText  # noqa: E402
from ak.ppobj import PPTable, PPRecordFmt, RecordField, ReprStructure  # noqa: E402
from vf import tables as T  # noqa: E402
from vf.core import sig_of  # noqa: E402

ID = "C12"
LEVEL = "exploration"
RULE = ("record sets of 0-13 (thorough: up to 70, beyond the default limits) records x 4 fields of mixed values "
        "(ints, floats, None, bools, strings containing | + - . and blanks; enum field with known, unknown, None "
        "and non-numeric values), 1-5 columns: repeated fields, fixed widths 0-8, ranges incl. min=max and huge "
        "max, break-by marks, enum columns in modifiers none/full/val/name, multi-line titles, header / footer "
        "absent, empty, short or longer than the table, record limits via fmt or via argument: (0,0) (1,1) (2,0) "
        "(0,3) (2,2) (5,5) (1,0) (3,1) or '*'; a quarter of the tables is printed again after another table was built from "
        "its format object (with own limits / skip_columns), a quarter after its record list grew or shrank; others "
        "are consumed line by line in turns with a second table, or rebuilt from their reported format with "
        "hand-edited width bounds, or printed again after columns were removed by name or another format was set. "
        "An independent layout model checks every line: equal visible "
        "width, border shape, separators of title and record rows at the '+' columns (by position), widths within "
        "bounds, every cell = its full text padded on either side or text[:w-d]+dots, break and skipped lines, "
        "first-n / last-m lines shown and announced + shown == total, records in order, header and footer lines. "
        "Non-trivial = table with >= 3 records in which some cell is truncated and a limit or break-by applies; "
        "distinct by (records, format, limits).")
ASSUMPTIONS = ["padding side is not asserted (numbers and enum names may be right- or left-aligned)",
               "the announced number is read only when the phrase is fully visible, otherwise the visible part must "
               "be the expected phrase cut with dots"]
TIERS = {
    "quick": {"shards": 4, "cases": 3000, "timeout": 300},
    "thorough": {"shards": 16, "cases": 15000, "timeout": 3000, "params": {"big": True}},
}
FLOORS = {"quick": {"distinct_nontrivial": 600, "tables_checked": 5000, "tables_with_skipped_records": 500,
                    "tables_with_enum_columns": 1500, "tables_with_break_lines": 500, "truncated_cells_tables": 1500,
                    "tables_reprinted_after_columns_were_removed": 200, "tables_reprinted_with_another_format": 300},
          "thorough": {"distinct_nontrivial": 25000, "tables_checked": 220000, "tables_with_skipped_records": 20000,
                       "tables_with_enum_columns": 60000, "tables_with_break_lines": 20000,
                       "truncated_cells_tables": 60000, "tables_reprinted_after_columns_were_removed": 8000,
                       "tables_reprinted_with_another_format": 10000}}
LEVEL_TEXT = ("Runtime exploration with an independent layout model: each generated table is rendered by the real "
              "PPTable (no_color) and every line is re-derived from the records, the column descriptions and the "
              "limits by the harness.")
LEVEL_NOTE = ("one enum type, four fields; padding side free; colours are covered by C10; records are tuples with a "
              "fields list, namedtuples, dicts / tuples addressed by value paths in the column descriptions, or "
              "objects with attributes")
TECHNIQUE = "runtime monitoring: independent layout model over generated tables"


def gen_case(rng, big=False):
    counts = (0, 1, 2, 3, 5, 8, 13) if not big else (0, 1, 2, 3, 5, 8, 13, 30, 52, 70)
    recs = T.gen_records(rng, counts, sgr_data=True)
    fmt, cols, limits = T.gen_fmt(rng, allow_hidden=True)
    lim_arg = None
    if limits is None and rng.random() < 0.25:
        lim_arg = rng.choice([(0, 0), (1, 1), (2, 0), (0, 3), (5, 5)])
    header = rng.choice([None, None, "H", "", "a very long header " * 3])
    footer = rng.choice([None, None, "", "f", "footer " * 6])
    titles = {f: rng.choice(T.TITLES_POOL[f]) for f in T.FIELDS}
    later = rng.choice([None, 'derive', 'grow', 'interleave', 'edit-bounds', 'remove-columns', 'set-fmt'])
    centered = rng.choice([None, None, 'a', 'b', 'd'])
    # how the records are made and how the table learns where the values are
    shape = rng.choice([None] * 9 + ['namedtuple', 'dict-paths', 'pos-paths', 'attr', 'field-objects',
                                     'attr-of-a-mapping', 'case-twins', 'attr-falsy'])
    if shape:
        later = None
    if rng.random() < 0.012:
        # a very wide table: frame and service lines longer than 1000 characters
        recs = [(("w%d" % k) * rng.choice([150, 330]), r[1], r[2], "z" * rng.choice([400, 640])) for k, r in enumerate(recs)]
        fmt, cols, limits = "a:300-700,b,d:1000-1100", [
            dict(field='a', mod=None, brk=False, lo=300, hi=700, spec='a:300-700', hidden=False),
            dict(field='b', mod=None, brk=False, lo=1, hi=999, spec='b', hidden=False),
            dict(field='d', mod=None, brk=False, lo=1000, hi=1100, spec='d:1000-1100', hidden=False)], None
        later, shape = None, None
    bounded = None
    if rng.random() < 0.25 and later in (None, 'grow', 'interleave'):
        # width bounds configured on the field type: they hold for columns the format names without widths
        bounded = (rng.choice(['a', 'b', 'd']), rng.choice([0, 2, 6]), rng.choice([6, 8, 12]))
        for col in cols:
            if col['field'] == bounded[0] and ':' not in col['spec']:
                col['lo'], col['hi'] = bounded[1], bounded[2]
    fmt2, cols2, limits2 = T.gen_fmt(rng, allow_hidden=True)
    if limits2 is None and not fmt2.endswith(";*"):
        fmt2 += ";*"            # (the new format says everything: columns and record limits)
    return dict(fmt2=fmt2, cols2=cols2, limits2=limits2, fail_first=rng.random() < 0.12 and later is None, bounded=bounded, centered=centered, shape=shape, rec_fmt_first=rng.random() < 0.25, recs=recs, fmt=fmt, cols=cols, limits=limits, lim_arg=lim_arg, header=header, footer=footer,
                titles=titles, later=later, grow_by=rng.choice([1, 1, -1]),
                new_bounds=[(rng.choice([0, 1, 2, 3]), rng.choice([3, 4, 6, 9, 30])) for _ in range(3)],
                extra_recs=T.gen_records(rng, (1, 3, 6), sgr_data=True))


def rng_free_len(c):
    """number of records of the derived table (deterministic in the case)"""
    return 3 + (len(c['fmt']) * 7 + len(c['recs'])) % 16


_REC = collections.namedtuple("Rec", T.FIELDS)


class FalsyRecord(types.SimpleNamespace):
    def __bool__(self):
        return False

    def __len__(self):
        return 0


class MappingRecord(dict):
    """a record class of the application: a dict with attributes"""


class ComputedField(RecordField):
    """a field of the application whose value is not simply an element of the record"""

    def fetch_value(self, record):
        return record[1]


def shaped(c):
    """-> (records, fmt, fields) the way the chosen record shape wants them"""
    shape = c.get('shape')
    recs, fmt = c['recs'], c['fmt']
    if not shape:
        return recs, fmt, T.FIELDS
    if shape == 'field-objects':
        # the fields are described by field objects; the value of field 'b' is COMPUTED by a field class of the
        # application (it overrides fetch_value), its declared position in the record holds something else
        ft = T.mk_field_types(c.get('centered'), c.get('bounded'))
        dflt = ReprStructure._DFLT_FIELD_TYPE
        objs = [RecordField(f, ft.get(f, dflt), k, c['titles'][f]) if f != 'b' else
                ComputedField('b', ft.get('b', dflt), 3, c['titles']['b']) for k, f in enumerate(T.FIELDS)]
        return recs, fmt, objs
    if shape == 'namedtuple':
        return [_REC(*r) for r in recs], fmt, None
    if shape == 'attr':
        return [types.SimpleNamespace(**dict(zip(T.FIELDS, r))) for r in recs], fmt, None
    if shape == 'attr-falsy':
        # (records whose truth value is False - a measurement that 'is zero', an empty collection with attributes)
        return [FalsyRecord(**dict(zip(T.FIELDS, r))) for r in recs], fmt, None
    if shape == 'attr-of-a-mapping':
        # the records are mappings of the application (a dict subclass) whose ATTRIBUTES hold the values; keys of the
        # same names exist too and hold something else
        out = []
        for r in recs:
            m = MappingRecord({f: "key " + f for f in T.FIELDS})
            m.__dict__.update(zip(T.FIELDS, r))
            out.append(m)
        return out, fmt, None
    if shape == 'case-twins':
        # every field has a twin whose name differs in the case of the letters only (id / ID); the format names the
        # small ones
        return ([tuple(r) + tuple("twin of " + f for f in T.FIELDS) for r in recs], fmt,
                list(T.FIELDS) + [f.upper() for f in T.FIELDS])
    cols, sep, rest = fmt.partition(";")
    out = []
    for col in cols.split(","):
        name_part, colon, width = col.partition(":")
        field = name_part.split("/")[0].rstrip("!")
        path = "[%s]" % field if shape == 'dict-paths' else str(T.FIELDS.index(field))
        out.append(name_part + "<-" + path + colon + width)
    if shape == 'dict-paths':
        recs = [dict(zip(T.FIELDS, r)) for r in recs]
    return recs, ",".join(out) + sep + rest, None


def judge(ctx, c, case):
    ctx.evaluated()
    try:
        recs_in, fmt_in, fields_in = shaped(c)
        if c.get('shape'):
            ctx.count("tables_with_other_record_shapes")
        ftypes = T.mk_field_types(c.get('centered'), c.get('bounded'))
        if len(c['recs']) % 3 == 1:
            # another table of the application has an enum column over the SAME values whose names are different (the
            # state of an order, the state of a delivery); it was printed first
            other = T.PPEnumFieldType({k: ("other %s" % k, "name_good") if isinstance(v, tuple) else "other %s" % k
                                       for k, v in T.ENUM_DEF.items()})
            T.render(PPTable([(k,) for k in T.ENUM_DEF] + [(None,), (77,)], fields=['st'],
                             fmt="st,st/name,st/val,st/full", fields_types={'st': other}))
            ctx.count("tables_printed_after_another_enum_type_over_the_same_values")
        if c.get('rec_fmt_first') and c['recs'] and not c.get('shape'):
            # the same field type objects were used by a one-line record formatter before, and the caller
            # built its output line from the returned column texts, in place
            try:
                data = PPRecordFmt(c['fmt'].split(";")[0], fields=T.FIELDS, fields_types=ftypes)(
                    c['recs'][0], no_color=True)
                for col in data.columns:
                    col += " #"
                ctx.count("record_formatter_used_before_the_table")
            except Exception:
                ctx.count("record_formatter_raises(observed, outside the property)")
        broken = c.get('fail_first') and c['recs'] and not c.get('shape')
        if broken:
            # a malformed record makes the first print fail; the caller repairs the record and prints again
            recs_in = list(recs_in)
            recs_in[0] = recs_in[0][:1]
        if c.get('shape') == 'field-objects':
            # (types and titles are part of the field objects)
            t = PPTable(recs_in, fields=fields_in, fmt=fmt_in, limits=c['lim_arg'], header=c['header'],
                        footer=c['footer'])
        else:
            t = PPTable(recs_in, fields=fields_in, fmt=fmt_in, limits=c['lim_arg'], header=c['header'],
                        footer=c['footer'], fields_types=ftypes,
                        fields_titles=dict(c['titles']))
        if broken:
            try:
                T.render(t)
            except Exception:
                ctx.count("first_print_failed_on_a_malformed_record")
            recs_in[0] = c['recs'][0]
        lines = T.render(t).split("\n")
    except Exception as err:
        ctx.violation("table-raises", {"type": type(err).__name__, "msg": str(err)[:200], "fmt": c['fmt']}, case)
        return
    ctx.count("tables_checked")
    cols = [x for x in c['cols'] if not x['hidden']]
    eff_limits = c['lim_arg'] if c['lim_arg'] is not None else c['limits']
    if eff_limits is None and not c['fmt'].endswith(";*") and len(c['recs']) <= 25:
        eff_limits = (10 ** 6, 10 ** 6)   # nothing may be hidden by default limits for small tables
    if c['fmt'].endswith(";*") and c['lim_arg'] is None:
        eff_limits = (10 ** 6, 10 ** 6)
    problems = T.check_layout(lines, c['recs'], cols, eff_limits, c['header'], c['footer'], c['titles'],
                              first_print=not (c.get('fail_first') or c.get('rec_fmt_first')))
    for mech, detail in problems[:4]:
        ctx.violation(mech, dict(detail, fmt=c['fmt']), case)
    if problems:
        return
    if len(c['fmt']) % 4 == 1 and not c.get('shape'):
        # a new format that names a field the records do not have is refused - whatever else it says (here: record
        # limits) has no effect, the table prints as before
        try:
            t.set_fmt("a,no_such_field;1:0")
            ctx.violation("format-with-unknown-field-accepted", {"fmt": "a,no_such_field;1:0"}, case)
            return
        except (ValueError, KeyError):
            ctx.count("formats_with_an_unknown_field_refused")
        except Exception as err:
            ctx.violation("table-raises", {"type": type(err).__name__, "msg": str(err)[:200], "step": "refused format"}, case)
            return
        try:
            again = T.render(t).split("\n")
        except Exception as err:
            ctx.violation("table-raises", {"type": type(err).__name__, "msg": str(err)[:200], "step": "after a refused format"}, case)
            return
        if again != lines:
            ctx.violation("refused-format-changed-the-table", {"before": lines[:6], "after": again[:6]}, case)
            return
    # ---- the table stays what it is while other tables are built from its format object
    step = c.get('later')
    if step == 'derive':
        ctx.count("tables_reprinted_after_a_derived_table")
        try:
            t2 = PPTable(c['recs'][:3] or [(1, "b", 2, "d")], fmt_obj=t.fmt, limits=(1, 0),
                         skip_columns=[cols[0]['field']] if len({x['field'] for x in cols}) > 1 else None)
            T.render(t2)
            again = T.render(t).split("\n")
        except Exception as err:
            ctx.violation("table-raises", {"type": type(err).__name__, "msg": str(err)[:200], "step": step}, case)
            return
        if again != lines:
            ctx.violation("table-changed-by-a-table-built-from-its-format-object",
                          {"before": lines[:8], "after": again[:8]}, case)
            return
        if c['lim_arg'] is None:
            # a table that takes everything (columns, bounds, record limits) from the format object, on other
            # records, is a table like any other: the layout model applies
            recs3 = (c['extra_recs'] * 3)[:rng_free_len(c)]
            try:
                t3 = PPTable(recs3, fmt_obj=t.fmt, header=c['header'], footer=c['footer'])
                lines3 = T.render(t3).split("\n")
            except Exception as err:
                ctx.violation("table-raises", {"type": type(err).__name__, "msg": str(err)[:200], "step": step}, case)
                return
            lim3 = c['limits']
            if lim3 is None and not c['fmt'].endswith(";*") and len(recs3) <= 25:
                lim3 = (10 ** 6, 10 ** 6)
            if c['fmt'].endswith(";*"):
                lim3 = (10 ** 6, 10 ** 6)
            ctx.count("tables_built_from_a_format_object_checked")
            problems = T.check_layout(lines3, recs3, cols, lim3, c['header'], c['footer'], c['titles'])
            for mech, detail in problems[:4]:
                ctx.violation(mech, dict(detail, fmt=c['fmt'], step="table built from the format object"), case)
            if problems:
                return
    elif step == 'interleave':
        # two different tables are consumed line by line in turns; each must give what it gives alone
        ctx.count("tables_consumed_in_turns_with_another_table")
        try:
            recs_b = c['extra_recs'] * 3 or [(1, "b", 2, "d")]
            tb = PPTable(recs_b, fields=T.FIELDS, fmt="b!,a,st/name;1:1", fields_types=T.mk_field_types(),
                         header="other")
            alone_b = T.render(tb).split("\n")
            it_a, it_b = iter(t.ch_text(no_color=True)), iter(tb.ch_text(no_color=True))
            la, lb = [], []
            done_a = done_b = False
            while not (done_a and done_b):
                try:
                    la.append(next(it_a))
                except StopIteration:
                    done_a = True
                try:
                    lb.append(next(it_b))
                except StopIteration:
                    done_b = True
            got_a = str(CHText("\n").join(la)).split("\n")
            got_b = str(CHText("\n").join(lb)).split("\n")
        except Exception as err:
            ctx.violation("table-raises", {"type": type(err).__name__, "msg": str(err)[:200], "step": step}, case)
            return
        if got_a != lines or got_b != alone_b:
            which = "first" if got_a != lines else "second"
            a, b = (got_a, lines) if got_a != lines else (got_b, alone_b)
            k = next((i for i, (x, y) in enumerate(zip(a, b)) if x != y), min(len(a), len(b)))
            ctx.violation("table-consumed-in-turns-with-another-differs",
                          {"which": which, "line": k, "got": a[k] if k < len(a) else None,
                           "alone": b[k] if k < len(b) else None}, case)
            return
    elif step == 'edit-bounds':
        # the reported format (with the '(width)' annotations of a printed table) is edited by hand:
        # new bounds must be respected whatever the annotation says
        ctx.count("reported_formats_edited_by_hand")
        import re as _re
        reported = str(t.fmt)
        col_part, sep, rest = reported.partition(";")
        new_cols = []
        cols2 = []
        ok = True
        specs = col_part.split(",")
        if len(specs) != len(cols):
            ok = False
        for spec, col in zip(specs, cols):
            m = _re.fullmatch(r"(.*):(\d+)-(\d+)\((\d+)\)", spec)
            col2 = dict(col)
            if m:
                w = int(m.group(4))
                lo2, hi2 = c['new_bounds'][len(new_cols) % len(c['new_bounds'])]
                spec = "%s:%d-%d(%d)" % (m.group(1), lo2, hi2, w)
                col2['lo'], col2['hi'] = lo2, hi2
            new_cols.append(spec)
            cols2.append(col2)
        if ok:
            edited = ",".join(new_cols) + sep + rest
            try:
                t3 = PPTable(c['recs'], fields=T.FIELDS, fmt=edited, limits=c['lim_arg'], header=c['header'],
                             footer=c['footer'], fields_types=T.mk_field_types(), fields_titles=dict(c['titles']))
                lines3 = T.render(t3).split("\n")
            except Exception as err:
                ctx.violation("table-raises", {"type": type(err).__name__, "msg": str(err)[:200], "step": step,
                                               "fmt": edited}, case)
                return
            eff3 = eff_limits
            problems = T.check_layout(lines3, c['recs'], cols2, eff3, c['header'], c['footer'], c['titles'])
            for mech, detail in problems[:3]:
                ctx.violation(mech, dict(detail, fmt=edited, step="reported format with edited bounds"), case)
            if problems:
                return
    elif step == 'remove-columns' and len({x['field'] for x in cols}) > 1:
        # some columns are removed from the printed table (by name: every column showing that field goes);
        # names that are not columns are accepted and ignored
        gone = cols[len(c['fmt']) % len(cols)]['field']
        ctx.count("tables_reprinted_after_columns_were_removed")
        try:
            t.remove_columns([gone, "no such column"])
            lines2 = T.render(t).split("\n")
        except Exception as err:
            ctx.violation("table-raises", {"type": type(err).__name__, "msg": str(err)[:200], "step": step}, case)
            return
        cols_left = [x for x in cols if x['field'] != gone]
        problems = T.check_layout(lines2, c['recs'], cols_left, eff_limits, c['header'], c['footer'], c['titles'])
        for mech, detail in problems[:3]:
            ctx.violation(mech, dict(detail, fmt=c['fmt'], removed=gone, step="after columns were removed"), case)
        if problems:
            return
    elif step == 'set-fmt' and c['lim_arg'] is None and 'fmt2' in c:
        # the printed table is given another format (columns, widths and record limits) and printed again
        ctx.count("tables_reprinted_with_another_format")
        cols2 = [dict(x) for x in c['cols2'] if not x['hidden']]
        if c.get('bounded'):
            for col in cols2:
                if col['field'] == c['bounded'][0] and ':' not in col['spec']:
                    col['lo'], col['hi'] = c['bounded'][1], c['bounded'][2]
        try:
            if len(c['fmt2']) % 2:
                t.set_fmt(c['fmt2'])
            else:
                t.fmt = c['fmt2']
            lines2 = T.render(t).split("\n")
        except Exception as err:
            ctx.violation("table-raises", {"type": type(err).__name__, "msg": str(err)[:200], "step": step,
                                           "fmt2": c['fmt2']}, case)
            return
        lim2 = c['limits2'] if c['limits2'] is not None else (10 ** 6, 10 ** 6)
        problems = T.check_layout(lines2, c['recs'], cols2, lim2, c['header'], c['footer'], c['titles'])
        for mech, detail in problems[:3]:
            ctx.violation(mech, dict(detail, fmt=c['fmt'], fmt2=c['fmt2'], step="after another format was set"), case)
        if problems:
            return
    elif step == 'grow' and c['footer'] is not None:
        # the record list the table was built on grows / shrinks later: every print accounts for
        # the records it has at that moment (explicit footers only: the default footer text is
        # composed when the table is created)
        ctx.count("tables_reprinted_after_record_list_changed")
        recs2 = c['recs']
        # (one more print of the table was begun before: its first lines were taken, the rest is taken afterwards.
        # What it shows of a list that changes under it is its own business - but it is one table: one width, the
        # separators under the '+' marks of its border)
        begun = None
        if len(c['fmt']) % 2 == 0:
            try:
                begun = iter(t.ch_text(no_color=True))
                head = [str(CHText(next(begun))) for _ in range(2)]
            except StopIteration:
                begun = None
            except Exception as err:
                ctx.violation("table-raises", {"type": type(err).__name__, "msg": str(err)[:200], "step": "lazy print"}, case)
                return
        if c.get('grow_by', 0) >= 0:
            recs2.extend(c['extra_recs'])
        else:
            del recs2[len(recs2) // 2:]
        try:
            lines2 = T.render(t).split("\n")
            if begun is not None:
                lazy = head + [str(CHText(x)) for x in begun]
                ctx.count("prints_finished_after_the_record_list_changed")
                border = lazy[0]
                marks = [k for k, ch in enumerate(border) if ch == '+']
                for ln in lazy:
                    if len(ln) != len(border) or (ln.startswith("+") and [k for k, ch in enumerate(ln) if ch == '+'] != marks):
                        ctx.violation("lines-of-different-width", {"step": "a print finished after the record list changed",
                                                                   "border": border[:80], "line": ln[:80], "fmt": c['fmt']}, case)
                        return
        except RuntimeError as err:
            # (a list that changes size while it is walked over may be refused by python itself)
            ctx.count("prints_over_a_changing_list_refused(not judged)")
            lines2 = T.render(t).split("\n")
        except Exception as err:
            ctx.violation("table-raises", {"type": type(err).__name__, "msg": str(err)[:200], "step": step}, case)
            return
        eff2 = eff_limits
        if c['lim_arg'] is None and c['limits'] is None and not c['fmt'].endswith(";*") and len(recs2) > 25:
            eff2 = None
        problems = T.check_layout(lines2, recs2, cols, eff2, c['header'], c['footer'], c['titles'])
        for mech, detail in problems[:3]:
            ctx.violation(mech, dict(detail, fmt=c['fmt'], step="after the record list changed"), case)
        if problems:
            return
    body_has_skip = any(l.startswith("|...") and "skipped" in l for l in lines)
    if body_has_skip:
        ctx.count("tables_with_skipped_records")
    if any(x['field'] == 'st' for x in cols):
        ctx.count("tables_with_enum_columns")
    W = len(lines[0])
    has_break = any(l == "|" + " " * (W - 2) + "|" for l in lines[1:]) and any(x['brk'] for x in cols)
    if has_break:
        ctx.count("tables_with_break_lines")
    truncated = any("..|" in l or ".|" in l for l in lines if l.startswith("|"))
    if truncated:
        ctx.count("truncated_cells_tables")
    if len(c['recs']) >= 3 and truncated and (body_has_skip or has_break):
        ctx.nontrivial(sig_of([c['recs'], c['fmt'], c['lim_arg']]))


def hand_built_format_case(ctx, rng, spec=None):
    """the format of the table is built from the documented classes by hand, not from a format string: a list of
    fields that mixes plain names and field objects, columns that are given one width limit only (the other one is
    the field type's)"""
    from ak.ppobj import PPTableFormat, ReprColumn, RecordStructure, FieldType
    ctx.evaluated()
    if spec is None:
        spec = {"recs": T.gen_records(rng, (0, 1, 3, 6)), "lo_a": rng.choice([None, 0, 3, 6]),
                "hi_b": rng.choice([None, 2, 5, 12]), "both_d": rng.choice([None, (2, 4), (5, 5)]),
                "mixed_fields": rng.random() < 0.5}
    recs = [tuple(r) for r in spec["recs"]]
    case = {"hand_built_format": spec}
    ft = T.mk_field_types()
    dflt = ReprStructure._DFLT_FIELD_TYPE
    titles = {f: f for f in T.FIELDS}
    try:
        if spec["mixed_fields"]:
            # (names and field objects in one list: a name stands for the element at its place in the list)
            t0 = PPTable(recs, fields=['a', RecordField('b', dflt, 1, 'b'), 'st', 'd'], fmt="d,a,b", fields_types=ft,
                         header=None, footer=None)
            lines0 = T.render(t0).split("\n")
            cols0 = [dict(field=f, mod=None, brk=False, lo=1, hi=999, spec=f, hidden=False) for f in ('d', 'a', 'b')]
            problems = T.check_layout(lines0, recs, cols0, (10 ** 6, 10 ** 6) if len(recs) <= 25 else None, None, None, titles)
            ctx.count("tables_with_names_and_field_objects_in_one_fields_list")
            for mech, detail in problems[:3]:
                ctx.violation(mech, dict(detail, fields="names and field objects mixed"), case)
            if problems:
                return
        fields = [RecordField(f, ft.get(f, dflt), k, f) for k, f in enumerate(T.FIELDS)]
        by = {f.name: f for f in fields}
        d_kw = {} if spec["both_d"] is None else {"min_width": spec["both_d"][0], "max_width": spec["both_d"][1]}
        columns = [ReprColumn(by['a'], **({} if spec["lo_a"] is None else {"min_width": spec["lo_a"]})),
                   ReprColumn(by['b'], **({} if spec["hi_b"] is None else {"max_width": spec["hi_b"]})),
                   ReprColumn(by['d'], **d_kw)]
        t = PPTable(recs, fmt_obj=PPTableFormat(ReprStructure(RecordStructure(fields), columns)), header=None, footer=None)
        lines = T.render(t).split("\n")
    except Exception as err:
        ctx.violation("table-raises", {"type": type(err).__name__, "msg": str(err)[:200], "fmt": "built by hand"}, case)
        return
    ctx.count("tables_with_a_format_built_by_hand")
    d_type = ft['d']
    cols = [dict(field='a', mod=None, brk=False, lo=1 if spec["lo_a"] is None else spec["lo_a"], hi=999, spec='a', hidden=False),
            dict(field='b', mod=None, brk=False, lo=1, hi=999 if spec["hi_b"] is None else spec["hi_b"], spec='b', hidden=False),
            dict(field='d', mod=None, brk=False, lo=d_type.min_width if spec["both_d"] is None else spec["both_d"][0],
                 hi=d_type.max_width if spec["both_d"] is None else spec["both_d"][1], spec='d', hidden=False)]
    problems = T.check_layout(lines, recs, cols, (10 ** 6, 10 ** 6) if len(recs) <= 25 else None, None, None, titles)
    for mech, detail in problems[:3]:
        ctx.violation(mech, dict(detail, fmt="built by hand"), case)


def falsy_keys_enum_case(ctx, k):
    """an enum column whose widest value is a falsy one (a yes/no flag: 'False' is longer than 'True'; a level that
    starts at 0.0): no width is configured, every cell shows its full text"""
    ctx.evaluated()
    variants = [({True: "yes", False: "no"}, [True, False, False, None, True]),
                ({True: ("on", "name_good"), False: ("off", "name_warn")}, [False, True]),
                ({0.0: "ground", 1: "first", 2: "second"}, [1, 0.0, 2, 0.0])]
    enum_def, values = variants[k % len(variants)]
    mod = ["", "/val", "/full", "/name"][(k // len(variants)) % 4]
    fmt = "flag" + mod + ("!" if k % 3 == 0 else "")
    case = {"falsy_keys_enum": k}
    try:
        t = PPTable([(v, i) for i, v in enumerate(values)], fields=['flag', 'n'], fmt=fmt + ",n",
                    fields_types={'flag': T.PPEnumFieldType(dict(enum_def))})
        lines = T.render(t).split("\n")
    except Exception as err:
        ctx.violation("table-raises", {"type": type(err).__name__, "msg": str(err)[:200], "fmt": fmt}, case)
        return
    ctx.count("tables_over_an_enum_whose_widest_value_is_falsy")
    val_len = max(len(str(x)) for x in enum_def)
    if len(set(map(len, lines))) != 1:
        ctx.violation("lines-of-different-width", {"fmt": fmt, "table": "\n".join(lines)[:300]}, case)
        return
    rows = [l for l in lines if l.startswith("|")][1:]     # (the first one holds the titles)
    shown = [v for k2, v in enumerate(values)]
    k2 = 0
    for row in rows:
        cell = row.split("|")[1]
        if not cell.strip() and k % 3 == 0:
            continue            # (a break line)
        if k2 >= len(shown):
            break
        v = shown[k2]
        k2 += 1
        if v is None:
            want = "None"
        else:
            name = enum_def[v][0] if isinstance(enum_def[v], tuple) else enum_def[v]
            want = str(v) if mod == "/val" else name if mod == "/name" else str(v).rjust(val_len) + " " + name
        if cell.strip() != want.strip() or "..." in cell:
            ctx.violation("cell-shows-wrong-text", {"cell": cell, "value": want, "col": fmt, "fmt": fmt + ",n"}, case)
            return


def run_shard(ctx):
    big = bool(ctx.params.get("big"))
    for k in range(16 if not big else 0):
        falsy_keys_enum_case(ctx, ctx.shard * 16 + k)
    for i in range(ctx.cases):
        rng = ctx.rng(i)
        if i % 10 == 6 and not big:
            hand_built_format_case(ctx, rng)
        c = gen_case(rng, big)
        judge(ctx, c, c)
        if i < 2:
            ctx.sample({"fmt": c['fmt'], "limits_arg": c['lim_arg'], "records": c['recs'][:4],
                        "header": c['header'], "footer": c['footer']})


def replay(ctx, case):
    if "falsy_keys_enum" in case:
        falsy_keys_enum_case(ctx, case["falsy_keys_enum"])
        return
    if "hand_built_format" in case:
        hand_built_format_case(ctx, None, case["hand_built_format"])
        return
    case = dict(case)
    case['recs'] = [tuple(r) for r in case['recs']]
    case['extra_recs'] = [tuple(r) for r in case.get('extra_recs', [])]
    judge(ctx, case, case)
