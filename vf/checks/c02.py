"""C02 Conflict-free (LL(1)) grammars are parsed exactly."""
import contextlib
import io

import vf
vf.use_repo()
from ak import llparser  # noqa: E402
from vf import gram, llmon  # noqa: E402
from vf.checks import c01  # noqa: E402
from vf.core import sig_of  # noqa: E402
from vf.checks.c01 import build_inputs  # noqa: E402

ID = "C02"
LEVEL = "exploration"
RULE = ("half of the grammars come from the C01 generator (kept when not left recursive), half from a "
        "generator that constructs LL(1) candidates (alternatives starting with different terminals, "
        "one nullable alternative, nullable symbols in front of and at the end of productions, right "
        "recursion; plus a family where a nullable symbol occurs in two contexts with different "
        "followers behind another nullable symbol, and a family where two symbols "
        "share an identical alternative ending in a nullable symbol) filtered by the harness' own FIRST/FOLLOW/predict computation. Inputs: random "
        "derivations (members) and single-token edits / random strings, each classified by an "
        "independent Earley recogniser. Oracles: (a) LL(1)-as-written => is_ambiguous() False for both "
        "smart_factorization values; (b) is_ambiguous() False => accepted iff member, ParsingError "
        "otherwise, same verdict for both settings; (c) LL(1)-as-written => returned tree equals the "
        "tree of the harness' table-driven LL(1) parser. Non-trivial = conflict-free grammar in which "
        "a nullable alternative competes with others (FOLLOW decides); distinct by (grammar, tokens).")
ASSUMPTIONS = ["harness FIRST/FOLLOW/predict sets, Earley recogniser and LL(1) parser (vf/gram.py) are the "
               "reference", "grammars <= 4 non-terminals, inputs <= 14 tokens"]
TIERS = {
    "quick": {"shards": 4, "cases": 1500, "timeout": 300},
    "thorough": {"shards": 16, "cases": 12000, "timeout": 3000},
}
FLOORS = {"quick": {"sequence_template_decisions": 900,
                    "distinct_nontrivial": 1500, "ll1_grammars": 500, "nonambiguous_pairs_judged": 10000,
                    "ll1_trees_compared": 2000, "members": 3000, "non_members": 3000},
          "thorough": {"sequence_template_decisions": 3600,
                       "distinct_nontrivial": 30000, "ll1_grammars": 15000,
                       "nonambiguous_pairs_judged": 300000, "ll1_trees_compared": 60000,
                       "members": 100000, "non_members": 100000}}
LEVEL_TEXT = ("Runtime exploration with independent reference algorithms: for each generated grammar the "
              "harness computes nullable/FIRST/FOLLOW/predict sets itself, decides LL(1)-ness, and compares "
              "the real parser's conflict report, accept/reject verdicts (against Earley) and derivation "
              "trees (against its own LL(1) parser) for both factorization settings.")
LEVEL_NOTE = ("Reference algorithms are textbook fix-points written without looking at the parser's "
              "implementation; sizes are bounded; a member/non-member verdict is only demanded when the "
              "parser itself reports a conflict-free table.")
TECHNIQUE = "runtime monitoring: differential oracle (own FIRST/FOLLOW, Earley, LL(1) parser) over generated grammars"


def make_case(rng):
    cfg_id = rng.randrange(len(llmon.TOKCFGS))
    cfg = llmon.TOKCFGS[cfg_id]
    n_terms = rng.choice([3, 4, 4])
    if len(cfg.terminals) >= 8 and rng.random() < 0.6:
        n_terms = rng.choice([7, 8, 9])      # room for groups of 6-7 alternatives behind one prefix
    terms = rng.sample(cfg.terminals, min(len(cfg.terminals), n_terms))
    r = rng.random()
    if r < 0.06 and len(terms) >= 3:
        prods = gram.gen_prefix_divergence_grammar(rng, terms)
        kind = "prefix-divergence"
    elif r < 0.09:
        prods = gram.gen_nullable_led_grammar(rng, terms)
        kind = "nullable-led"
    elif r < 0.4:
        if rng.random() < 0.4:
            prods = gram.gen_prefix_group_grammar(rng, terms)
            kind = "prefix-groups"
        else:
            prods = gram.gen_grammar(rng, terms, max_alts=rng.choice([3, 4, 4, 6, 7]))
            kind = "random"
    elif r < 0.62 and r >= 0.55 and len(terms) >= 4:
        kind = "ll1-shared-rhs"
        for _ in range(8):
            prods = gram.gen_shared_rhs_candidate(rng, terms)
            if not gram.left_recursion_cycle(prods) and gram.is_ll1(prods, 'E'):
                break
    elif r < 0.55 and len(terms) >= 4:
        kind = "ll1-follow-context"
        for _ in range(8):
            prods = gram.gen_follow_context_candidate(rng, terms)
            if not gram.left_recursion_cycle(prods) and gram.is_ll1(prods, 'E'):
                break
    elif r < 0.68 and len(terms) >= 2:
        kind = "ll1-follow-ring"
        prods = gram.gen_follow_ring_grammar(rng, terms)
    elif r < 0.72 and len(terms) >= 3:
        kind = "ll1-epsilon-only"
        prods = gram.gen_epsilon_only_grammar(rng, terms)
    else:
        kind = "ll1-constructed"
        for _ in range(8):
            prods = gram.gen_ll1_candidate(rng, terms)
            if not gram.left_recursion_cycle(prods) and gram.is_ll1(prods, 'E'):
                break
    prods = gram.shuffle_declaration_order(rng, prods)
    return cfg_id, terms, prods, kind


def run_case(ctx, mon, cfg_id, terms, prods, inputs_spec=None, rng=None, any_spec=None):
    cfg = llmon.TOKCFGS[cfg_id]
    start = 'E'
    if gram.left_recursion_cycle(prods):
        ctx.count("grammars_left_recursive(skipped)")
        return None
    if any_spec:
        ctx.count("grammars_with_AnyTokenExcept")
    base_case = {"cfg": cfg_id, "terms": terms, "any_token_except": any_spec,
                 "prods": {k: [list(a) for a in v] for k, v in prods.items()}}
    parsers = {}
    ctor_error = None
    for smart in (True, False):
        try:
            parsers[smart] = cfg.make_parser(c01.ctor_productions(cfg, prods, any_spec), start,
                                             smart_factorization=smart)
        except AssertionError:
            ctx.count("ctor_assert(out of domain)")
        except llparser.GrammarError as err:
            ctx.count("ctor_grammar_error(judged by C03)")
            ctor_error = (smart, type(err).__name__, str(err)[:150])
        except Exception as err:
            # (neither a verdict on the grammar nor an assertion about the domain: the grammar cannot be used)
            ctx.violation("ll1-grammar-rejected-by-constructor",
                          {"smart": smart, "type": type(err).__name__, "msg": str(err)[:150]}, base_case)
            return None
    if parsers and cfg.kwargs.get('span_matchers'):
        try:
            llmon.build_decoy(cfg)       # (another parser with other multi-line tokens is built before these are used)
        except Exception as err:
            # (its grammar is E -> TEXT ML W over its own multi-line tokens: as LL(1) as a grammar can be)
            ctx.violation("ll1-grammar-rejected-by-constructor",
                          {"smart": True, "type": type(err).__name__, "msg": str(err)[-150:],
                           "grammar": "the one-production grammar of the decoy parser"}, base_case)
            return None
    if len(parsers) == 1 and ctor_error is not None:
        # the grammar is fine for one factorization setting and rejected for the other
        ctx.violation("grammar-rejected-for-one-factorization-setting-only",
                      {"smart_factorization": ctor_error[0], "type": ctor_error[1], "msg": ctor_error[2]},
                      dict(base_case, inputs=[]))
    if not parsers and ctor_error is not None:
        # both settings reject the grammar: fine for a malformed one, not for a grammar that is LL(1) as written
        # and uses only declared symbols and terminals of the tokenizer
        symbols = {x for alts in prods.values() for a in alts for x in a}
        well_formed = all(prods[k] for k in prods) and symbols <= set(prods) | set(cfg.terminals)
        if well_formed and gram.is_ll1(prods, start):
            ctx.violation("ll1-grammar-rejected-by-constructor",
                          {"type": ctor_error[1], "msg": ctor_error[2][-150:]}, dict(base_case, inputs=[]))
    if len(parsers) < 2:
        return None
    ctx.count("grammars")
    if sum(map(ord, str(sorted(prods)))) % 3 == 0:
        # the parser's self description is printed before it is used
        for parser in parsers.values():
            try:
                with contextlib.redirect_stdout(io.StringIO()):
                    parser.print_detailed_descr()
                ctx.count("parsers_described_before_use")
            except Exception as err:
                ctx.violation("describing-the-parser-raises", {"type": type(err).__name__, "msg": str(err)[:100]},
                              dict(base_case, inputs=[]))
    ll1 = gram.is_ll1(prods, start)
    follow_needed = gram.needs_follow(prods, start)
    amb = {smart: bool(p.is_ambiguous()) for smart, p in parsers.items()}
    if ll1:
        ctx.count("ll1_grammars")
        if follow_needed:
            ctx.count("ll1_grammars_where_follow_decides")
        for smart in parsers:
            ctx.evaluated()
            if amb[smart]:
                ctx.violation("ll1-grammar-reported-ambiguous", {"smart_factorization": smart},
                              dict(base_case, inputs=[]))
    if all(amb.values()):
        ctx.count("grammars_ambiguous_for_both(no exactness demanded)")
    if inputs_spec is None:
        inputs_spec = []
        for toks in build_inputs(rng, prods, start, terms):
            toks, text, expected = cfg.render_checked(rng, toks, dense=rng.random() < 0.2)
            if toks is None:
                continue
            inputs_spec.append((toks, text, expected, rng.random() < 0.3))
    for k_input, (toks, text, expected, as_lines) in enumerate(inputs_spec):
        if k_input == 1 and len(prods) > 1:
            # somebody parses a fragment, starting from another symbol (the per-call start symbol)
            other = sorted(nt for nt in prods if nt != start)[0]
            for parser in parsers.values():
                try:
                    parser.parse(text, start_symbol_name=other)
                except llparser.Error:
                    pass
                except llmon.BudgetExceeded:
                    pass
            ctx.count("fragment_parses_with_another_start_symbol")
        member = gram.earley(prods, start, toks)
        ref_tree = gram.ll1_parse(prods, start, toks) if ll1 else None
        if ll1 and (ref_tree is not None) != member:
            raise RuntimeError("harness: LL(1) reference parser and Earley disagree")
        case = dict(base_case, inputs=[[toks, text, [list(x) for x in expected], as_lines]])
        verdicts = {}
        for smart, parser in parsers.items():
            if amb[smart] and not ll1:
                continue
            ctx.evaluated()
            mon.reset()
            try:
                lines = text.split("\n")
                if text == "" and as_lines:
                    # an empty text given by its lines has no line at all (an empty file, an empty list)
                    lines = []
                    ctx.count("empty_texts_given_as_no_line_at_all")
                # (a text given as lines comes as a list or, every other time, as a one-shot iterator)
                # (every seventh text is parsed with the documented trace switched on: the messages go nowhere)
                with_trace = len(text) % 7 == 3
                if with_trace:
                    ctx.count("texts_parsed_with_the_trace_on")
                with contextlib.redirect_stdout(io.StringIO()):
                    tree = parser.parse((lines if len(text) % 2 else iter(lines)) if as_lines else text,
                                        do_cleanup=False, **({'debug': True} if with_trace else {}))
                verdicts[smart] = True
            except llparser.ParsingError:
                verdicts[smart] = False
                tree = None
            except llmon.BudgetExceeded:
                ctx.inconclusive_note("step budget exceeded")
                continue
            except Exception as err:
                if not member:
                    ctx.violation("non-sentence-raises-other-exception",
                                  {"type": type(err).__name__, "msg": str(err)[:100], "smart": smart}, case)
                else:
                    ctx.violation("sentence-raises-exception",
                                  {"type": type(err).__name__, "msg": str(err)[:100], "smart": smart}, case)
                continue
            ctx.count("nonambiguous_pairs_judged")
            ctx.count("members" if member else "non_members")
            if verdicts[smart] and not member:
                ctx.violation("conflict-free-parser-accepts-non-sentence", {"smart": smart, "tokens": toks}, case)
            elif member and not verdicts[smart]:
                ctx.violation("conflict-free-parser-rejects-sentence", {"smart": smart, "tokens": toks}, case)
            if tree is not None and ref_tree is not None:
                ctx.count("ll1_trees_compared")
                got = llmon.tree_shape(tree, prods)
                if got != ref_tree:
                    ctx.violation("ll1-tree-differs-from-unique-derivation",
                                  {"smart": smart, "got": repr(got)[:300], "expected": repr(ref_tree)[:300]}, case)
                errs, leaves = llmon.validate_tree(tree, prods, start)
                if leaves != [tuple(x) for x in expected]:
                    ctx.violation("ll1-tree-leaves-differ", {"leaves": leaves[:12]}, case)
            if follow_needed:
                ctx.nontrivial(sig_of([gram.fmt_grammar(prods), toks, smart]))
        if len(verdicts) == 2 and verdicts[True] != verdicts[False]:
            ctx.violation("factorization-settings-disagree", {"verdicts": str(verdicts), "tokens": toks}, case)
    # the conflict report is a property of the grammar: parsing texts must not change it
    for smart, parser in parsers.items():
        ctx.count("conflict_report_asked_again_after_parsing")
        if bool(parser.is_ambiguous()) != amb[smart]:
            ctx.violation("conflict-report-changes-after-parsing",
                          {"smart": smart, "before": amb[smart], "after": bool(parser.is_ambiguous()), "ll1": ll1},
                          dict(base_case, inputs=[list(x[:1]) + [x[1], [list(y) for y in x[2]], x[3]]
                                                  for x in inputs_spec]))
    return inputs_spec


_SEQ_PARSERS = {}
SEQ_VARIANTS = {
    # E -> a SEQ b ; an element of SEQ is any token but 'b' and 'c', or a group "c d" (written in three orders)
    "any-first": lambda: llparser.ProdSequence(llparser.AnyTokenExcept('b', 'c'), 'GRP'),
    "any-last": lambda: llparser.ProdSequence('GRP', llparser.AnyTokenExcept('b', 'c')),
    "any-in-the-middle": lambda: llparser.ProdSequence('GRP', llparser.AnyTokenExcept('b', 'c', 'd'), 'PAIR'),
}


def _dump(t):
    v = getattr(t, 'value', t)
    return (getattr(t, 'name', None), [_dump(c) for c in v] if isinstance(v, list) else v)


def sequence_case(ctx, rng, variant=None, smart=None):
    """an LL(1) grammar written with the sequence template; membership is decided by a regular expression over the
    token string"""
    import re
    variant = variant or rng.choice(sorted(SEQ_VARIANTS))
    smart = rng.random() < 0.5 if smart is None else smart
    cfg = llmon.TOKCFGS[0]
    if (variant, smart) not in _SEQ_PARSERS:
        prods = {'E': [('a', 'SEQ', 'b')], 'SEQ': SEQ_VARIANTS[variant](), 'GRP': [('c', 'd')]}
        if variant == "any-in-the-middle":
            prods['PAIR'] = [('d', 'a')]
        _SEQ_PARSERS[variant, smart] = llparser.LLParser(
            cfg.tokenizer_str, productions=prods, smart_factorization=smart, **cfg.kwargs)
    parser = _SEQ_PARSERS[variant, smart]
    member_re = "a(a|d|cd)*b" if variant != "any-in-the-middle" else "a(a|cd|da)*b"
    for _ in range(6):
        toks = [rng.choice("abcd") for _ in range(rng.choice([0, 2, 3, 4, 5, 6, 8]))]
        if rng.random() < 0.6:
            body = []
            for _ in range(rng.choice([0, 1, 2, 3, 5])):
                body += rng.choice([["a"], ["d"], ["c", "d"], ["c", "d"], ["d", "a"]])
            toks = ["a"] + body + ["b"]
        if member_re is None:
            continue
        ctx.evaluated()
        member = re.fullmatch(member_re, "".join(toks)) is not None
        case = {"sequence_variant": variant, "smart": smart, "tokens": toks}
        try:
            tree = parser.parse(" ".join(toks), do_cleanup=False)
            accepted = True
        except llparser.ParsingError:
            accepted = False
        except Exception as err:
            ctx.violation("sentence-raises-exception" if member else "non-sentence-raises-other-exception",
                          {"type": type(err).__name__, "msg": str(err)[:100], "smart": smart}, case)
            continue
        if accepted and member:
            # the caller edits the tree it was given (the documented clean-up, or its own pruning) and parses the very
            # same text again: a derivation tree again - THE tree of this sentence
            before = _dump(tree)
            try:
                if len(toks) % 2:
                    parser.cleanup(tree)
                else:
                    tree.value = []
                again = _dump(parser.parse(" ".join(toks), do_cleanup=False))
            except Exception as err:
                ctx.violation("sentence-raises-exception", {"type": type(err).__name__, "msg": str(err)[:100],
                                                             "smart": smart, "second_parse": True}, case)
                continue
            ctx.count("sentences_parsed_again_after_the_caller_edited_the_first_tree")
            if again != before:
                ctx.violation("tree-of-a-sentence-differs-when-it-is-parsed-again",
                              {"smart": smart, "first": repr(before)[:200], "again": repr(again)[:200]}, case)
                continue
        ctx.count("sequence_template_decisions")
        if accepted != member:
            ctx.violation("conflict-free-parser-rejects-sentence" if member else "conflict-free-parser-accepts-non-sentence",
                          {"smart": smart, "tokens": toks, "sequence_variant": variant}, case)


_TPL_PARSERS = {}


def template_options_case(ctx, rng, key=None):
    """a grammar written with the list / map templates, the final delimiter allowed, forbidden (an explicit False) or
    left at its default; where the parser says it has no conflicts the language is the one the options describe:
    membership is decided by a regular expression over the token string (a = item / key, b = value, c = delimiter)"""
    import re
    from ak.llparser import ListProds, MapProds
    key = key or (rng.choice(["list", "map"]), rng.choice([None, True, False]), rng.random() < 0.5)
    key = tuple(key)
    kind, final, smart = key
    cfg = llmon.TOKCFGS[0]          # letters a b c d
    if key not in _TPL_PARSERS:
        kw = {} if final is None else {'allow_final_delimiter': final}
        tpl = ListProds('d', 'a', 'c', 'd', **kw) if kind == "list" else MapProds('d', 'a', 'b', 'a', 'c', 'd', **kw)
        _TPL_PARSERS[key] = llparser.LLParser(cfg.tokenizer_str, productions={'E': [('T',)], 'T': tpl},
                                              smart_factorization=smart, **cfg.kwargs)
    parser = _TPL_PARSERS[key]
    if parser.is_ambiguous():
        ctx.count("template_parsers_that_report_conflicts(not judged)")
        return
    item = "a" if kind == "list" else "aba"
    allowed = final is not False        # (the default allows it for a bracketed list and for a map)
    member_re = "d(%s(c%s)*%s)?d" % (item, item, "c?" if allowed else "")
    for _ in range(5):
        n = rng.choice([0, 1, 2, 3])
        toks = list("d" + "c".join([item] * n) + rng.choice(["", "c", "c", "cc"]) + "d")
        if rng.random() < 0.25:
            toks = [rng.choice("abcd") for _ in range(rng.choice([2, 3, 4, 6]))]
        ctx.evaluated()
        member = re.fullmatch(member_re, "".join(toks)) is not None
        case = {"template_options": list(key), "tokens": toks}
        try:
            parser.parse(" ".join(toks), do_cleanup=False)
            accepted = True
        except llparser.ParsingError:
            accepted = False
        except Exception as err:
            ctx.violation("sentence-raises-exception" if member else "non-sentence-raises-other-exception",
                          {"type": type(err).__name__, "msg": str(err)[:100], "smart": smart}, case)
            continue
        ctx.count("template_option_decisions")
        if accepted != member:
            ctx.violation("conflict-free-parser-rejects-sentence" if member else "conflict-free-parser-accepts-non-sentence",
                          {"smart": smart, "tokens": toks, "template": kind, "allow_final_delimiter": final}, case)


_WORKER = """
import sys, pickle, json
sys.path.insert(0, %r)
import vf
vf.use_repo()
from ak import llparser
parser = pickle.loads(sys.stdin.buffer.read())
out = []
for text in %r:
    try:
        out.append(repr(parser.parse(text)))
    except llparser.ParsingError:
        out.append("ParsingError")
    except Exception as err:
        out.append("raises " + type(err).__name__)
print(json.dumps(out))
"""


def pickled_parser_case(ctx):
    """a parser built once and kept in a cache file is used by another process (a worker started later, with its own
    hash seed): it accepts what it accepted here and gives the same values"""
    import json
    import os
    import pickle
    import subprocess
    import sys
    from ak.llparser import ListProds, MapProds
    ctx.evaluated()
    cfg = llmon.TOKCFGS[0]
    parser = llparser.LLParser(cfg.tokenizer_str, productions={
        'E': [('L',), ('M',)], 'L': ListProds('d', 'I', 'c', 'd'), 'I': [('a',), ('b',), ('L',)],
        'M': MapProds('b', 'a', 'c', 'I', 'a', 'b')}, **cfg.kwargs)
    texts = ["d d", "d a c b d", "d a c d a d c d", "b a c a b", "b a c d b d a a c b b", "d a a d", "b a b", "a"]
    here = []
    for text in texts:
        try:
            here.append(repr(parser.parse(text)))
        except llparser.ParsingError:
            here.append("ParsingError")
        except Exception as err:
            here.append("raises " + type(err).__name__)
    case = {"pickled_parser": True}
    try:
        blob = pickle.dumps(parser)
        r = subprocess.run([sys.executable, "-c", _WORKER % (vf.VERIF, texts)], input=blob, capture_output=True, timeout=120,
                           env=dict(os.environ, PYTHONHASHSEED=str(1 + ctx.shard)))
        there = json.loads(r.stdout.decode().strip().splitlines()[-1])
    except Exception as err:
        ctx.inconclusive_note(("the worker with the pickled parser gave no result: %r" % err)[:200])
        return
    ctx.count("parsers_pickled_here_and_used_by_a_process_with_another_hash_seed")
    if there != here:
        k = next(i for i, (a, b) in enumerate(zip(here, there)) if a != b)
        ctx.violation("sentence-raises-exception" if there[k].startswith("raises") else "conflict-free-parser-rejects-sentence",
                      {"text": texts[k], "here": here[k][:120], "in_the_worker": there[k][:120], "pickled_parser": True}, case)


def run_shard(ctx):
    mon = llmon.ParseMonitor()
    pickled_parser_case(ctx)
    try:
        for i in range(ctx.cases):
            rng = ctx.rng(i)
            if i % 10 == 3:
                template_options_case(ctx, rng)
            if i % 10 == 7:
                sequence_case(ctx, rng)
            cfg_id, terms, prods, kind = make_case(rng)
            ctx.count(f"generator_{kind}")
            if i % 12 == 5 and 'TODO' not in prods:
                # a symbol that is declared but has no alternative yet (nothing refers to it, or one alternative that
                # can never match does): the language stays what it is
                prods['TODO'] = []
                if i % 24 == 5:
                    nt = sorted(n for n in prods if prods[n])[0]
                    prods[nt] = list(prods[nt]) + [('TODO', terms[0])]
                ctx.count("grammars_with_a_symbol_without_alternatives")
            any_spec = None
            if rng.random() < 0.1 and "SPACE" not in llmon.TOKCFGS[cfg_id].terminals:
                # one symbol gets the pseudo production AnyTokenExcept(...) (`prods` holds what it stands for)
                any_spec = c01.add_any_token_except(rng, llmon.TOKCFGS[cfg_id], prods)
                terms = list(llmon.TOKCFGS[cfg_id].terminals)
            spec = run_case(ctx, mon, cfg_id, terms, prods, rng=rng, any_spec=any_spec)
            if spec and i % 50 == 1:
                ctx.sample({"tokenizer": llmon.TOKCFGS[cfg_id].name, "grammar": gram.fmt_grammar(prods),
                            "ll1": gram.is_ll1(prods, 'E'), "tokens": spec[0][0],
                            "member": gram.earley(prods, 'E', spec[0][0])})
    finally:
        mon.close()


def replay(ctx, case):
    if case.get("pickled_parser"):
        pickled_parser_case(ctx)
        return
    if case.get("template_options"):
        import random
        for k in range(60):
            template_options_case(ctx, random.Random(k), case["template_options"])
        return
    if case.get("sequence_variant"):
        import random
        for k in range(50):
            sequence_case(ctx, random.Random(k), case["sequence_variant"], case["smart"])
        return
    mon = llmon.ParseMonitor()
    try:
        prods = {k: [tuple(a) for a in v] for k, v in case["prods"].items()}
        inputs = case["inputs"] or None
        rng = ctx.rng(0)
        run_case(ctx, mon, case["cfg"], case["terms"], prods, inputs_spec=inputs, rng=rng,
                 any_spec=case.get("any_token_except"))
    finally:
        mon.close()
