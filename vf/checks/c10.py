"""C10 Rendering is pure: colors never change layout and output has no memory."""
import gc
import json
import os
import re
import random
import subprocess
import sys
import tempfile

import vf
vf.use_repo()
from vf import render10 as R  # noqa: E402
from vf import sgr, tables as T, mockgit as mg  # noqa: E402
from vf.core import sig_of, jsonable  # noqa: E402
from vf.checks import c06, c11  # noqa: E402

ID = "C10"
LEVEL = "exploration"
RULE = ("a scenario is a history of 16-30 rendering requests over 4-6 long-lived printable objects: pretty-printer "
        "results (JSON / Python mode), PPTable objects and a PPRecordFmt sharing ONE enum field type, a git history "
        "report built on a generated repository, console help (HCommand) for a bound and an unbound method caller. "
        "Requests vary the colours configuration (3-5 random override sets of NAME / NUMBER / KEYWORD / TABLE.* / "
        "RECORD.* / GHIST.* / HDOC.* / ENUM names incl. 256-colour, cube, gray and '-' forms; a new short-lived "
        "ColorsConfig object per request or a long-lived one), no_color, the way colours are supplied (colors_conf, "
        "swapped global configuration, palette class, palette object, a table palette subclass with a re-mapped enum sub-palette) and the way the result is consumed (whole, "
        "line by line, lines joined, whole and then line by line on the same result, twice line by line, line by line with "
        "another rendering of the same object produced in between). Configurations are dropped and gc.collect() runs between requests so that "
        "palette addresses are reused. Oracle: (a) SGR-stripped coloured output == no_color output of the same "
        "object and configuration, no ESC in no_color output; (b) byte-identical with a REFERENCE rendering made "
        "in a fresh interpreter with brand-new objects per request, all kept alive, in reverse order; (c) line "
        "iteration == whole. Non-trivial = scenario in which a dead palette's address was reused and an enum "
        "table was rendered under >= 3 configurations; distinct by scenario.")
ASSUMPTIONS = ["the reference interpreter runs the same repository code: only history-dependence and layout/colour "
               "coupling are decided here, absolute correctness of the layout is C11/C12",
               "HCommand binds its palette at construction: a fresh HCommand is built for every help request"]
TIERS = {
    "quick": {"shards": 4, "cases": 14, "timeout": 300, "params": {"case_timeout": 200}},
    "thorough": {"shards": 16, "cases": 150, "timeout": 3000, "params": {"case_timeout": 200}},
}
FLOORS = {"quick": {"distinct_nontrivial": 20, "requests_compared_with_reference": 1000,
                    "strip_equals_no_color_checks": 400, "dead_palette_addresses_reused": 50,
                    "line_iteration_requests": 300, "reference_interpreters": 40},
          "thorough": {"distinct_nontrivial": 1000, "requests_compared_with_reference": 45000,
                       "strip_equals_no_color_checks": 18000, "dead_palette_addresses_reused": 2000,
                       "line_iteration_requests": 12000, "reference_interpreters": 2000}}
LEVEL_TEXT = ("Runtime monitoring of rendering histories: every rendering produced inside a long history on long-lived "
              "objects is compared byte for byte with a reference rendering produced by brand-new objects in a fresh "
              "interpreter, and coloured output with the no_color output through an independent SGR stripper. The "
              "evidence counts reused palette addresses (the opportunity for stale caches).")
LEVEL_NOTE = ("Differences that the reference interpreter reproduces identically (a layout bug independent of history "
              "and colours) are out of scope here and belong to C11/C12.")
TECHNIQUE = "runtime monitoring: differential oracle against a fresh-interpreter reference rendering over request histories"

COLS = ['RED', 'GREEN', 'BLUE', 'CYAN', 'YELLOW', '100', '(1,2,3)', 'g7', 'MAGENTA:bold', 'WHITE/BLUE:underline',
        '-', '-/g3', 'NAME:no_bold', '17/(5,0,0):crossed']


def gen_conf(rng):
    d = {}
    for k in ['NAME', 'NUMBER', 'KEYWORD', 'WARN', 'ERROR', 'TEXT']:
        if rng.random() < (0.75 if k in ('TEXT', 'ERROR', 'NUMBER') else 0.5):
            c = rng.choice(COLS)
            if c.startswith('NAME') and k == 'NAME':
                c = 'GREEN'
            d[k] = c
    groups = [('TABLE', ['BORDER', 'WARN', 'HEADER', 'COL_TITLE', 'NUMBER', 'KEYWORD', 'NAME_GOOD', 'NAME_WARN']),
              ('RECORD', ['NUMBER', 'KEYWORD', 'TITLE', 'COL_TITLE']),
              ('GHIST', ['REPO', 'BRANCH', 'HASH', 'VERSION', 'COMMIT_NAME', 'VER_NOT_MERGED']),
              ('HDOC', ['ATTR', 'FUNC_NAME', 'TAG', 'WARN'])]
    for grp, items in groups:
        for it in items:
            # (the colours of enum cells differ between most configurations: a formatter cached for a dead
            # configuration and found again under a reused address is then visibly stale)
            if rng.random() < (0.9 if it in ('NAME_GOOD', 'NAME_WARN') else 0.45):
                d.setdefault(grp, {})[it] = rng.choice(COLS)
    return d


def gen_scenario(rng):
    objects = []
    recs = [list(r) for r in T.gen_records(rng, (3, 5, 8))]
    for _ in range(rng.randint(1, 2)):
        fmt, _, _ = T.gen_fmt(rng, allow_hidden=False)
        if 'st' not in fmt or (not objects and not fmt.startswith("st")):
            fmt = "st," + fmt       # (the first table always starts with the enum column)
        titles = None
        if rng.random() < 0.5:
            # multi-line titles with items that are not strings
            titles = {f: rng.choice([["first", 2024], [True, "x"], "two\nlines", [None], [3.5, "u"]])
                      for f in T.FIELDS if rng.random() < 0.5}
        objects.append({'kind': 'table', 'recs': recs, 'fmt': fmt, 'header': rng.choice([None, "hdr"]),
                        'footer': rng.choice([None, "foot"]), 'titles': titles, 'tid': len(objects)})
    if rng.random() < 0.5:
        # a table whose columns are narrower than the first piece of their cells (the cut falls into the padding in front
        # of an enum value, into the first of several pieces)
        objects.append({'kind': 'table', 'recs': recs, 'fmt': rng.choice(["st:2,a:1", "st:1,st/full:3,b:2", "d/x:1,st:2",
                                                                           "st/full:1-2,st:3", "d/x:4,st", "st,d/u:5,d/x:4",
                                                                           "d/u:4"]),
                        'header': None, 'footer': rng.choice([None, "f"]), 'titles': None})
    if rng.random() < 0.6:
        # a second table built from the format object of the first, showing records of other widths
        other = [list(r) for r in T.gen_records(rng, (2, 4, 9))]
        objects.append({'kind': 'table', 'recs': other, 'base_spec': objects[0], 'header': None, 'footer': None})
    objects.append({'kind': 'rec', 'recs': recs, 'fmt': rng.choice(["a,st/val,d:5", "st/full,b:3-6", "a,st"]),
                    'rec_index': rng.randrange(len(recs))})
    for jm in (True, False):
        if rng.random() < 0.8:
            objects.append({'kind': 'pp', 'json': jm, 'value': jsonable(c11.gen(rng, 0, jm))})
    if rng.random() < 0.6:
        objects.append({'kind': 'ppwrap', 'value': jsonable(c11.gen(rng, 0, True))})
    repo = c06.gen_history(rng, 14)
    objects.append({'kind': 'ghist', 'repo': mg.describe(repo), 'text': rng.choice(["BUG-7", "fix"])})
    objects.append({'kind': 'hdoc', 'level': rng.choice([1, 2, 2]), 'bound': rng.random() < 0.6,
                    'target': rng.choice(['object', 'object', 'method', 'gadget', 'gadget', 'gadget-method'])})
    confs = [gen_conf(rng) for _ in range(rng.randint(3, 5))]
    requests = []
    cur_fmt = {}
    cur_cols = {}
    cur_removed = {}
    for _ in range(rng.randint(16, 30)):
        o = rng.randrange(len(objects))
        if rng.random() < 0.4:
            # the enum field type shared by tables and the record formatter is the long-lived cache
            o = rng.choice([i for i, x in enumerate(objects) if x['kind'] in ('table', 'rec')])
        c = rng.randrange(len(confs))
        via = rng.choice(['explicit', 'explicit', 'global', 'palette_class', 'palette_obj', 'custom_palette',
                          'custom_palette2', 'custom_palette3', 'custom_palette4', 'palette_synced'])
        mode = rng.choice(['whole', 'whole', 'lines', 'lines_join', 'whole_then_lines', 'lines_twice', 'interleaved',
                           'copy', 'concat', 'format', 'plain', 'slice', 'fixed', 'compared', 'centred', 'zero_width'])
        if objects[o]['kind'] in ('rec', 'hdoc', 'ppwrap'):
            mode = 'whole'   # a formatted record is a plain CHText, help text is printed: no line iteration
        if objects[o]['kind'] == 'ppwrap':
            via = 'global' 
        long_lived = rng.random() < 0.3
        for nc in ([False, True] if rng.random() < 0.6 else [rng.random() < 0.3]):
            requests.append({'obj': o, 'conf': c, 'no_color': nc, 'mode': mode, 'via': via,
                             'long_lived_conf': long_lived})
            if objects[o]['kind'] == 'rec' and rng.random() < 0.5:
                requests[-1]['touch_columns'] = True
            if via in ('explicit', 'palette_class', 'custom_palette', 'custom_palette2', 'custom_palette3',
                       'custom_palette4') and not long_lived and rng.random() < 0.4:
                requests[-1]['discard_conf'] = True
            if via == 'global' and objects[o]['kind'] not in ('hdoc', 'ppwrap') and rng.random() < 0.5:
                requests[-1]['switch_conf'] = confs[(c + 1) % len(confs)]
            if objects[o]['kind'] == 'table' and 'base_spec' not in objects[o] and (o % 2 == 0 or o in cur_removed) \
                    and o not in cur_fmt:
                # columns are removed from the long-lived table (by field name) from now on
                fields = sorted({re.match(r"[a-z]+", x).group() for x in objects[o]['fmt'].split(";")[0].split(",")})
                left = [f for f in fields if f not in cur_removed.get(o, [])]
                if len(left) > 1 and rng.random() < 0.3:
                    cur_removed.setdefault(o, []).append(rng.choice(left))
                if o in cur_removed:
                    requests[-1]['removed'] = list(cur_removed[o])
            elif objects[o]['kind'] == 'table' and 'base_spec' not in objects[o]:
                if rng.random() < 0.3:
                    # the table is shown with another set of columns (and its limits given again) from now on
                    cols = [x for x in objects[o]['fmt'].split(";")[0].split(",")]
                    keep = rng.sample(cols, rng.randint(1, len(cols)))
                    cur_fmt[o] = ",".join(keep) + rng.choice([";*", ";2:1", ";*"])
                    if rng.random() < 0.45:
                        # (only the limits are given again: the columns stay what they are at that moment)
                        cur_fmt[o] = rng.choice([";1:1", ";*", ";2:0"])
                    else:
                        cur_cols[o] = ",".join(keep)
                if o in cur_fmt:
                    requests[-1]['set_fmt'] = cur_fmt[o]
                    if cur_fmt[o].startswith(";"):
                        # (what the brand-new table of the reference is built with)
                        requests[-1]['ref_fmt'] = cur_cols.get(o, objects[o]['fmt'].split(";")[0]) + cur_fmt[o]
    # one more long-lived table: record limits, a break-by column (break lines use up the limit slots), wider
    # values further down.  It is rendered, loses the break-by column, and is rendered again.
    o = len(objects)
    n = rng.choice([6, 9, 12])
    objects.append({'kind': 'table', 'fmt': rng.choice(["b!,a,d;2:2", "a,b!,d;2:2", "b!,d;2:2"]),
                    'header': None, 'footer': None, 'titles': None, 'tid': o,
                    # (the break-by value changes with every record; the second and the last but one record
                    # are the wide ones: hidden while break lines take the slots, visible afterwards)
                    'recs': [[i, "k%d" % (i % 2), 1, "a much longer value %d" % i if i in (1, n - 2) else "r%d" % i]
                             for i in range(n)]})
    c = rng.randrange(len(confs))
    for removed in ([], ['b']):
        for nc in (False, True):
            req = {'obj': o, 'conf': c, 'no_color': nc, 'mode': rng.choice(['whole', 'lines', 'copy']),
                   'via': 'explicit', 'long_lived_conf': False}
            if removed:
                req['removed'] = removed
            requests.append(req)
    # ... and then only its limits are given again: everything is shown, the wide values too
    for nc in (False, True):
        requests.append({'obj': o, 'conf': c, 'no_color': nc, 'mode': 'whole', 'via': 'explicit', 'long_lived_conf': False,
                         'removed': ['b'], 'set_fmt': ";*", 'ref_fmt': objects[o]['fmt'].split(";")[0] + ";*"})
    # the first table is rendered with both custom palettes (two classes called the same) under one long-lived
    # configuration, in either order
    c = rng.randrange(len(confs))
    # (... and with the palette that has a parent palette, before or after the parent palette was used on its own)
    for via in rng.sample(['custom_palette', 'custom_palette2'], 2) + ['custom_palette'] + \
            rng.sample(['custom_palette3', 'custom_palette4'], 2):
        requests.append({'obj': 0, 'conf': c, 'no_color': False, 'mode': 'whole', 'via': via, 'long_lived_conf': True})
        if cur_fmt.get(0):
            requests[-1]['set_fmt'] = cur_fmt[0]
        if cur_removed.get(0):
            requests[-1]['removed'] = list(cur_removed[0])
    return {'objects': objects, 'confs': confs, 'requests': requests}


def reference_renderings(scenario, workdir):
    path = os.path.join(workdir, "scenario.json")
    with open(path, "w") as f:
        json.dump(scenario, f)
    env = dict(os.environ, PYTHONPATH=vf.VERIF, VERIF_REPO=vf.REPO, PYTHONHASHSEED="0", TZ="UTC")
    proc = subprocess.run([sys.executable, "-m", "vf.render10", path], capture_output=True, text=True,
                          timeout=120, env=env, cwd=vf.VERIF)
    if proc.returncode != 0:
        raise RuntimeError("reference interpreter failed: " + proc.stderr[-800:])
    return json.loads(proc.stdout)


def run_scenario(ctx, scenario, case, workdir):
    ctx.evaluated()
    shared = {}
    try:
        objs = [R.build_object(o, shared) for o in scenario['objects']]
    except Exception as err:
        ctx.violation("object-construction-raises", {"type": type(err).__name__, "msg": str(err)[:200]}, case)
        return
    live_confs = {}
    dead_ids = set()
    live_palettes = []
    reused = [0]
    outputs = []
    enum_confs = set()

    def observe(res):
        cp = getattr(res, 'cp', None)
        if cp is None:
            return
        pals = [cp] + list(getattr(cp, '_sub_palettes', {}).values())
        for p in pals:
            if id(p) in dead_ids:
                reused[0] += 1
                dead_ids.discard(id(p))
        live_palettes.append([id(p) for p in pals])

    for idx, req in enumerate(scenario['requests']):
        ospec = scenario['objects'][req['obj']]
        live = None
        if req['long_lived_conf']:
            live = live_confs.get(req['conf'])
            if live is None:
                live = live_confs[req['conf']] = R.ColorsConfig(scenario['confs'][req['conf']])
        try:
            out = R.render(objs[req['obj']], ospec, req, scenario['confs'][req['conf']], live_conf=live,
                           observe=observe)
        except Exception as err:
            out = {"error": f"{type(err).__name__}: {err}"[:300]}
        outputs.append(out)
        if req['mode'] == 'whole' and ospec['kind'] in ('table', 'pp', 'ghist') and isinstance(out, str) \
                and 'switch_conf' not in req:
            # the same request once more, consumed line by line (every report, not only those that happen to be
            # requested in two modes)
            try:
                as_lines = R.render(objs[req['obj']], ospec, dict(req, mode='lines'), scenario['confs'][req['conf']],
                                    live_conf=live, observe=observe)
            except Exception as err:
                as_lines = {"error": f"{type(err).__name__}: {err}"[:300]}
            ctx.count("whole_text_compared_with_its_lines")
            if as_lines != out:
                ctx.violation("line-iteration-differs-from-whole-text",
                              {"request": idx, "object": ospec['kind'], "req": req,
                               "whole": out[:60] if isinstance(out, str) else out,
                               "lines": as_lines[:60] if isinstance(as_lines, str) else as_lines}, case)
        if ospec['kind'] == 'table' and not req['no_color']:
            enum_confs.add(req['conf'])
        # configurations of the request are dropped now; palettes die with them
        if not req['long_lived_conf']:
            gc.collect()
            for ids in live_palettes:
                dead_ids.update(ids)
            del live_palettes[:]
    ctx.count("dead_palette_addresses_reused", reused[0])
    try:
        ref = reference_renderings(scenario, workdir)
        ctx.count("reference_interpreters")
    except Exception as err:
        ctx.inconclusive_note("reference interpreter: " + str(err)[:300])
        return
    first = {}
    by_req = {}
    problems = []
    for idx, (req, out, want) in enumerate(zip(scenario['requests'], outputs, ref)):
        ospec = scenario['objects'][req['obj']]
        where = {"request": idx, "object": ospec['kind'], "req": req}
        if isinstance(out, dict) or isinstance(want, dict):
            if isinstance(out, dict) != isinstance(want, dict):
                problems.append(("rendering-raises-only-inside-the-history", dict(where, history=str(out)[:200],
                                                                                  reference=str(want)[:200])))
            continue
        ctx.count("requests_compared_with_reference")
        if req['mode'] != 'whole':
            ctx.count("line_iteration_requests")
        if out != want:
            k = next((i for i, (a, b) in enumerate(zip(out, want)) if a != b), min(len(out), len(want)))
            mech = "rendering-depends-on-history"
            if sgr.strip(out) == sgr.strip(want):
                mech = "colours-depend-on-history"
            problems.append((mech, dict(where, at=k, history=out[max(0, k - 30):k + 30],
                                        reference=want[max(0, k - 30):k + 30])))
            continue
        if req['no_color'] and sgr.ESC in out:
            problems.append(("no-color-output-contains-escape", where))
        try:
            stripped = sgr.strip(out)
            sgr.cells(out)
        except sgr.SgrError as err:
            problems.append(("malformed-escape-sequence-in-rendering", dict(where, err=str(err))))
            continue
        # (all the routes to the standard palette give one and the same look; the custom palettes have their own)
        look = req['via'] if req['via'].startswith('custom_palette') else 'standard palette'
        # (a format that gives only the limits keeps the columns of the moment: the whole format is the key)
        same = by_req.setdefault((req['obj'], req['conf'], req['no_color'], look,
                                  req.get('ref_fmt') or req.get('set_fmt'), tuple(req.get('removed') or ())),
                                 (out, req['mode'], idx, req['via']))
        if same[0] != out:
            problems.append(("line-iteration-differs-from-whole-text" if same[3] == req['via'] else
                             "rendering-depends-on-how-the-palette-was-given",
                             dict(where, other_request=same[2], other_mode=same[1], other_via=same[3])))
            continue
        okey = (req['obj'], req['conf'], req.get('ref_fmt') or req.get('set_fmt'), tuple(req.get('removed') or ()))
        other = first.get(okey)
        if other is None:
            first[okey] = (req['no_color'], stripped, idx)
        elif other[0] != req['no_color']:
            ctx.count("strip_equals_no_color_checks")
            if other[1] != stripped:
                k = next((i for i, (a, b) in enumerate(zip(other[1], stripped)) if a != b), 0)
                problems.append(("colours-change-layout", dict(where, other_request=other[2], at=k,
                                                                a=other[1][max(0, k - 30):k + 30],
                                                                b=stripped[max(0, k - 30):k + 30])))
    for mech, detail in problems[:4]:
        ctx.violation(mech, detail, case)
    if reused[0] and len(enum_confs) >= 3:
        ctx.nontrivial(sig_of(scenario))


def first_use_case(ctx, k):
    """an object is rendered with a palette class of the application under a configuration nothing was rendered with
    before; then a stock table is rendered under that configuration; then the object again: the same text"""
    from ak.color import ColorsConfig
    from ak.ppobj import PPTable, PrettyPrinter
    ctx.evaluated()
    rng = random.Random("first-use/%d" % k)
    conf = ColorsConfig(dict(gen_conf(rng), NUMBER="MAGENTA:bold", TEXT="CYAN"))
    recs = [(1, "b", 2, "d"), (30, "x", 400, "y"), (5, 7, 1, 2.5)]
    which = k % 3
    if which == 0:
        pp = PrettyPrinter()
        show = lambda: str(pp([1, 2.5, {"k": 3, "m": [7, 8]}], palette=R.custom_pp_palette(), colors_conf=conf))   # noqa: E731
    else:
        tbl = PPTable(recs, fields=T.FIELDS, fmt="st,a" if which == 1 else "st/val,st", fields_types=T.mk_field_types())
        show = lambda: str(tbl.ch_text(palette=R.custom_table_palette(2 if which == 1 else 5), colors_conf=conf))   # noqa: E731
    case = {"first_use": k}
    try:
        first = show()
        other = PPTable(recs, fields=T.FIELDS, fmt="a,b,st,d", fields_types=T.mk_field_types())
        str(other.ch_text(colors_conf=conf))
        second = show()
    except Exception as err:
        ctx.violation("rendering-raises", {"type": type(err).__name__, "msg": str(err)[:200], "first_use": k}, case)
        return
    ctx.count("objects_rendered_as_the_first_use_of_a_configuration")
    if first != second:
        at = next((i for i, (a, b) in enumerate(zip(first, second)) if a != b), 0)
        ctx.violation("colours-depend-on-history", {"object": ["pp", "table", "table"][which], "at": at,
                                                     "first": first[max(0, at - 30):at + 30],
                                                     "after_another_table": second[max(0, at - 30):at + 30]}, case)


def run_shard(ctx):
    for k in range(9):
        first_use_case(ctx, ctx.shard * 9 + k)
    workdir = tempfile.mkdtemp(prefix="vf-c10-")
    try:
        for i in range(ctx.cases):
            scenario = gen_scenario(ctx.rng(i))
            run_scenario(ctx, scenario, {"rng_key": ctx.rng_key(i)}, workdir)
            if i == 0:
                ctx.sample({"objects": [o['kind'] + (":" + o.get('fmt', '') if 'fmt' in o else "")
                                        for o in scenario['objects']],
                            "confs": scenario['confs'][:2], "requests": scenario['requests'][:5]})
    finally:
        import shutil
        shutil.rmtree(workdir, ignore_errors=True)


def replay(ctx, case):
    if "first_use" in case:
        first_use_case(ctx, case["first_use"])
        return
    workdir = tempfile.mkdtemp(prefix="vf-c10-")
    try:
        run_scenario(ctx, gen_scenario(random.Random(case["rng_key"])), case, workdir)
    finally:
        import shutil
        shutil.rmtree(workdir, ignore_errors=True)
