"""C05 List, map and sequence templates return exactly the denoted items."""
import vf
vf.use_repo()
from ak import llparser  # noqa: E402
from ak.llparser import ListProds, MapProds, ProdSequence, TElement, AnyTokenExcept  # noqa: E402
from vf.core import sig_of  # noqa: E402

ID = "C05"
LEVEL = "exploration"
RULE = ("random nested data (lists 0-12 items, maps with repeated keys, sequences, words, numbers; depth <= 5) "
        "is rendered to text with random blanks / newlines / '#' comments between all tokens and, where "
        "allowed, a final delimiter; the grammar is generated per case from template options: list "
        "{delimiter, none} x allow_final_delimiter x nullable items, map allow_final_delimiter, optional "
        "list / map present, empty or absent, bracket-less lists with and without delimiter and a bracket-less map in front of '|' "
        "and at the end of the text, sequences with or without container elements. The cleaned parse result "
        "is normalised and compared with the generated data (lists in order, dict(pairs) incl. key order, "
        "sequences element by element); texts with a final delimiter where it is not allowed must raise "
        "ParsingError. Non-trivial = value with nesting depth >= 3 containing a list and a map, or a "
        "negative final-delimiter case; distinct by (options, text).")
ASSUMPTIONS = ["a bracketed list whose only item is empty is textually the empty list: never generated",
               "nullable list items only with brackets, delimiter and allow_final_delimiter=False (otherwise the "
               "text is ambiguous)"]
TIERS = {
    "quick": {"shards": 4, "cases": 500, "timeout": 300},
    "thorough": {"shards": 16, "cases": 5000, "timeout": 3000},
}
FLOORS = {"quick": {"sequences_of_parsers_sharing_one_any_token_object": 300,
                    "copies_of_raw_trees_cleaned_up": 180, "texts_with_strings_spelled_like_keywords_parsed": 300,
                    "parsers_described_before_use": 150, "texts_parsed_with_nothing_skipped": 300,
                    "distinct_nontrivial": 400, "parses_compared": 5000, "negative_cases_rejected": 300,
                    "optional_absent": 500, "final_delimiters_accepted": 300, "repeated_key_maps": 100},
          "thorough": {"sequences_of_parsers_sharing_one_any_token_object": 1200,
                       "copies_of_raw_trees_cleaned_up": 750, "texts_with_strings_spelled_like_keywords_parsed": 1200,
                       "parsers_described_before_use": 600, "texts_parsed_with_nothing_skipped": 1200,
                       "distinct_nontrivial": 15000, "parses_compared": 200000, "negative_cases_rejected": 10000,
                       "optional_absent": 20000, "final_delimiters_accepted": 10000, "repeated_key_maps": 4000}}
LEVEL_TEXT = ("Runtime exploration with a round-trip oracle: data -> text (harness) -> parse with default cleanup "
              "(real code) -> normalise -> compare with the data, over generated template option sets, plus "
              "negative cases for the final-delimiter rule.")
LEVEL_NOTE = ("The known finding 'container-inside-sequence' (list/map nested in a ProdSequence element stays a raw "
              "subtree) is matched by mechanism: a mismatch is attributed to it only if masking container "
              "elements of sequences on both sides makes the results equal; any other mismatch is a violation.")
TECHNIQUE = "runtime monitoring: render/parse round-trip oracle over generated data and template options"

TOK = r"""(?P<SPACE>\s+)|(?P<COMMENT>\#.*)|(?P<WORD>[a-z]+)|(?P<NUMBER>[0-9]+)
    |(?P<BO>\[)|(?P<BC>\])|(?P<CO>\{)|(?P<CC>\})|(?P<COMMA>,)|(?P<COLON>:)|(?P<LT><)|(?P<GT>>)|(?P<SC>;)
    |(?P<PO>\()|(?P<PC>\))|(?P<PIPE>\|)|(?P<PCT>%)|(?P<DOT>\.)|(?P<TILDE>~)"""
SYN = {'BO': '[', 'BC': ']', 'CO': '{', 'CC': '}', 'COMMA': ',', 'COLON': ':', 'LT': '<', 'GT': '>',
       'SC': ';', 'PO': '(', 'PC': ')', 'PIPE': '|', 'PCT': '%', 'DOT': '.', 'TILDE': '~'}


def gen_options(rng):
    o = dict(delim=rng.random() < 0.75, afd=rng.random() < 0.5, mafd=rng.random() < 0.5,
             bdelim=rng.random() < 0.5, b2delim=rng.random() < 0.5, nullable_item=False,
             bmafd=rng.random() < 0.5, bm_same=rng.random() < 0.4, b_nullable=False, seq_any=rng.random() < 0.3,
             seq_containers=rng.random() < 0.3, aux_first=rng.random() < 0.3,
             decl_order=rng.choice(['top-down', 'top-down', 'bottom-up', 'shuffled']))
    o['bmafd_left_out'] = o['bmafd'] and rng.random() < 0.5
    o['plain_factorization'] = rng.random() < 0.3
    o['seq_hook'] = rng.random() < 0.3
    if o['delim'] and not o['afd'] and rng.random() < 0.4:
        o['nullable_item'] = True
    if o['bdelim'] and rng.random() < 0.4:
        o['b_nullable'] = True     # bracket-less list with delimiter and omittable items
    return o


def mk_parser(o):
    if o.get('aux_first'):
        # some other part of the program has built a parser for single values (same productions, another start
        # symbol) and used it before the parser under observation is built
        aux = llparser.LLParser(TOK, synonyms=SYN, productions=mk_prods(o), start_symbol_name='VALUE')
        assert aux.parse("[a]" if o['delim'] or True else "") is not None
    # (the documented switch of the parser: common prefixes are un-factorized again - the default - or left as they are)
    return llparser.LLParser(TOK, synonyms=SYN, productions=mk_prods(o),
                             **({'smart_factorization': False} if o.get('plain_factorization') else {}))


class LookingSequence(ProdSequence):
    CAN_POST_PROCESS_TELEM = True
    seen = 0

    def transform_t_elem(self, t_elem, cleanuper):
        LookingSequence.seen += 1


def mk_prods(o):
    seq_symbols = ['WORD', 'NUMBER', 'PAR'] + (['LIST', 'MAP'] if o['seq_containers'] else [])
    if o.get('seq_any'):
        # "any token except ..." in front of the explicitly named element symbols
        seq_symbols = [AnyTokenExcept('[', ']', '{', '}', ',', ':', '<', '>', ';', '(', ')', '|', '%', '.', '~')] + seq_symbols[2:]
    prods = {
        'E': [('BL2', '|', 'BMAP', '|', 'VALUE', ';', 'OPT_TAIL')],
        # (when a final delimiter is allowed - the documented default - the option is written out or left out)
        'BMAP': MapProds(None, 'WORD', ':', 'WORD' if o['bm_same'] else 'NUMBER', ',', None,
                         **({} if o['bmafd'] and o.get('bmafd_left_out') else {'allow_final_delimiter': o['bmafd']})),
        'OPT_TAIL': [('OLIST', 'OMAP', 'BLIST')],
        'VALUE': [('WORD',), ('NUMBER',), ('LIST',), ('MAP',), ('SEQ_H',), ('MX_H',), ('DS_H',)],
        # a sequence whose terminator is one of its possible elements: "~ a . b ." is [a, '.', b]
        'DS_H': [('~', 'DSEQ', '.')],
        'DSEQ': ProdSequence('WORD', 'NUMBER', '.'),
        # a list whose items are directly bracket-less lists: "% [a, b; ; c]"
        'MX_H': [('%', 'MATRIX')],
        'MATRIX': ListProds('[', 'ROW', ';', ']', allow_final_delimiter=False),
        'ROW': ListProds(None, 'WORD', ',', None),
        'LIST': ListProds('[', 'ITEM', ',' if o['delim'] else None, ']',
                          allow_final_delimiter=o['afd'] if o['delim'] else None),
        'ITEM': [('VALUE',)] + ([None] if o['nullable_item'] else []),
        'MAP': MapProds('{', 'WORD', ':', 'VALUE', ',', '}', allow_final_delimiter=o['mafd']),
        'SEQ_H': [('<', 'SEQ', '>')],
        # (... or a sequence class of the application with the post-processing hook the list and map templates have:
        # it only looks at the element)
        'SEQ': (LookingSequence if o.get('seq_hook') else ProdSequence)(*seq_symbols),
        'PAR': [('(', 'WORD', ')')],
        'OLIST': ListProds('[', 'WORD', ',', ']', optional=True),
        'OMAP': MapProds('{', 'WORD', ':', 'NUMBER', ',', '}', optional=True),
        'BLIST': ListProds(None, 'BITEM' if o['b_nullable'] else 'NUMBER', ',' if o['bdelim'] else None, None),
        'BITEM': [('NUMBER',), None],
        'BL2': ListProds(None, 'WORD', ',' if o['b2delim'] else None, None),
    }
    order = o.get('decl_order')
    if order == 'bottom-up':
        # building blocks first, the start symbol last
        prods = dict(reversed(list(prods.items())))
    elif order == 'shuffled':
        import random
        items = list(prods.items())
        random.Random(repr(sorted((k, str(v)) for k, v in o.items()))).shuffle(items)
        prods = dict(items)
    return prods


ATOMS = ["a", "bc", "7", "42", "zz", "q", "0"]
KEYS = ["k", "q", "kk", "x", "y"]
LENS = [0, 1, 2, 3, 3, 6, 12]


def gen_val(rng, d, o, in_seq=False):
    r = rng.random()
    if d > 4 or r < 0.35:
        return rng.choice(ATOMS)
    if r < 0.62:
        n = rng.choice(LENS) if d < 3 else rng.choice([0, 1, 2])
        items = [gen_item(rng, d + 1, o) for _ in range(n)]
        if items == [None]:
            items = []
        return ('L', items)
    if r < 0.8:
        ks = [rng.choice(KEYS) for _ in range(rng.choice([0, 1, 2, 4, 7]) if d < 3 else rng.choice([0, 1, 2]))]
        return ('M', [(k, gen_val(rng, d + 1, o)) for k in ks])
    if r < 0.86 and not in_seq:
        rows = [[rng.choice(["a", "bc", "zz"]) for _ in range(rng.choice([0, 0, 1, 2, 3]))]
                for _ in range(rng.choice([0, 1, 2, 3, 5]))]
        if rows == [[]]:
            rows = []          # a single empty row is textually the empty matrix
        return ('X', rows)
    if in_seq:
        return rng.choice(ATOMS)
    if r < 0.9:
        return ('D', [rng.choice(ATOMS + [".", "."]) for _ in range(rng.choice([0, 1, 2, 3, 5]))])
    elems = []
    for _ in range(rng.choice([0, 1, 3, 5])):
        r2 = rng.random()
        if r2 < 0.2:
            elems.append(('P', rng.choice(["w", "v"])))
        elif r2 < 0.4 and o['seq_containers']:
            v = gen_val(rng, d + 1, o, in_seq=True)
            elems.append(v if isinstance(v, tuple) else rng.choice(ATOMS))
        else:
            elems.append(rng.choice(ATOMS))
    return ('S', elems)


def gen_item(rng, d, o):
    if o['nullable_item'] and rng.random() < 0.25:
        return None
    return gen_val(rng, d, o)


# comments hide everything up to the end of the line: also behind characters some line-splitting functions
# (not '\n'.split) take for line ends
ODD_COMMENTS = [" # a\x0c b, ]\n", "#\x0b[ {\n", " # k\u2028: v }\n", " # \x85 , ;\n", " #\r) >\n", " # \x1c| %\n",
                " # \x1e.\n", " # \u2029~\n"]


def ws(rng):
    if rng.random() < 0.04:
        return rng.choice(ODD_COMMENTS)
    return rng.choice(["", "", " ", "  ", "\n", " # c\n", "\n\n ", "\t"])


def sep(rng):
    if rng.random() < 0.04:
        return rng.choice(ODD_COMMENTS)
    return rng.choice([" ", "\n", " # c ]\n ", "  "])


class Renderer:
    def __init__(self, rng, o, bad_target=None):
        self.rng = rng
        self.o = o
        self.bad_target = bad_target   # index (in visiting order) of the container that gets
        self.counter = 0               # a final delimiter although it is not allowed
        self.final_delims = 0
        self.bad_done = False

    def render(self, v):
        rng, o = self.rng, self.o
        if v is None:
            return ""
        if isinstance(v, str):
            return v
        k, x = v
        if k == 'L':
            idx = self.counter
            self.counter += 1
            items = [self.render(i) for i in x]
            if o['delim']:
                body = (ws(rng) + "," + ws(rng)).join(items)
                if x and o['afd'] and not o['nullable_item'] and rng.random() < 0.4:
                    body += ws(rng) + ","
                    self.final_delims += 1
                elif x and not o['afd'] and not o['nullable_item'] and idx == self.bad_target:
                    body += ws(rng) + ","
                    self.bad_done = True
            else:
                body = sep(rng).join(items)
            return "[" + ws(rng) + body + ws(rng) + "]"
        if k == 'M':
            idx = self.counter
            self.counter += 1
            body = (ws(rng) + "," + ws(rng)).join(
                kk + ws(rng) + ":" + ws(rng) + self.render(vv) for kk, vv in x)
            if x and o['mafd'] and rng.random() < 0.4:
                body += ws(rng) + ","
                self.final_delims += 1
            elif x and not o['mafd'] and idx == self.bad_target:
                body += ws(rng) + ","
                self.bad_done = True
            return "{" + ws(rng) + body + ws(rng) + "}"
        if k == 'X':
            return "%" + ws(rng) + "[" + ws(rng) + (ws(rng) + ";" + ws(rng)).join(
                (ws(rng) + "," + ws(rng)).join(row) for row in x) + ws(rng) + "]"
        if k == 'D':
            return "~" + ws(rng) + sep(rng).join(x) + (sep(rng) if x else ws(rng)) + "."
        if k == 'S':
            parts = []
            for e in x:
                if isinstance(e, tuple) and e[0] == 'P':
                    parts.append("(" + ws(rng) + e[1] + ws(rng) + ")")
                else:
                    parts.append(self.render(e))
            return "<" + ws(rng) + sep(rng).join(parts) + ws(rng) + ">"
        raise AssertionError(k)


def expect(v):
    if v is None or isinstance(v, str):
        return v
    k, x = v
    if k == 'L':
        return [expect(i) for i in x]
    if k == 'M':
        return ('DICT', list(dict((kk, expect(vv)) for kk, vv in x).items()))
    if k == 'S':
        return ('TE', 'SEQ_H', ['<', [('TE', 'PAR', ['(', e[1], ')']) if isinstance(e, tuple) and e[0] == 'P'
                                      else expect(e) for e in x], '>'])
    if k == 'X':
        return ('TE', 'MX_H', ['%', [list(row) for row in x]])
    if k == 'D':
        return ('TE', 'DS_H', ['~', list(x), '.'])
    raise AssertionError(k)


def safe_norm(v):
    try:
        return repr(norm(v))[:300]
    except Exception:
        return "<result cannot be normalised>"


def norm(v):
    if isinstance(v, TElement):
        if v.is_leaf():
            return norm(v.value)
        return ('TE', v.name, [norm(c) for c in v.value])
    if isinstance(v, list):
        return [norm(x) for x in v]
    if isinstance(v, dict):
        return ('DICT', [(k, norm(x)) for k, x in v.items()])
    return v


MASK = "<container element of a sequence>"


def mask_expected(v):
    """replace containers that are direct elements of a sequence by a placeholder"""
    if isinstance(v, tuple) and v[0] == 'TE' and v[1] == 'SEQ_H':
        elems = [MASK if isinstance(e, list) or (isinstance(e, tuple) and e[0] == 'DICT') else mask_expected(e)
                 for e in v[2][1]]
        return ('TE', 'SEQ_H', ['<', elems, '>'])
    if isinstance(v, tuple) and v[0] == 'TE':
        return ('TE', v[1], [mask_expected(c) for c in v[2]])
    if isinstance(v, tuple) and v[0] == 'DICT':
        return ('DICT', [(k, mask_expected(x)) for k, x in v[1]])
    if isinstance(v, list):
        return [mask_expected(x) for x in v]
    return v


def norm_masked(v, in_seq=False):
    if isinstance(v, TElement):
        if in_seq and v.name in ('LIST', 'MAP'):
            return MASK
        if v.is_leaf():
            return norm_masked(v.value, in_seq=(v.name == 'SEQ'))
        return ('TE', v.name, [norm_masked(c) for c in v.value])
    if isinstance(v, list):
        return [norm_masked(x, in_seq) for x in v]
    if isinstance(v, dict):
        return ('DICT', [(k, norm_masked(x)) for k, x in v.items()])
    return v


def helper_names(v, in_seq=False, out=None):
    """names with '__' visible in the result (masking the known finding)"""
    out = [] if out is None else out
    if isinstance(v, TElement):
        if in_seq and v.name in ('LIST', 'MAP'):
            return out
        if '__' in v.name or v.name.startswith('$'):
            out.append(v.name)
        if isinstance(v.value, (list, dict)):
            helper_names(v.value, in_seq=(v.name == 'SEQ' and v.is_leaf()), out=out)
    elif isinstance(v, list):
        for x in v:
            helper_names(x, in_seq, out)
    elif isinstance(v, dict):
        for x in v.values():
            helper_names(x, False, out)
    return out


def depth_info(v, d=0):
    """(max depth, has list, has map)"""
    if not isinstance(v, tuple):
        return d, False, False
    k, x = v
    if k == 'X':
        return d + 2, True, False
    if k == 'D':
        return d + 1, False, False
    kids = [i for i in x] if k in ('L', 'S') else [vv for _, vv in x]
    md, hl, hm = d + 1, k == 'L', k == 'M'
    for c in kids:
        if isinstance(c, tuple) and c[0] != 'P':
            a, b, c2 = depth_info(c, d + 1)
            md, hl, hm = max(md, a), hl or b, hm or c2
    return md, hl, hm


def count_containers(v):
    if not isinstance(v, tuple) or v[0] == 'P':
        return 0
    k, x = v
    if k in ('X', 'D'):
        return 0       # (the matrix never takes part in the final-delimiter cases)
    kids = x if k in ('L', 'S') else [vv for _, vv in x]
    return (1 if k in ('L', 'M') else 0) + sum(count_containers(c) for c in kids)


def has_repeated_keys(v):
    if not isinstance(v, tuple) or v[0] == 'P':
        return False
    k, x = v
    if k in ('X', 'D'):
        return False
    if k == 'M':
        keys = [kk for kk, _ in x]
        if len(set(keys)) < len(keys):
            return True
        return any(has_repeated_keys(vv) for _, vv in x)
    return any(has_repeated_keys(c) for c in x)


def build_text(rng, o, v, bl2, ol, om, bl, bad_target=None, bad_tail=None, bm=()):
    rnd = Renderer(rng, o, bad_target)
    text = ws(rng) + ((" , " if o['b2delim'] else sep(rng)).join(bl2))
    text += ws(rng) + "|" + ws(rng) + (ws(rng) + "," + ws(rng)).join(k + ws(rng) + ":" + ws(rng) + x for k, x in bm)
    if bm and o['bmafd'] and rng.random() < 0.3:
        text += ws(rng) + ","
        rnd.final_delims += 1
    text += ws(rng) + "|" + ws(rng) + rnd.render(v) + ws(rng) + ";" + ws(rng)
    if ol is not None:
        text += "[" + ws(rng) + (ws(rng) + "," + ws(rng)).join(ol)
        if ol and rng.random() < 0.3:
            text += ws(rng) + ","  # default allow_final_delimiter of a bracketed list with delimiter
            rnd.final_delims += 1
        text += "]" + ws(rng)
    if om is not None:
        text += "{" + ", ".join(k + ws(rng) + ":" + x for k, x in om) + "}" + ws(rng)
    text += (" , " if o['bdelim'] else sep(rng)).join("" if x is None else x for x in bl)
    if bad_tail and bl and o['bdelim'] and not o['b_nullable']:
        text += " ,"
        rnd.bad_done = True
    text += ws(rng)
    return text, rnd


_PARSER_CACHE = {}


def parser_for(o):
    """one long-lived parser per option set (parsers are reused for many texts in real use)"""
    key = repr(sorted(o.items()))
    if key not in _PARSER_CACHE:
        if len(_PARSER_CACHE) > 300:
            _PARSER_CACHE.clear()
        _PARSER_CACHE[key] = mk_parser(o)
        if len(key) % 3 == 0:
            # the documented diagnostic output of the new parser is looked at before it is used
            import contextlib
            import io
            with contextlib.redirect_stdout(io.StringIO()):
                _PARSER_CACHE[key].print_detailed_descr()
            _DESCRIBED[0] += 1
    return _PARSER_CACHE[key]


_DESCRIBED = [0]


def judge(ctx, o, text, v, bl2, ol, om, bl, negative, case, bm=()):
    ctx.evaluated()
    parser = parser_for(o)
    if len(text) % 7 == 3:
        # the long-lived parser was used a moment ago to look at a fragment (the documented keyword that names
        # the symbol to start from): the next ordinary parse gives what it always gives
        try:
            parser.parse(ATOMS[len(text) % len(ATOMS)], start_symbol_name=('VALUE', 'ITEM')[len(text) % 2])
            ctx.count("fragments_parsed_from_another_start_symbol_in_between")
        except llparser.Error:
            ctx.count("fragments_refused(not judged)")
    try:
        t = parser.parse(text)
    except llparser.ParsingError as err:
        if negative:
            ctx.count("negative_cases_rejected")
            ctx.nontrivial(sig_of([o, text]))
        else:
            ctx.violation("valid-text-rejected", {"msg": str(err)[:200]}, case)
        return
    except Exception as err:
        ctx.violation("parse-raises", {"type": type(err).__name__, "msg": str(err)[:200]}, case)
        return
    if negative:
        ctx.violation("final-delimiter-accepted-where-not-allowed", {"result": safe_norm(t)}, case)
        return
    ctx.count("parses_compared")
    if len(text) % 5 == 2:
        # the other documented route to the same result: parse without cleanup, clean up afterwards
        try:
            t_raw = parser.parse(text, do_cleanup=False)
            if len(text) % 2:
                # (the raw tree is kept; a copy of it is cleaned up)
                t_raw = t_raw.clone()
                ctx.count("copies_of_raw_trees_cleaned_up")
            parser.cleanup(t_raw)
        except Exception as err:
            ctx.violation("parse-raises", {"type": type(err).__name__, "msg": str(err)[:200], "route": "cleanup()"}, case)
            return
        ctx.count("separate_cleanup_calls_compared")
        if safe_norm(t_raw) != safe_norm(t):
            ctx.violation("separate-cleanup-gives-another-result", {"cleanup": safe_norm(t_raw), "parse": safe_norm(t)}, case)
            return
    mech = None
    detail = None
    try:
        assert t.name == 'E' and not t.is_leaf() and len(t.value) == 7, "shape of E"
        got_bl2, _, got_bm, _, got_v, _, tail = t.value
        tv = {c.name: c for c in tail.value}
        exp_v = expect(v)
        g = norm(got_v)
        if g != exp_v and not (isinstance(g, tuple) and g[0] == 'TE' and g[1] == 'VALUE' and g[2] == [exp_v]):
            gm = norm_masked(got_v)
            em = mask_expected(exp_v)
            if count_seq_containers(v) and (gm == em or (
                    isinstance(gm, tuple) and gm[0] == 'TE' and gm[1] == 'VALUE' and gm[2] == [em])):
                mech = "container-inside-sequence"
            else:
                mech = "value-differs-from-data"
            detail = {"got": repr(g)[:400], "expected": repr(exp_v)[:400]}
        names = helper_names(t)
        if names and mech is None:
            mech, detail = "helper-symbol-in-result", {"names": names[:5]}
        if mech is None:
            if norm(tv['OLIST']) != ol:
                mech, detail = "optional-list-differs", {"got": repr(norm(tv['OLIST'])), "expected": ol}
            elif norm(tv['OMAP']) != (None if om is None else ('DICT', list(dict(om).items()))):
                mech, detail = "optional-map-differs", {"got": repr(norm(tv['OMAP'])), "expected": om}
            elif norm(tv['BLIST']) != bl:
                mech, detail = "bracketless-list-differs", {"got": repr(norm(tv['BLIST'])), "expected": bl}
            elif norm(got_bl2) != bl2:
                mech, detail = "bracketless-list-differs", {"got": repr(norm(got_bl2)), "expected": bl2}
            elif norm(got_bm) != ('DICT', list(dict(bm).items())):
                mech, detail = "bracketless-map-differs", {"got": repr(norm(got_bm)), "expected": list(bm)}
    except (AssertionError, KeyError, AttributeError, TypeError) as err:
        mech, detail = "unexpected-result-shape", {"err": repr(err)[:200], "result": safe_norm(t)}
    if mech:
        ctx.violation(mech, detail, case)
        return
    if ol is None:
        ctx.count("optional_absent")
    if om is None:
        ctx.count("optional_absent")
    md, hl, hm = depth_info(v)
    ctx.maxi("max_depth_seen", md)
    if has_repeated_keys(v):
        ctx.count("repeated_key_maps")
    if md >= 3 and hl and hm:
        ctx.nontrivial(sig_of([o, text]))


def count_seq_containers(v):
    if not isinstance(v, tuple) or v[0] == 'P':
        return 0
    k, x = v
    if k in ('X', 'D'):
        return 0
    if k == 'S':
        return sum(1 for e in x if isinstance(e, tuple) and e[0] in ('L', 'M'))
    kids = x if k == 'L' else [vv for _, vv in x]
    return sum(count_seq_containers(c) for c in kids)


_START_PARSERS = {}


TOK_BLANKS = r"(?P<SPACE>\s)|(?P<WORD>[a-z]+|[0-9]+)|(?P<BO>\[)|(?P<BC>\])|(?P<COMMENT>\#[a-z]*\#)"
_BLANK_PARSERS = {}


def blank_delimited_case(ctx, rng):
    """nothing is skipped (skip_tokens given as an empty collection): a single blank is the delimiter of the
    lists, comments are items, a sequence collects every token between its brackets - blanks included"""
    how = rng.choice(["set", "tuple", "list", "frozenset"])
    afd = rng.random() < 0.5
    if (how, afd) not in _BLANK_PARSERS:
        empty = {"set": set(), "tuple": (), "list": [], "frozenset": frozenset()}[how]
        _BLANK_PARSERS[how, afd] = llparser.LLParser(
            TOK_BLANKS, synonyms={'BO': '[', 'BC': ']'}, skip_tokens=empty,
            productions={'E': [('LIST',), ('COMMENT', 'SEQ', 'COMMENT')],
                         'LIST': ListProds('[', 'ITEM', 'SPACE', ']', allow_final_delimiter=afd),
                         'ITEM': [('WORD',), ('LIST',), ('COMMENT',)],
                         'SEQ': ProdSequence(AnyTokenExcept('COMMENT'))})
    parser = _BLANK_PARSERS[how, afd]
    ctx.evaluated()
    if rng.random() < 0.3:
        pieces = [rng.choice(["a", "bc", " ", " ", "[", "]", "7", "  "]) for _ in range(rng.choice([0, 1, 3, 6]))]
        text = "##" + "".join(pieces) + "#x#"
        import re
        want = [m.group() for m in re.finditer(TOK_BLANKS, "".join(pieces))]     # (adjacent pieces may form one word)
    else:
        def gen(d):
            return [gen(d + 1) if d < 3 and rng.random() < 0.3 else rng.choice(ATOMS + ["#c#", "##"])
                    for _ in range(rng.choice([0, 1, 2, 3, 5]))]

        def text_of(v):
            if isinstance(v, str):
                return v
            return "[" + " ".join(text_of(x) for x in v) + (" " if afd and v and rng.random() < 0.4 else "") + "]"
        want = gen(0)
        text = text_of(want)
    case = {"options": {"nothing_skipped": how, "allow_final_delimiter": afd}, "text": text}
    try:
        got = norm(parser.parse(text))
    except Exception as err:
        ctx.violation("valid-text-rejected", {"type": type(err).__name__, "msg": str(err)[:200]}, case)
        return
    ctx.count("texts_parsed_with_nothing_skipped")
    if isinstance(got, tuple) and got[:2] == ('TE', 'E'):
        kids = got[2]
        got = kids[1] if text.startswith("##") and len(kids) == 3 else kids[0] if len(kids) == 1 else got
    if got != want:
        ctx.violation("value-differs-from-data", {"got": repr(got)[:300], "expected": repr(want)[:300]}, case)


TOK_KW = r"""(?P<SPACE>\s+)|(?P<COMMENT>\#.*)|(?P<W>[a-z]+)|"(?P<QSTR>[a-z ]*)"|(?P<ML>''')|(?P<AT>@)|(?P<LT><)|(?P<GT>>)|(?P<BO>\[)|(?P<BC>\])|(?P<CO>\{)|(?P<CC>\})
            |(?P<COMMA>,)|(?P<COLON>:)"""
_KW_PARSER = []


def keyword_case(ctx, rng):
    """a tokenizer with keywords ('in', 'null' - when they are WORDS) and quoted strings whose text may be
    spelled like a keyword: items and keys of that kind are items and keys like any other"""
    if not _KW_PARSER:
        _KW_PARSER.append(llparser.LLParser(
            # (a text in triple quotes may run over several lines; it is a string like the ones in double quotes)
            TOK_KW, synonyms={'BO': '[', 'BC': ']', 'CO': '{', 'CC': '}', 'COMMA': ',', 'COLON': ':', 'ML': 'QSTR',
                              'AT': '@', 'LT': '<', 'GT': '>', 'W': 'WORD'},
            # (the keywords are declared for the token name the tokenizer reports - WORD, the synonym of its group W)
            span_matchers={'ML': r"(?P<END_ML>(.|\n)*?)'''"},
            keywords={('WORD', 'in'): 'IN', ('WORD', 'null'): 'NULL'},
            productions={'E': [('WORD', 'IN', 'LIST'), ('MAP',)],
                         'LIST': ListProds('[', 'ITEM', ',', ']'),
                         # (an item may be a name with an optional list of tags in front: "<a, b> @ w" or "@ w" - the
                         # only thing every TAGGED starts with for sure comes BEHIND a part that may be absent)
                         'ITEM': [('WORD',), ('QSTR',), ('NULL',), ('LIST',), ('MAP',), ('TAGGED',)],
                         'TAGGED': [('OTAGS', '@', 'WORD')],
                         'OTAGS': ListProds('<', 'WORD', ',', '>', optional=True),
                         'MAP': MapProds('{', 'QSTR', ':', 'ITEM', ',', '}')}))
    ctx.evaluated()

    def gen(d):
        r = rng.random()
        if d < 3 and r < 0.2:
            return [gen(d + 1) for _ in range(rng.choice([0, 1, 2, 3]))]
        if d < 3 and r < 0.35:
            return {rng.choice(["in", "null", "k", "x y", "", "two\nlines", "a\n\nb"]): gen(d + 1)
                    for _ in range(rng.choice([0, 1, 2, 3]))}
        if r > 0.85:
            tags = None if rng.random() < 0.5 else [rng.choice(["a", "bc"]) for _ in range(rng.choice([0, 1, 2]))]
            return ('T', tags, rng.choice(["w", "in"[:0] + "x"]))
        return rng.choice(["a", "bc", "null", '"in"', '"null"', '"x y"', '""', '"a"', "'''x\ny'''", "''''''",
                           "''' in\n  null '''"])

    def text_of(v):
        if isinstance(v, str):
            return v
        if isinstance(v, tuple):
            tags = "" if v[1] is None else "<" + ws(rng) + (ws(rng) + "," + ws(rng)).join(v[1]) + ws(rng) + ">"
            return tags + ws(rng) + "@" + ws(rng) + v[2]
        if isinstance(v, list):
            return "[" + ws(rng) + (ws(rng) + "," + ws(rng)).join(text_of(x) for x in v) + ws(rng) + "]"
        return "{" + ws(rng) + (ws(rng) + "," + ws(rng)).join(
            (("'''%s'''" if "\n" in k or rng.random() < 0.2 else '"%s"') % k) + ws(rng) + ":" + ws(rng) + text_of(x)
            for k, x in v.items()) + "}"

    def want_of(v):
        if isinstance(v, str):
            return v[3:-3] if v.startswith("'''") else v[1:-1] if v.startswith('"') else v
        if isinstance(v, tuple):
            return ('TE', 'TAGGED', [v[1], '@', v[2]])
        if isinstance(v, list):
            return [want_of(x) for x in v]
        return ('DICT', [(k, want_of(x)) for k, x in v.items()])
    if rng.random() < 0.6:
        data = [gen(1) for _ in range(rng.choice([0, 1, 2, 4]))]
        text = "x in " + text_of(data)
    else:
        data = {rng.choice(["in", "null", "k", "", "two\nlines"]): gen(1) for _ in range(rng.choice([0, 1, 2, 3]))}
        text = text_of(data)
    case = {"options": {"keywords_and_quoted_strings": True}, "text": text}
    try:
        got = norm(_KW_PARSER[0].parse(text))
    except Exception as err:
        ctx.violation("valid-text-rejected", {"type": type(err).__name__, "msg": str(err)[:200]}, case)
        return
    ctx.count("texts_with_strings_spelled_like_keywords_parsed")
    if isinstance(got, tuple) and got[:2] == ('TE', 'E'):
        got = got[2][2] if len(got[2]) == 3 else got[2][0]
    if got != want_of(data):
        ctx.violation("value-differs-from-data", {"got": repr(got)[:300], "expected": repr(want_of(data))[:300]}, case)


_CMD_PARSER = []


def command_line_case(ctx, rng):
    """two lists without brackets and without delimiters in a row: options "key = value", then plain arguments - an
    option and an argument start with the same kind of token"""
    if not _CMD_PARSER:
        _CMD_PARSER.append(llparser.LLParser(
            r"(?P<SPACE>\s+)|(?P<COMMENT>\#.*)|(?P<WORD>[a-z0-9_.]+)|(?P<EQ>=)|(?P<SEMI>;)",
            synonyms={'EQ': '=', 'SEMI': ';'},
            productions={'E': [('WORD', 'OPTS', 'ARGS', ';')],
                         'OPTS': ListProds(None, 'OPT', None, None),
                         'OPT': [('WORD', '=', 'WORD')],
                         'ARGS': ListProds(None, 'WORD', None, None)}))
    ctx.evaluated()
    opts = [(rng.choice(["k", "n", "out"]), rng.choice(["v", "1", "a.txt"])) for _ in range(rng.choice([0, 0, 1, 2, 4]))]
    args = [rng.choice(["a.txt", "b", "k", "7"]) for _ in range(rng.choice([0, 0, 1, 2, 5]))]
    text = "run" + sep(rng) + "".join(k + ws(rng) + "=" + ws(rng) + v + sep(rng) for k, v in opts) + \
        "".join(a + sep(rng) for a in args) + ";"
    case = {"options": {"command_line": True}, "text": text}
    try:
        got = norm(_CMD_PARSER[0].parse(text))
    except Exception as err:
        ctx.violation("valid-text-rejected", {"type": type(err).__name__, "msg": str(err)[:200]}, case)
        return
    ctx.count("command_lines_parsed")
    want = ('TE', 'E', ['run', [('TE', 'OPT', [k, '=', v]) for k, v in opts], list(args), ';'])
    if got != want:
        ctx.violation("value-differs-from-data", {"got": repr(got)[:300], "expected": repr(want)[:300]}, case)


def shared_any_case(ctx, rng):
    """ONE 'any token except the brackets' object (a module-level constant of the caller) serves two parsers whose
    tokenizers know different tokens: each sequence collects the tokens of its own tokenizer"""
    helper = AnyTokenExcept('[', ']')
    # (the second tokenizer reports its punctuation under the characters themselves: '=', ';', '$', '$$')
    toks = [r"(?P<SPACE>\s+)|(?P<BO>\[)|(?P<BC>\])|(?P<WORD>[a-z]+)|(?P<NUMBER>[0-9]+)",
            r"(?P<SPACE>\s+)|(?P<BO>\[)|(?P<BC>\])|(?P<WORD>[a-z]+)|(?P<EQ>=)|(?P<SC>;)|(?P<DD>\$\$)|(?P<DOLLAR>\$)"]
    pools = [["a", "bc", "7", "42"], ["a", "bc", "=", ";", "$", "$$"]]
    if rng.random() < 0.5:
        toks.reverse()
        pools.reverse()
    ctx.evaluated()
    case = {"options": {"shared_any_token_except": True}, "text": None}
    parsers = []
    try:
        for tok in toks:
            parsers.append(llparser.LLParser(tok, synonyms={'BO': '[', 'BC': ']', 'EQ': '=', 'SC': ';', 'DOLLAR': '$',
                                                            'DD': '$$'},
                                             productions={'E': [('[', 'SEQ', ']')], 'SEQ': ProdSequence(helper)}))
    except Exception as err:
        ctx.violation("constructor-raises", {"type": type(err).__name__, "msg": str(err)[-200:]}, case)
        return
    for k in (1, 0, 1):
        items = [rng.choice(pools[k]) for _ in range(rng.choice([0, 1, 3, 5]))]
        text = "[" + " ".join(items) + "]"
        case = {"options": {"shared_any_token_except": True}, "text": text}
        try:
            got = norm(parsers[k].parse(text))
        except Exception as err:
            ctx.violation("valid-text-rejected", {"type": type(err).__name__, "msg": str(err)[:200]}, case)
            return
        ctx.count("sequences_of_parsers_sharing_one_any_token_object")
        want = ('TE', 'E', ['[', items, ']'])
        if got != want:
            ctx.violation("value-differs-from-data", {"got": repr(got)[:300], "expected": repr(want)[:300]}, case)


def template_start_case(ctx, rng):
    """the start symbol of the grammar is itself a list / map template (no wrapper production above it)"""
    kind = rng.choice(["list", "map"])
    if kind not in _START_PARSERS:
        prods = ({'E': ListProds('[', 'ITEM', ',', ']'), 'ITEM': [('WORD',), ('NUMBER',), ('E',)]} if kind == "list"
                 else {'E': MapProds('{', 'WORD', ':', 'VAL', ',', '}'), 'VAL': [('WORD',), ('E',)]})
        _START_PARSERS[kind] = llparser.LLParser(TOK, synonyms=SYN, productions=prods)

    def gen(d):
        if kind == "list":
            return [gen(d + 1) if d < 3 and rng.random() < 0.3 else rng.choice(ATOMS)
                    for _ in range(rng.choice([0, 1, 2, 3]))]
        return [(rng.choice(KEYS), gen(d + 1) if d < 3 and rng.random() < 0.3 else rng.choice(["a", "zz"]))
                for _ in range(rng.choice([0, 1, 2, 3]))]

    def text_of(v):
        if isinstance(v, str):
            return v
        if kind == "list":
            return "[" + ws(rng) + (ws(rng) + "," + ws(rng)).join(text_of(x) for x in v) + ws(rng) + "]"
        return "{" + ws(rng) + (ws(rng) + "," + ws(rng)).join(k + ws(rng) + ":" + ws(rng) + text_of(x) for k, x in v) + "}"

    def want_of(v):
        if isinstance(v, str):
            return v
        if kind == "list":
            return [want_of(x) for x in v]
        return ('DICT', list(dict((k, want_of(x)) for k, x in v).items()))
    data = gen(0)
    text = text_of(data)
    case = {"options": {"start_symbol_is_a_template": kind}, "text": text}
    ctx.evaluated()
    try:
        got = norm(_START_PARSERS[kind].parse(text))
    except Exception as err:
        ctx.violation("valid-text-rejected", {"type": type(err).__name__, "msg": str(err)[:200]}, case)
        return
    ctx.count("grammars_starting_at_a_template_parsed")
    if got != want_of(data):
        ctx.violation("value-differs-from-data", {"got": repr(got)[:300], "expected": repr(want_of(data))[:300]}, case)


_DOC_PARSER = []


def doc_comment_case(ctx, rng):
    """a language with two kinds of comments: '#...' is skipped (it is called COMMENT), '!!...' documents the next item
    and is a token of the grammar (it is called COMMENT_DOC); skip_tokens is left at its default"""
    if not _DOC_PARSER:
        _DOC_PARSER.append(llparser.LLParser(
            r"(?P<SPACE>\s+)|(?P<COMMENT>\#.*)|(?P<COMMENT_DOC>!![a-z ]*)|(?P<WORD>[a-z0-9]+)|(?P<BO>\[)|(?P<BC>\])"
            r"|(?P<COMMA>,)|(?P<CO>\{)|(?P<CC>\})|(?P<COLON>:)",
            synonyms={'BO': '[', 'BC': ']', 'COMMA': ',', 'CO': '{', 'CC': '}', 'COLON': ':'},
            productions={'E': [('LIST', 'MAP')],
                         'LIST': ListProds('[', 'ITEM', ',', ']'),
                         'ITEM': [('WORD',), ('COMMENT_DOC',)],
                         'MAP': llparser.MapProds('{', 'WORD', ':', 'ITEM', ',', '}')}))
    ctx.evaluated()
    items = [rng.choice(["a", "7", "!!the doc", "!!", "!!x"]) for _ in range(rng.choice([0, 1, 2, 3, 6]))]
    pairs = [(rng.choice(["k", "m", "n"]), rng.choice(["v", "!!why", "!!"])) for _ in range(rng.choice([0, 1, 2, 3]))]

    def line_end(x):
        # (a documentation comment runs to the end of its line)
        return x + (rng.choice(["\n", "# note\n", "\n  "]) if x.startswith("!!") else ws(rng))

    text = "[" + ws(rng) + ("," + ws(rng)).join(line_end(x) for x in items) + "]" + sep(rng) + \
        "{" + ws(rng) + ("," + ws(rng)).join(k + ws(rng) + ":" + ws(rng) + line_end(v) for k, v in pairs) + "}"
    case = {"options": {"doc_comments": True}, "text": text}
    try:
        got = norm(_DOC_PARSER[0].parse(text))
    except Exception as err:
        ctx.violation("valid-text-rejected", {"type": type(err).__name__, "msg": str(err)[:200]}, case)
        return
    ctx.count("texts_with_documentation_comments_parsed")
    want = ('TE', 'E', [list(items), ('DICT', list(dict(pairs).items()))])
    if got != want:
        ctx.violation("value-differs-from-data", {"got": repr(got)[:300], "expected": repr(want)[:300]}, case)


_ATTR_PARSER = []


def attribute_list_case(ctx, rng):
    """lists without a delimiter whose items are 'name=value' or a bare 'name' (both start with a word: the second
    alternative is tried where the first one gives up behind the word), values may be such lists again; the same items
    as the elements of a sequence"""
    if not _ATTR_PARSER:
        tok = r"(?P<SPACE>\s+)|(?P<COMMENT>\#.*)|(?P<WORD>[a-z0-9_]+)|(?P<BO>\[)|(?P<BC>\])|(?P<EQ>=)|(?P<SEMI>;)"
        syn = {'BO': '[', 'BC': ']', 'EQ': '=', 'SEMI': ';'}
        common = {'ITEM': [('PAIR',), ('WORD',)], 'PAIR': [('WORD', '=', 'VALUE')], 'VALUE': [('WORD',), ('LIST',)],
                  'LIST': ListProds('[', 'ITEM', None, ']')}
        _ATTR_PARSER.append(llparser.LLParser(tok, synonyms=syn, productions=dict(common, E=[('LIST',)])))
        _ATTR_PARSER.append(llparser.LLParser(tok, synonyms=syn, productions=dict(
            {k: (ListProds('[', 'ITEM', None, ']') if k == 'LIST' else list(v)) for k, v in common.items()},
            E=[('SEQ', ';')], SEQ=ProdSequence('ITEM'))))
    ctx.evaluated()

    def gen_list(d):
        return [gen_item(d) for _ in range(rng.choice([0, 1, 2, 3, 5]))]

    def gen_item(d):
        if rng.random() < 0.45:
            return ('=', rng.choice(["a", "b", "k_1"]), gen_list(d + 1) if d < 2 and rng.random() < 0.3 else
                    rng.choice(["x", "y", "7"]))
        return rng.choice(["a", "c", "zz", "9"])

    def text_of(v):
        if isinstance(v, list):
            return "[" + ws(rng) + "".join(text_of(x) + sep(rng) for x in v) + "]"
        if isinstance(v, tuple):
            return v[1] + ws(rng) + "=" + ws(rng) + text_of(v[2])
        return v

    def want_of(v):
        if isinstance(v, list):
            return [want_of(x) for x in v]
        if isinstance(v, tuple):
            return [v[1], '=', want_of(v[2])]
        return v

    def plain(x):
        if isinstance(x, TElement):
            x = x.value
        if isinstance(x, list):
            return [plain(i) for i in x]
        return x

    as_seq = rng.random() < 0.4
    # (the elements of a sequence are not cleaned up - the known finding of this property - so they hold no lists, and
    # every symbol in them keeps its own node: the nodes with a single child are looked through)
    data = gen_list(2 if as_seq else 0)
    text = ("".join(text_of(x) + sep(rng) for x in data) + ";") if as_seq else text_of(data)
    case = {"options": {"attribute_lists": True}, "text": text}
    try:
        got = plain(_ATTR_PARSER[1 if as_seq else 0].parse(text))
    except Exception as err:
        ctx.violation("valid-text-rejected", {"type": type(err).__name__, "msg": str(err)[:200]}, case)
        return
    ctx.count("attribute_lists_parsed")
    want = [want_of(data), ';'] if as_seq else want_of(data)
    try:
        scribble(_ATTR_PARSER[1 if as_seq else 0].parse(text))      # (a second result of the same text, written into)
        ctx.count("results_the_caller_wrote_into")
    except Exception:
        pass
    if as_seq and isinstance(got, list) and got and isinstance(got[0], list):
        def unwrapped(x):
            while isinstance(x, list) and len(x) == 1:
                x = x[0]
            return [unwrapped(i) for i in x] if isinstance(x, list) else x
        got = [[unwrapped(e) for e in got[0]]] + got[1:]
    if got != want:
        ctx.violation("value-differs-from-data", {"got": repr(got)[:300], "expected": repr(want)[:300]}, case)


_TWICE_PARSER = {}


def scribble(x, depth=0):
    """the caller works on the result it was given: it appends to every list in it (a result belongs to its caller;
    what later parses give is none of its business)"""
    if isinstance(x, TElement):
        x = x.value
    if isinstance(x, list) and depth < 6:
        for item in list(x):
            scribble(item, depth + 1)
        x.append("<the caller's own entry>")
    elif isinstance(x, dict) and depth < 6:
        for item in list(x.values()):
            scribble(item, depth + 1)
        x["<the caller's own key>"] = 1


def twice_case(ctx, rng):
    """one optional list symbol named twice in one production (the arguments on both sides of an arrow), and an optional
    list directly in front of a list that opens with the same bracket (dimensions, then values)"""
    kind = rng.choice(["rule", "decl"])
    smart = rng.random() < 0.7
    key = (kind, smart)
    if key not in _TWICE_PARSER:
        # (blanks and tabs are what this tokenizer skips: the text is given as one str, its lines are cut at the line
        # breaks and stripped on the right before the tokenizer sees them)
        # (remarks to the end of the line are reported as COMMENT; the opening of a block comment is a pattern that is
        # itself called COMMENT - it has no synonym - and a multi-line token)
        tok = r"(?P<SPACE>[ \t]+)|(?P<REM>\#.*)|(?P<COMMENT>/\*)|(?P<WORD>[a-z0-9_]+)|(?P<ARROW>->)|(?P<BO>\[)|(?P<BC>\])|(?P<COMMA>,)|(?P<SEMI>;)"
        syn = {'ARROW': '->', 'BO': '[', 'BC': ']', 'COMMA': ',', 'SEMI': ';', 'REM': 'COMMENT'}
        if kind == "rule":
            prods = {'E': [('RULE',)], 'RULE': [('WORD', 'ARGS', '->', 'WORD', 'ARGS', ';')],
                     'ARGS': ListProds('[', 'WORD', ',', ']', optional=True)}
        else:
            prods = {'E': [('DECL',)], 'DECL': [('WORD', 'DIMS', 'VALUES', ';')],
                     'DIMS': ListProds('[', 'WORD', ',', ']', optional=True),
                     'VALUES': ListProds('[', 'WORD', ',', ']')}
        _TWICE_PARSER[key] = llparser.LLParser(tok, synonyms=syn, productions=prods, smart_factorization=smart,
                                               span_matchers={'COMMENT': r"(?P<END_COMMENT>(.|\n)*?)\*/"})
    ctx.evaluated()

    def gen_list(may_be_absent):
        if may_be_absent and rng.random() < 0.45:
            return None
        return [rng.choice(["a", "b", "r", "c", "x1"]) for _ in range(rng.choice([0, 1, 2, 3]))]

    def text_of(lst):
        if lst is None:
            return ""
        return "[" + ws(rng) + "".join(x + ws(rng) + ("," if k + 1 < len(lst) or (lst and rng.random() < 0.2) else "") + ws(rng)
                                      for k, x in enumerate(lst)) + "]"

    # (dimensions that are left out in front of values are not judged: the first alternative that matches is the one
    # that is used, as documented, and the bracketed alternatives of the optional list come first)
    first, second = gen_list(kind == "rule"), gen_list(kind == "rule")
    if kind == "rule":
        text = "f" + sep(rng) + text_of(first) + ws(rng) + "->" + ws(rng) + "g" + sep(rng) + text_of(second) + ws(rng) + ";"
        want = ['f', first, '->', 'g', second, ';']
    else:
        text = "m" + sep(rng) + text_of(first) + ws(rng) + text_of(second) + ws(rng) + ";"
        want = ['m', first, second, ';']
    if "#" not in text and rng.random() < 0.7:
        # block comments (also over several lines) where blanks are (not in texts with remarks: a block comment that
        # opens inside a remark does not open)
        parts = text.split(" ")
        for k in range(1, len(parts)):
            if rng.random() < 0.3:
                parts[k] = rng.choice(["/* x */", "/* a, ]\n ; */", "/**/"]) + " " + parts[k]
        text = " ".join(parts)
        ctx.count("texts_with_block_comments_whose_opening_pattern_has_no_synonym")
    if rng.random() < 0.4:
        # the file came from a machine whose line ends are CR LF (also behind a blank or a comment)
        text = text.replace("\n", rng.choice(["\r\n", " \r\n", "\t\r\n"]))
        ctx.count("texts_with_cr_lf_line_ends_for_a_tokenizer_that_skips_blanks_and_tabs_only")
    case = {"options": {"twice": kind, "smart": smart}, "text": text}

    def plain(x):
        if isinstance(x, TElement):
            x = x.value
        if isinstance(x, list):
            return [plain(i) for i in x]
        return x
    try:
        got = plain(_TWICE_PARSER[key].parse(text))
    except Exception as err:
        ctx.violation("valid-text-rejected", {"type": type(err).__name__, "msg": str(err)[:200]}, case)
        return
    ctx.count("productions_with_two_optional_lists_parsed")
    if got != want:
        ctx.violation("value-differs-from-data", {"got": repr(got)[:300], "expected": repr(want)[:300]}, case)
        return
    # (the same text parsed once more: that result goes to a caller who writes into it)
    try:
        scribble(_TWICE_PARSER[key].parse(text))
        ctx.count("results_the_caller_wrote_into")
    except Exception as err:
        ctx.violation("valid-text-rejected", {"type": type(err).__name__, "msg": str(err)[:200], "second_parse": True}, case)


FAMILIES = {"twice": lambda ctx, rng: twice_case(ctx, rng),
            "attribute_lists": lambda ctx, rng: attribute_list_case(ctx, rng),
            "start_symbol_is_a_template": lambda ctx, rng: template_start_case(ctx, rng),
            "doc_comments": lambda ctx, rng: doc_comment_case(ctx, rng),
            "command_line": lambda ctx, rng: command_line_case(ctx, rng),
            "keywords_and_quoted_strings": lambda ctx, rng: keyword_case(ctx, rng),
            "nothing_skipped": lambda ctx, rng: blank_delimited_case(ctx, rng),
            "shared_any_token_except": lambda ctx, rng: shared_any_case(ctx, rng)}


def run_shard(ctx):
    for i in range(ctx.cases):
        rng = ctx.rng(i)
        if i == ctx.cases - 1:
            ctx.count("parsers_described_before_use", _DESCRIBED[0])
        if i % 10 == 9:
            for _ in range(6):
                template_start_case(ctx, rng)
            for _ in range(6):
                blank_delimited_case(ctx, rng)
            for _ in range(6):
                keyword_case(ctx, rng)
            for _ in range(2):
                shared_any_case(ctx, rng)
            for _ in range(6):
                command_line_case(ctx, rng)
            for _ in range(6):
                doc_comment_case(ctx, rng)
            for _ in range(6):
                attribute_list_case(ctx, rng)
            for _ in range(6):
                twice_case(ctx, rng)
        o = gen_options(rng)
        try:
            mk_parser(o)
        except Exception as err:
            ctx.violation("constructor-raises", {"type": type(err).__name__, "msg": str(err)[-200:]},
                          {"options": o, "text": None})
            continue
        for j in range(4):
            v = gen_val(rng, 0, o)
            bl2 = [rng.choice(["a", "b", "cc"]) for _ in range(rng.choice([0, 0, 1, 2, 4]))]
            ol = None if rng.random() < 0.4 else [rng.choice(["a", "b"]) for _ in range(rng.randint(0, 3))]
            om = None if rng.random() < 0.4 else [(rng.choice(["k", "m"]), str(rng.randint(0, 9)))
                                                  for _ in range(rng.randint(0, 3))]
            bl = [str(rng.randint(0, 99)) for _ in range(rng.randint(0, 4))]
            if o['b_nullable']:
                bl = [None if rng.random() < 0.3 else x for x in bl]
                if bl == [None]:
                    bl = []          # a single omitted item is textually the empty list
            bm = [(rng.choice(["k", "m", "z"]), rng.choice(["v", "w", "k"]) if o['bm_same'] else str(rng.randint(0, 9)))
                  for _ in range(rng.choice([0, 0, 1, 2, 4]))]
            negative = False
            bad_target = None
            bad_tail = False
            if j == 3:
                n = count_containers(v)
                if n and rng.random() < 0.8:
                    bad_target = rng.randrange(n)
                elif bl and o['bdelim'] and not o['b_nullable']:
                    bad_tail = True
            text, rnd = build_text(rng, o, v, bl2, ol, om, bl, bad_target, bad_tail, bm)
            negative = rnd.bad_done
            ctx.count("final_delimiters_accepted", 0 if negative else rnd.final_delims)
            case = {"options": o, "text": text, "value": v, "bl2": bl2, "ol": ol, "om": om, "bl": bl,
                    "negative": negative, "bm": bm}
            judge(ctx, o, text, v, bl2, ol, om, bl, negative, case, bm)
            if i == 0 and j < 2:
                ctx.sample({"options": o, "text": text, "expected_value": repr(expect(v))[:300]})


def _detuple(v):
    """value from a replay file: lists that were tuples come back as tuples already (core.unjson)"""
    return v


def replay(ctx, case):
    family = [f for f in FAMILIES if f in (case.get("options") or {})]
    if family:
        import random
        for k in range(300):     # (the data is not recorded: the family is small, it is simply run again)
            FAMILIES[family[0]](ctx, random.Random(k))
        return
    om = case["om"]
    if om is not None:
        om = [tuple(x) for x in om]
    judge(ctx, case["options"], case["text"], case["value"], case["bl2"], case["ol"], om, case["bl"],
          case["negative"], case, [tuple(x) for x in case.get("bm", [])])
