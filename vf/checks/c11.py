"""C11 Pretty-printed JSON-like data reads back as the same data."""
import ast
import collections
import enum
import json

import vf
vf.use_repo()
from ak.ppobj import PrettyPrinter  # noqa: E402
from ak.color import ColorsConfig  # noqa: E402
from vf.core import sig_of  # noqa: E402

ID = "C11"
LEVEL = "exploration"
RULE = ("JSON-like values, depth <= 5: containers of length 0,1,2,3,5,12,30,45,70,120 and 'threshold' containers "
        "whose one-line rendering is steered to 185..215 columns (the one-line limit is 200) and whose element "
        "lines straddle 150 columns (the wrap limit), each placed at nesting offsets 0..10 by wrapping it into "
        "dicts/lists; element widths 1-9; strings without quote/backslash/control characters but with , : [ ] { } "
        "blanks and non-ASCII letters incl. characters outside the BMP; ints up to 10^20, negative numbers, floats incl. exponent forms, "
        "booleans, None, empty containers; Python mode also int keys mixed with str keys. Both modes, no_color, on long-lived printers that in 30% of the cases rendered "
        "the same value in colour just before. "
        "Oracle: json.loads / ast.literal_eval gives an equal value with equal types at every position, keys in "
        "sorted order (numbers before strings) at every level, line iteration joined by newline equals the "
        "whole text. Non-trivial = output containing a wrapped simple list (>= 2 element lines) or a one-line "
        "container of 190..199 columns; distinct by output text.")
ASSUMPTIONS = ["no NaN / infinities, no str keys equal up to type with int keys",
               "where lines break is not asserted (the property does not say), only that nothing is lost"]
TIERS = {
    "quick": {"shards": 8, "cases": 750, "timeout": 300},
    "thorough": {"shards": 16, "cases": 15000, "timeout": 3000},
}
FLOORS = {"quick": {"texts_taken_out_of_a_result_and_extended": 800,
                    "results_read_by_lines_after_their_whole_text_was_taken": 1400,
                    "distinct_nontrivial": 1500, "values_read_back": 10000, "multi_line_outputs": 3000,
                    "wrapped_simple_lists": 1000, "one_line_containers_near_limit": 300, "python_mode_int_keys": 200},
          "thorough": {"texts_taken_out_of_a_result_and_extended": 3400,
                       "results_read_by_lines_after_their_whole_text_was_taken": 5600,
                       "distinct_nontrivial": 60000, "values_read_back": 400000, "multi_line_outputs": 120000,
                       "wrapped_simple_lists": 40000, "one_line_containers_near_limit": 12000,
                       "python_mode_int_keys": 8000}}
LEVEL_TEXT = ("Runtime exploration with a round-trip oracle (print with the real pretty-printer, read back with the "
              "standard library's JSON parser / literal evaluator, compare values and types), the generator being "
              "steered to the two layout thresholds at every nesting offset.")
LEVEL_NOTE = "trusts json.loads and ast.literal_eval; depth <= 5, containers <= 120 elements"
TECHNIQUE = "runtime monitoring: print/parse round-trip oracle steered to layout thresholds"

# (U+2028 / U+2029 separate lines for str.splitlines, but are ordinary characters of a JSON or Python string)
# (... and characters that print nothing: a no-break space, a soft hyphen, a tag character of a flag emoji, a glyph of an
# icon font in the private-use planes)
CHARS = "abc xyzé,:[]{}中 '\U0001F600\U0001D4B3\u2028\u2029\xa0\xad\U000e0067\U000f0001\ue000"


DATA_LIKE_STRINGS = ["[]", "{}", "[1, 2]", "[[], {}]", " [null]", "[true, false]", "0", "null", "true", "{ }",
                     "None", "(1, 2)", "1e5", "NaN", "[1, 2.5, [3]]"]


def gen_str(rng, n=None):
    n = rng.choice([0, 1, 3, 8, 40, 40, 147, 148, 149, 150, 197, 260]) if n is None else n
    return "".join(rng.choice(CHARS) for _ in range(n))


def gen_scalar(rng, width=None):
    k = rng.random()
    if width is not None:
        if k < 0.5:
            return 10 ** (width - 1) + rng.randrange(10 ** (width - 1)) if width > 1 else rng.randrange(10)
        return gen_str(rng, max(0, width - 2))
    if k < 0.02:
        # strings all the same: members of a (str, Enum) mix-in, a str subclass with its own str()
        return rng.choice([Colour.RED, Colour.DARK, Loud("abc"), Loud("")])
    if k < 0.04:
        # ints all the same: members of an IntEnum of the application (json.dumps writes 200), an IntFlag
        return rng.choice([Status.OK, Status.GONE, Perm.R | Perm.W, Perm.R])
    if k < 0.07:
        # strings that READ like data (the body of a response kept as text): they are strings
        # (no quotes in them: the property is about strings without quote characters)
        return rng.choice(DATA_LIKE_STRINGS)
    if k < 0.25:
        return gen_str(rng)
    if k < 0.5:
        # (also ints no float can hold)
        return rng.choice([0, 1, -5, 123456789, 10 ** 20, -10 ** 15, rng.randrange(10 ** 6), 10 ** 400, -2 ** 1100,
                           2 ** 1024])
    if k < 0.65:
        return rng.choice([0.5, -1.25, 1e22, 1e-7, 3.0, -0.0, 2.5e-300, 123456.789])
    if k < 0.8:
        return rng.choice([True, False, None])
    # (empty containers, also of the dict classes of the collections module)
    return rng.choice([[], {}, [], {}, collections.OrderedDict(), collections.defaultdict(list), collections.Counter()])


def gen_threshold_list(rng):
    """simple list whose one-line length lands near 200 or which needs several lines"""
    target = rng.choice([rng.randint(185, 215), rng.randint(140, 160), rng.randint(290, 320), rng.randint(440, 470)])
    w = rng.choice([1, 2, 3, 5, 8, 9])
    items = []
    total = 0
    if rng.random() < 0.15:
        # an element that alone does not fit into a line, at the front / somewhere / at the end
        target = rng.randint(200, 420)
        long_one = gen_str(rng, rng.choice([146, 147, 148, 149, 150, 151, 180]))
        items = [gen_scalar(rng, rng.randint(1, 8)) for _ in range(rng.randint(0, 12))]
        items.insert(rng.choice([0, 0, len(items), rng.randint(0, len(items))]), long_one)
        return items
    while total < target:
        ww = w if rng.random() < 0.7 else rng.randint(1, 9)
        v = gen_scalar(rng, ww)
        items.append(v)
        total += len(json.dumps(v, ensure_ascii=False)) + 2
    return items


def gen_threshold_dict(rng):
    target = rng.randint(185, 215)
    d = {}
    total = 2
    i = 0
    while total < target:
        k = "k%d" % i if rng.random() < 0.7 else "key_" + "z" * rng.randint(1, 6) + str(i)
        v = gen_scalar(rng, rng.randint(1, 9))
        d[k] = v
        total += len(k) + 2 + 2 + len(json.dumps(v, ensure_ascii=False)) + 2
        i += 1
    items = list(d.items())
    rng.shuffle(items)
    return dict(items)


def gen(rng, d=0, jsonmode=True):
    r = rng.random()
    if d > 3 or r < 0.35:
        return gen_scalar(rng)
    if r < 0.5:
        return gen_threshold_list(rng) if rng.random() < 0.7 else gen_threshold_dict(rng)
    n = rng.choice([0, 1, 2, 3, 5, 12, 30, 45, 70, 120])
    if r < 0.6 and rng.random() < 0.3:
        # a long list of measurements and flags: numbers and booleans only
        return [rng.choice([0, 1, 7, 2.5, -3, True, False, 10 ** 6, 1e-3]) for _ in range(rng.choice([99, 100, 101, 102, 150]))]
    if r < 0.78:
        if rng.random() < 0.6:
            w = rng.choice([1, 2, 3, 5, 8])
            return [gen_scalar(rng, w) for _ in range(n)]
        return [gen(rng, d + 1, jsonmode) for _ in range(min(n, 6))]
    keys = ["k%d" % i if rng.random() < 0.7 else "key_%s" % ("z" * rng.randint(1, 9)) + str(i)
            for i in range(min(n, 40 if rng.random() < 0.6 else 100))]
    if not jsonmode and rng.random() < 0.4:
        # (a big dict keeps all its string keys next to the others)
        keys = (keys if len(keys) > 64 else keys[:3]) + [7, 3, 100, -2, 10 ** 12][:rng.randint(1, 5)]
        if rng.random() < 0.3:
            # neighbouring ints beyond what a float can tell apart (ids, timestamps in nanoseconds)
            base = rng.choice([2 ** 53, 2 ** 63, 10 ** 18 * 9, 2 ** 64])
            keys = keys + [base + 2, base + 1, base, base - 1][:rng.randint(2, 4)]
        # small ints and the keywords that are equal to them (never both in one dict), None
        extra = rng.choice([[0, 1], [True, False], [None, 1], [0, True], [False, 1, None], [2, 0], [None, True],
                            [None, True, False], [None, True]])
        keys = keys + extra[:rng.randint(1, len(extra))]
    if rng.random() < 0.12:
        # keys that agree in a long leading part (paths below one directory, qualified names of one package)
        stem = rng.choice(["/srv/data/projects/", "com.example.app.module."]) * rng.choice([4, 5, 7])
        keys = keys + [stem + t for t in rng.sample(["a", "b", "ab", "B", "", "a/1", "z" * 30], rng.randint(2, 4))]
    if rng.random() < 0.12:
        # keys spelled with combining marks and with the ready-made letters (different strings, whatever they look like)
        keys = keys + rng.sample(["caf\u00e9", "cafe\u0301", "e\u0301x", "f", "\u212b", "\u00c5", "A\u030a", "\u2126",
                                  "\u03a9", "e", "ez",
                                  # (characters beyond the first 65536 next to the last ones below: code point order)
                                  "\U0001f600", "\uff21", "\ufffd", "\U00020000x", "\ue000", "\U000e0067"], rng.randint(2, 6))
    if rng.random() < 0.06:
        keys = keys + [Colour.DARK, Loud("key")]
    rng.shuffle(keys)
    if rng.random() < 0.5:
        return {k: rng.choice([1, "v" * rng.randint(0, 12), None, 2.5, True, [], {}]) for k in keys}
    return {k: gen(rng, d + 1, jsonmode) for k in keys[:6]}


def alias(rng, value):
    """the same container OBJECT is referenced several times inside one value (no cycle)"""
    r = rng.random()
    if r < 0.4:
        return [value, value]
    if r < 0.7:
        return {"a": value, "b": value, "c": [value]}
    return [value, {"k": value}, value]


def wrap(rng, value, levels):
    """push the value to a deeper nesting offset"""
    for _ in range(levels):
        if rng.random() < 0.5:
            value = [value] if rng.random() < 0.5 else [rng.choice([1, "s"]), value, gen_scalar(rng)]
        else:
            value = {"w": value} if rng.random() < 0.5 else {"a": rng.choice([0, "t"]), "w": value, "z": None}
    return value


def sort_key(k):
    """numbers by value, then strings, then the keywords True / False / None by their spelling"""
    if k is None or isinstance(k, bool):
        return (3, str(k))
    return (0, k) if isinstance(k, (int, float)) else (1, k)


class Status(enum.IntEnum):
    OK = 200
    GONE = 410


class Perm(enum.IntFlag):
    R = 4
    W = 2


class Colour(str, enum.Enum):
    """the classic mix-in: members ARE strings (json.dumps writes "red")"""
    RED = "red"
    DARK = "dark blue"


class Loud(str):
    """a str subclass whose str() / format() differ from its characters"""

    def __str__(self):
        return "<<" + str.__str__(self).upper() + ">>"

    def __format__(self, spec):
        return "<<" + str.__str__(self).upper() + ">>"


def typed(o):
    if isinstance(o, dict):
        return ('d', sorted(((repr(str.__str__(k)) if isinstance(k, str) else repr(k), typed(v))
                             for k, v in o.items())))
    if isinstance(o, list):
        return ('l', [typed(v) for v in o])
    if isinstance(o, str):
        return ('str', str.__str__(o) if type(o) is not str else o)
    if isinstance(o, int) and not isinstance(o, bool):
        return ('int', int.__repr__(o))       # (members of an IntEnum / IntFlag are read back as the ints they are)
    return (type(o).__name__, repr(o))


_PRINTERS = {}
_PENDING = {}

ROUTES = ("no_color", "no_color", "palette_object", "palette_class", "colors_conf", "conf_and_palette_class",
          "global_config", "synced_palette_object")


def nc_kwargs(route):
    """the documented ways to ask a printer for a no-colour result"""
    if route == "palette_object":
        return dict(palette=PrettyPrinter.PPPalette(), no_color=True)
    if route == "synced_palette_object":
        # (the palette object that follows the global configuration)
        return dict(palette=PrettyPrinter.PPPalette(synced=True), no_color=True)
    if route == "palette_class":
        return dict(palette=PrettyPrinter.PPPalette, no_color=True)
    if route == "colors_conf":
        return dict(colors_conf=ColorsConfig(), no_color=True)
    if route == "conf_and_palette_class":
        return dict(colors_conf=ColorsConfig({'NUMBER': 'RED'}), palette=PrettyPrinter.PPPalette, no_color=True)
    return dict(no_color=True)


def judge(ctx, obj, jm, case):
    ctx.evaluated()
    nck = nc_kwargs(case.get("route", "no_color"))
    # long-lived printers (as the module-level `pp` of the package), sometimes used for a coloured
    # rendering of the same value first
    pp = _PRINTERS.get(jm)
    if pp is None or case.get("fresh_printer"):
        pp = _PRINTERS[jm] = PrettyPrinter(fmt_json=jm)
    try:
        if case.get("route") == "global_config":
            # the application-wide way: the program ran with colours (the printer was used), then colours are
            # switched off for the whole application (what std_app_configure does for --color never) and
            # results are asked for without any per-call argument
            from ak import color as akcolor
            akcolor.set_global_colors_config(ColorsConfig())
            try:
                str(pp(obj))
                akcolor.set_global_colors_config(ColorsConfig(no_color=True))
                txt_global = str(pp(obj))
                lines_global = [str(l) for l in pp(obj)]
            finally:
                akcolor.set_global_colors_config(None)
            ctx.count("no_colour_output_through_the_global_configuration")
            if txt_global != str(pp(obj, no_color=True)) or "\n".join(lines_global) != txt_global:
                ctx.violation("global-no-colour-output-differs-from-no-colour-output",
                              {"global": txt_global[:150]}, case)
        if case.get("coloured_first"):
            str(pp(obj))
            ctx.count("coloured_rendering_before_no_color")
        # the no-colour OUTPUT is what is parsed back: str(), not plain_text() (which would hide
        # escape sequences that leaked into a no-colour rendering)
        txt = str(pp(obj, **nck))
        lines = [str(l) for l in pp(obj, no_color=True)]
        # a result that nobody has looked at yet is asked for its length first (a writer that sends it in pieces of a
        # fixed size): the length of the text it gives afterwards
        fresh = pp(obj, no_color=True)
        n_fresh = len(fresh)
        pieces = "".join(str(fresh[k:k + 37]) for k in range(0, n_fresh, 37))
        ctx.count("results_asked_for_their_length_first")
        if n_fresh != len(txt) or pieces != txt:
            ctx.violation("length-asked-first-differs-from-the-text", {"len": n_fresh, "text_len": len(txt),
                                                                       "pieces_equal": pieces == txt}, case)
        # a result of an EARLIER call of this printer that nobody has rendered yet is rendered only now
        held = _PENDING.pop(jm, None)
        if held is not None and held[2] is pp:
            ctx.count("results_rendered_after_later_calls")
            late = str(held[0]) if len(txt) % 2 else "\n".join(str(l) for l in held[0])
            if late != held[1]:
                ctx.violation("result-rendered-later-shows-another-value",
                              {"expected": held[1][:150], "got": late[:150]}, case)
        _PENDING[jm] = (pp(obj, **nck), txt, pp)
    except Exception as err:
        ctx.violation("printing-raises", {"type": type(err).__name__, "msg": str(err)[:150]}, case)
        return
    if "\n".join(lines) != txt:
        ctx.violation("line-iteration-differs-from-whole-text", {"lines": len(lines)}, case)
    if len(lines) > 1:
        # a reader takes only the first lines of a result, then the result is used as a whole text
        try:
            part = pp(obj, no_color=True)
            it = iter(part)
            for _ in range(1 + len(txt) % min(3, len(lines) - 1)):
                next(it, None)
            whole = str(part)
        except Exception as err:
            ctx.violation("printing-raises", {"type": type(err).__name__, "msg": str(err)[:150]}, case)
            return
        ctx.count("results_used_as_text_after_partial_iteration")
        if whole != txt:
            ctx.violation("text-after-partial-iteration-differs", {"got": whole[:150], "expected": txt[:150]}, case)
    if len(txt) % 4 == 3:
        # a coloured result of the same value is compared with a fresh no-colour result (from either side): the
        # no-colour result stays a no-colour result
        try:
            coloured, plain = pp(obj), pp(obj, no_color=True)
            coloured == plain, plain != coloured
            after_cmp = str(plain)
        except Exception as err:
            ctx.violation("printing-raises", {"type": type(err).__name__, "msg": str(err)[:150]}, case)
            return
        ctx.count("no_colour_results_compared_with_coloured_ones")
        if after_cmp != txt:
            ctx.violation("comparing-results-changes-the-no-colour-output", {"got": after_cmp[:150], "expected": txt[:150]}, case)
    if len(txt) % 4 == 2:
        # the caller takes the text of a result as an object of its own and adds to it; the result stays what it was
        # (the text is taken by the documented accessor, as a whole-text slice, or as the sum with an empty text)
        try:
            kept = pp(obj, no_color=True)
            before = str(kept)
            how = len(txt) % 3
            mine = kept.get_ch_text() if how == 0 else kept[:len(txt) + 5000] if how == 1 else kept + ""
            mine += " -- seen"
            after = str(kept)
        except Exception as err:
            ctx.violation("printing-raises", {"type": type(err).__name__, "msg": str(err)[:150]}, case)
            return
        ctx.count("texts_taken_out_of_a_result_and_extended")
        if before != txt or after != txt or str(mine) != txt + " -- seen":
            ctx.violation("text-taken-from-a-result-shares-its-state", {"after": after[-60:], "copy": str(mine)[-60:]}, case)
    if len(txt) % 2 == 1:
        # one result object is used as a whole text first and read line by line afterwards
        try:
            both = pp(obj, no_color=True)
            first = str(both)
            n_chars = len(both)
            then_lines = [str(l) for l in both]
        except Exception as err:
            ctx.violation("printing-raises", {"type": type(err).__name__, "msg": str(err)[:150]}, case)
            return
        ctx.count("results_read_by_lines_after_their_whole_text_was_taken")
        if first != txt or n_chars != len(txt) or then_lines != lines:
            ctx.violation("lines-read-after-the-whole-text-differ", {"lines": then_lines[:4], "expected": lines[:4]}, case)
    if len(lines) > 1 and len(txt) % 3 == 1:
        # the line iteration of a no-colour result is suspended, the same printer renders the value in colours,
        # then the iteration goes on
        try:
            it = iter(pp(obj, no_color=True))
            got_lines = [str(next(it))]
            str(pp(obj))
            got_lines += [str(l) for l in it]
        except Exception as err:
            ctx.violation("printing-raises", {"type": type(err).__name__, "msg": str(err)[:150]}, case)
            return
        ctx.count("iterations_resumed_after_a_coloured_rendering")
        if "\n".join(got_lines) != txt:
            ctx.violation("interleaved-rendering-changes-the-text", {"got": "\n".join(got_lines)[:150]}, case)
    if isinstance(obj, (list, dict)) and len(txt) % 3 == 0:
        # the caller prints a container, changes it in place and prints it again
        import copy
        mut = copy.deepcopy(obj)
        try:
            str(pp(mut, no_color=True))
            if isinstance(mut, list):
                mut.append("added later")
            else:
                mut["zzz added later"] = [1]
            txt2 = str(pp(mut, no_color=True))
            back2 = json.loads(txt2) if jm else ast.literal_eval(txt2)
        except Exception as err:
            ctx.violation("output-does-not-parse", {"type": type(err).__name__, "msg": str(err)[:120],
                                                    "after": "the value was changed in place"}, case)
            return
        ctx.count("containers_printed_again_after_a_change_in_place")
        if back2 != mut:
            ctx.violation("read-back-value-differs", {"text": txt2[:300], "after": "the value was changed in place"}, case)
    try:
        # the line objects are kept first and rendered afterwards
        kept = list(pp(obj, no_color=True))
        later = "\n".join(str(l) for l in kept)
    except Exception as err:
        ctx.violation("printing-raises", {"type": type(err).__name__, "msg": str(err)[:150]}, case)
        return
    if later != txt:
        ctx.violation("kept-lines-differ-from-whole-text", {"lines": len(kept)}, case)
    if "\x1b" in txt:
        ctx.violation("no-color-output-contains-escape", {}, case)
    bad_order = []
    try:
        if jm:
            def hook(pairs):
                ks = [k for k, _ in pairs]
                if ks != sorted(ks, key=sort_key):
                    bad_order.append(ks[:8])
                if len(set(ks)) != len(ks):
                    bad_order.append(["duplicate"] + ks[:8])
                return dict(pairs)
            back = json.loads(txt, object_pairs_hook=hook)
        else:
            back = ast.literal_eval(txt)

            def chk(o):
                if isinstance(o, dict):
                    ks = list(o)
                    if ks != sorted(ks, key=sort_key):
                        bad_order.append(ks[:8])
                    for v in o.values():
                        chk(v)
                elif isinstance(o, list):
                    for v in o:
                        chk(v)
            chk(back)
    except Exception as err:
        ctx.violation("output-does-not-parse", {"type": type(err).__name__, "msg": str(err)[:120],
                                                "text": txt[:300]}, case)
        return
    ctx.count("values_read_back")
    if back != obj or typed(back) != typed(obj):
        ctx.violation("read-back-value-differs", {"text": txt[:400]}, case)
    if bad_order:
        ctx.violation("keys-not-in-sorted-order", {"keys": bad_order[0]}, case)
    # ---- what was exercised
    nontrivial = False
    if len(lines) > 1:
        ctx.count("multi_line_outputs")
    run = 0
    for ln in lines:
        s = ln.strip()
        is_elem_line = bool(s) and s[0] not in "[]{}" and not s.startswith('"') or (
            s.startswith('"') and '": ' not in s)
        if is_elem_line and ", " in s:
            run += 1
            if run == 2:
                ctx.count("wrapped_simple_lists")
                nontrivial = True
        else:
            run = 0
        if 190 <= len(ln) <= 199 and s[:1] in "[{\"" and s.rstrip(",")[-1:] in "]}":
            ctx.count("one_line_containers_near_limit")
            nontrivial = True
    if not jm and any(isinstance(k, int) for k in _all_keys(obj)):
        ctx.count("python_mode_int_keys")
    if nontrivial:
        ctx.nontrivial(sig_of(txt))


def _all_keys(o):
    if isinstance(o, dict):
        for k, v in o.items():
            yield k
            yield from _all_keys(v)
    elif isinstance(o, list):
        for v in o:
            yield from _all_keys(v)


def deep_nesting_case(ctx, depth):
    """containers nested hundreds of levels deep (a linked structure dumped as it is): the JSON-mode output parses to
    the value (the literal evaluator of python refuses such texts by itself: only JSON mode is driven)"""
    ctx.evaluated()
    value = []
    # (between 60 and 100 levels below the top some levels also hold a list of twenty codes of one width - what is
    # left of the line there is narrower than one of them)
    uniform = ["code-%02d" % i + "x" * (depth % 15) for i in range(20)]
    marks = {depth - 1 - lvl for lvl in (58, 63, 66, 70, 75, 77, 84, 99)}
    for k in range(depth):
        if k % 3:
            value = [value, k] + ([list(uniform)] if k in marks else [])
        else:
            value = dict({"next": value, "n": k}, **({"u": list(uniform)} if k in marks else {}))
    case = {"json_mode": True, "deep_nesting": depth}
    try:
        text = str(PrettyPrinter(fmt_json=True)(value, no_color=True))
    except (Exception, RecursionError) as err:
        ctx.violation("printing-raises", {"type": type(err).__name__, "msg": str(err)[:100], "nesting": depth}, case)
        return
    ctx.count("values_nested_hundreds_of_levels_deep")
    try:
        back = json.loads(text)
    except (Exception, RecursionError) as err:
        ctx.violation("output-does-not-parse", {"type": type(err).__name__, "msg": str(err)[:100], "nesting": depth}, case)
        return
    # (compared level by level: == on such a structure is recursive)
    a, b, level = value, back, 0
    while True:
        if type(a) is not type(b) or len(a) != len(b):
            break
        if isinstance(a, list) and a:
            if a[1:] != b[1:]:
                break
            a, b = a[0], b[0]
        elif isinstance(a, dict):
            if a["n"] != b.get("n") or list(b) != sorted(a) or a.get("u") != b.get("u"):
                break
            a, b = a["next"], b["next"]
        else:
            level = depth
            break
        level += 1
    if level != depth:
        ctx.violation("read-back-value-differs", {"nesting": depth, "first_difference_at_level": level}, case)


def run_shard(ctx):
    deep_nesting_case(ctx, (480, 700, 530, 860)[ctx.shard % 4])
    for i in range(ctx.cases):
        rng = ctx.rng(i)
        for jm in (True, False):
            inner = gen(rng, 0, jm)
            if rng.random() < 0.15 and isinstance(inner, (list, dict)):
                inner = alias(rng, inner)
            elif rng.random() < 0.1:
                small = rng.choice([{"x": 1}, {"k": "v", "n": None}, [1, 2], {"q": [], "p": {}}])
                inner = alias(rng, small)
            obj = wrap(rng, inner, rng.choice([0, 0, 1, 2, 3, 5]))
            if i % 25 == 3:
                # the whole value is one string that reads like data
                obj = DATA_LIKE_STRINGS[(i // 25) % len(DATA_LIKE_STRINGS)]
                ctx.count("values_that_are_one_string_reading_like_data")
            judge(ctx, obj, jm, {"json_mode": jm, "value": obj, "coloured_first": rng.random() < 0.3,
                                 "fresh_printer": rng.random() < 0.1, "route": rng.choice(ROUTES)})
            if i == 0:
                ctx.sample({"json_mode": jm, "value": repr(obj)[:300]})


def replay(ctx, case):
    if case.get("deep_nesting"):
        deep_nesting_case(ctx, case["deep_nesting"])
        return
    judge(ctx, case["value"], case["json_mode"], case)
    # (a later call with another value: results of the first that are still pending get rendered in it)
    judge(ctx, {"another": ["value", 1]}, case["json_mode"], dict(case, value={"another": ["value", 1]}))
