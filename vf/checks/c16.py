"""C16 Request ids are unique per connection under concurrent use."""
import collections
import dis
import http.client
import io
import logging
import random
import re
import urllib.error
import urllib.request
import sys
import threading
import time

import vf
vf.use_repo()
from ak import conn_http  # noqa: E402
from ak.mcaller_http import MCallerHttp, method_http  # noqa: E402
from vf.core import Inconclusive, sig_of  # noqa: E402

# building the real urllib opener loads the system certificates (35 ms per connection); the checks
# replace the opener by a recording fake anyway, so its construction is stubbed when possible
_CURRENT_OPENER = [None]


class _OpenerProxy:
    """what every connection implementation object gets as its opener: requests of implementation objects
    the code creates behind the scenes reach the recording opener of the running scenario as well"""

    def open(self, request):
        return _CURRENT_OPENER[0].open(request)


_impl = getattr(conn_http, "_HttpConnImpl", None)
_REAL_MAKE_OPENER = _impl.__dict__.get("_make_opener") if _impl is not None else None
if _impl is not None and hasattr(_impl, "_make_opener"):
    _impl._make_opener = staticmethod(lambda *args, **kwargs: _OpenerProxy())

ID = "C16"
LEVEL = "exploration"
RULE = ("workload 1 (stress): rounds of 4-8 threads x 40-60 requests over one base connection and connections "
        "derived from it (BAuthConn, path-prefix HttpConn, a connection derived from a derived one, a connection "
        "whose adapter supplies the caller's own ids, the connections an MCallerHttp clone hands to its methods per component), all five verbs, bodies of "
        "every kind, params, raw responses, every 10th request failing with HTTPError (it still consumes its number), "
        "a quarter of the rounds with DEBUG logging on, every 10th "
        "request carrying its own X-Request-ID (every 20th the empty string), three in ten re-using a headers dict the caller keeps; switch interval 1 microsecond and sys.monitoring LINE events "
        "local to _generate_request_id and do_request yielding the GIL (sleep(0)) with probability 1/2. "
        "Workload 2 (bounded schedule enumeration, pre-emption bound 1): for EVERY bytecode offset of "
        "_generate_request_id thread A is held at that offset by an INSTRUCTION-event callback until thread B's "
        "request (through the same or a derived connection) completed or 50 ms passed (B blocked on the lock); "
        "the wait only steers the schedule, it is never a verdict. Workload 4: 1500 (thorough 12000) fresh connections per shard whose first ids are requested by 2-3 threads "
        "at once under line-level yield injection. Workload 3: 10 400 (thorough 101 000) sequential requests over the "
        "base and derived connections (more than a four-digit field can count). A fake opener records every urllib Request "
        "under its own lock. Oracle (sequential counter model): generated ids pairwise distinct, their sequence "
        "numbers exactly 0..N-1, caller-supplied ids sent unchanged exactly once and not counted. Non-trivial = "
        "round whose order of threads by sequence number differs from all earlier rounds, or offset scenario in "
        "Workload 5: histories of 60 requests through the connection's OWN urllib opener (only the socket level is replaced by a handler "
        "that records every hop and answers /moved... with a redirect): every hop of a request carries that request's id, "
        "the caller's own ids (text or bytes) unchanged. Workload 6: one scenario per shard in which a thread is held for 6.5 s "
        "between reading and advancing the counter; calls refused before anything is sent take no number. "
        "which B really ran inside A's gap; distinct by that order / (offset, variant).")
ASSUMPTIONS = ["CPython with the GIL: pre-emption happens between bytecode instructions; INSTRUCTION-level steering "
               "covers every pre-emption point of the id generator with one forced pre-emption",
               "requests never reach the network: the opener of the shared implementation object is replaced"]
TIERS = {
    "quick": {"shards": 2, "cases": 12, "timeout": 300, "params": {"sweeps": 5}},
    "thorough": {"shards": 16, "cases": 60, "timeout": 3000, "params": {"sweeps": 3}},
}
FLOORS = {"quick": {"requests_through_connections_whose_adapter_supplies_the_id": 400,
                    "connections_described_between_requests": 180, "rounds_where_the_creating_thread_sends_requests": 6,
                    "distinct_nontrivial": 20, "requests_observed": 5000, "yields_injected": 2000,
                    "offsets_where_A_was_held": 40, "scenarios_where_B_ran_inside_gap": 10,
                    "distinct_interleavings": 10, "long_run_requests": 10001,
                    "holds_of_several_seconds_inside_the_generator": 1, "calls_refused_before_anything_was_sent": 20,
                    "redirects_followed": 60, "requests_through_the_real_opener": 200},
          "thorough": {"requests_through_connections_whose_adapter_supplies_the_id": 1700,
                       "connections_described_between_requests": 740, "rounds_where_the_creating_thread_sends_requests": 12,
                       "distinct_nontrivial": 300, "requests_observed": 200000, "yields_injected": 100000,
                       "offsets_where_A_was_held": 1500, "scenarios_where_B_ran_inside_gap": 400,
                       "distinct_interleavings": 400, "long_run_requests": 100001,
                       "holds_of_several_seconds_inside_the_generator": 4, "calls_refused_before_anything_was_sent": 500,
                       "redirects_followed": 1500, "requests_through_the_real_opener": 5000}}
LEVEL_TEXT = ("Runtime monitoring of real threads: an offline checker compares the recorded request history with a "
              "sequential counter model after (1) stress rounds with injected yields inside the id generator and (2) "
              "a systematic sweep that forces one pre-emption at every bytecode offset of the generator. The evidence "
              "reports offsets hit, scenarios where the second thread really overtook, and distinct interleavings.")
LEVEL_NOTE = ("Schedules with two or more forced pre-emptions inside the generator are only sampled (workload 1), not "
              "enumerated; free-threaded builds are out of scope.")
TECHNIQUE = "runtime monitoring: history checker vs sequential counter model; sys.monitoring yield injection and per-offset forced pre-emption"

TOOL = 4


class Resp:
    def __init__(self, method):
        self.data = b''
        self._method = method
        self.code = 200

    def __enter__(self):
        return self

    def __exit__(self, *a):
        pass

    def read(self):
        return self.data

    def getheaders(self):
        return {}


class ErrBody(io.BytesIO):
    """what http.client hands to HTTPError as its body"""

    def __init__(self, method):
        super().__init__(b"")
        self._method = method

    def getheaders(self):
        return []


class Opener:
    """records requests; its own state is protected by its own lock"""

    def __init__(self):
        self.reqs = []
        self.lock = threading.Lock()

    def open(self, request):
        with self.lock:
            self.reqs.append((threading.get_ident(), request))
        if request.full_url.endswith("/dropped"):
            # the server takes the request and closes the connection without an answer
            raise http.client.RemoteDisconnected("Remote end closed connection without response")
        if request.full_url.endswith("/unreachable"):
            # the server is not reached at all: the number is used up all the same
            raise urllib.error.URLError("no route to host")
        if request.full_url.endswith("/fail"):
            # a failed request has consumed its number like any other
            raise urllib.error.HTTPError(request.full_url, 500, "boom", {}, ErrBody(request.method))
        return Resp(request.method)


def request_id_of(request):
    for k, v in request.header_items():
        if k.lower() == 'x-request-id':
            return v
    return None


OWN_LOOK_ALIKES = set()


def is_own(x):
    """the caller's own ids: "own-..." (text, or bytes the caller has encoded itself), the empty string, and the ids the
    workload has made up to look like generated ones"""
    return x == "" or (isinstance(x, bytes) and x.startswith(b"own-")) or (isinstance(x, str) and x.startswith("own-")) \
        or (isinstance(x, str) and x in OWN_LOOK_ALIKES)


def own_id_for(i, k):
    if k % 20 != 3:
        return ""
    return ("own-%d-%d-\u00e9" % (i, k)).encode() if k % 40 == 23 else f"own-{i}-{k}"


def judge_history(ctx, reqs, n_own_expected, own_expected, case, tids=None, adapter_ids=None, n_lost=0):
    """the sequential counter model over a recorded history"""
    ids = [(tid, request_id_of(r)) for tid, r in reqs]
    ctx.count("requests_observed", len(ids))
    missing = [i for i, (_, x) in enumerate(ids) if x is None]
    if missing:
        ctx.violation("request-without-id", {"count": len(missing)}, case)
        return None
    # (the caller's own ids: "own-..." and the empty string)
    own = [x for _, x in ids if is_own(x)]
    gen = [(tid, x) for tid, x in ids if not is_own(x)]
    own_expected = list(own_expected) + list(adapter_ids or [])
    if sorted(own, key=repr) != sorted(own_expected, key=repr):
        ctx.violation("caller-supplied-id-not-sent-unchanged-exactly-once",
                      {"sent": len(own), "expected": len(own_expected)}, case)
    gen_ids = [x for _, x in gen]
    if len(set(gen_ids)) != len(gen_ids):
        dup = sorted(x for x in set(gen_ids) if gen_ids.count(x) > 1)[:3]
        ctx.violation("duplicate-request-id", {"duplicates": dup, "requests": len(gen_ids)}, case)
    try:
        seqs = [int(x.rsplit('-', 1)[1]) for x in gen_ids]
    except (ValueError, IndexError):
        ctx.violation("unparsable-request-id", {"sample": gen_ids[:3]}, case)
        return None
    if n_lost and len(set(seqs)) == len(seqs) and min(seqs, default=0) >= 0 and max(seqs, default=0) < len(seqs) + n_lost:
        # (calls that were refused after a number had been taken for them: up to that many numbers may be missing)
        pass
    elif sorted(seqs) != list(range(len(seqs))):
        srt = sorted(seqs)
        rep = sorted({s for s in seqs if seqs.count(s) > 1})[:5]
        gaps = [i for i in range(len(seqs)) if i not in set(seqs)][:5]
        ctx.violation("sequence-numbers-with-gaps-or-repeats",
                      {"requests": len(seqs), "repeated": rep, "missing": gaps, "max": srt[-1] if srt else None}, case)
    prefixes = {x.rsplit('-', 4)[0][:4] for x in gen_ids}
    if len(prefixes) > 1:
        ctx.violation("derived-connection-uses-another-id-generator", {"connection_parts": sorted(prefixes)}, case)
    order = [tid for _, tid in sorted(zip(seqs, [t for t, _ in gen]))]
    return order


class IdAdapter(conn_http.RequestAdapter):
    """the caller supplies its own ids through an adapter of a derived connection"""
    _counter = [0]
    _lock = threading.Lock()

    def __init__(self, issued):
        self.issued = issued

    def process_req_args(self, req_args):
        with self._lock:
            self._counter[0] += 1
            rid = "own-adapter-%d" % self._counter[0]
            self.issued.append(rid)
        req_args.headers['X-Request-ID'] = rid


class Caller16(MCallerHttp):
    """a method caller: its methods get their connections (per component, with a path prefix) from get_conn()"""
    _HTTP_PREFIX_MAP = {'billing': '/api/billing', 'plain': ''}

    @method_http('basic')
    def ping(self, **kw):
        """method without a component"""
        return self.get_conn().get("/p", **kw)

    @method_http('basic', 'billing')
    def invoice(self, **kw):
        """method of a component with a path prefix"""
        return self.get_conn().post("/p", **kw)

    @method_http('basic', 'plain')
    def plain(self, **kw):
        """method of a component without a prefix"""
        return self.get_conn().put("/p", **kw)


class CallerConn:
    """makes the methods of a method caller look like the verbs of a connection (for the workloads)"""

    def __init__(self, caller):
        self.caller = caller

    def get(self, path, **kw):
        return self.caller.ping(**kw) if path == "/p" else self.caller.http_conn.get(path, **kw)

    def post(self, path, **kw):
        return self.caller.invoice(**kw) if path == "/p" else self.caller.http_conn.post(path, **kw)

    def put(self, path, **kw):
        return self.caller.plain(**kw) if path == "/p" else self.caller.http_conn.put(path, **kw)

    delete = get
    patch = post


class ReplacingIdAdapter(IdAdapter):
    """an adapter that does not change the headers in place but puts a NEW dict (common headers merged with
    the request's) into the request arguments - its own id among them"""

    def process_req_args(self, req_args):
        with self._lock:
            self._counter[0] += 1
            rid = "own-adapter-%d" % self._counter[0]
            self.issued.append(rid)
        req_args.headers = dict({'X-Common': 'c'}, **req_args.headers, **{'X-Request-ID': rid})


class CIDict(dict):
    """headers in a case-insensitive container (requests style): its copy() is case-insensitive too"""

    def __init__(self, *args, **kwargs):
        super().__init__()
        for k, v in dict(*args, **kwargs).items():
            self[k] = v

    def __setitem__(self, k, v):
        super().__setitem__(k.lower(), v)

    def __getitem__(self, k):
        return super().__getitem__(k.lower())

    def __contains__(self, k):
        return super().__contains__(k.lower())

    def get(self, k, default=None):
        return super().get(k.lower(), default)

    def setdefault(self, k, default=None):
        return super().setdefault(k.lower(), default)

    def copy(self):
        return CIDict(self)


class HeaderBag:
    """headers in an ordered collection of pairs with the interface of a dict (as the header objects of web
    frameworks have) - which is no dict and no registered Mapping"""

    def __init__(self, pairs=()):
        self._pairs = [list(p) for p in pairs]

    def copy(self):
        return HeaderBag(self._pairs)

    def __len__(self):
        return len(self._pairs)

    def __iter__(self):
        return iter(self.keys())

    def __contains__(self, name):
        return any(n == name for n, _ in self._pairs)

    def __getitem__(self, name):
        for n, v in self._pairs:
            if n == name:
                return v
        raise KeyError(name)

    def get(self, name, default=None):
        return self[name] if name in self else default

    def __setitem__(self, name, value):
        for p in self._pairs:
            if p[0] == name:
                p[1] = value
                return
        self._pairs.append([name, value])

    def setdefault(self, name, default=None):
        if name not in self:
            self[name] = default
        return self[name]

    def keys(self):
        return [n for n, _ in self._pairs]

    def values(self):
        return [v for _, v in self._pairs]

    def items(self):
        return [(n, v) for n, v in self._pairs]


_MK = [0]


def mk_conns():
    # the underlying connection is described by an address, by a list or by a dictionary of arguments; the
    # connection whose adapter supplies the ids gets that adapter at construction or afterwards (add_adapter)
    _MK[0] += 1
    how = _MK[0] % 3
    base = conn_http.HttpConn("http://h" if how == 0 else ["http://h"] if how == 1 else {'address': "http://h"})
    op = Opener()
    _CURRENT_OPENER[0] = op
    base.conn_impl.opener = op
    d1 = conn_http.BAuthConn(base, "u", "p")
    d2 = conn_http.HttpConn(base, adapters=conn_http.RequestAdapterAddPathPrefix("/x"))
    d3 = conn_http.HttpConn(d2, adapters=conn_http.RequestAdapterAddPathPrefix("/y"))
    op.adapter_ids = []
    if _MK[0] % 2:
        d4 = conn_http.HttpConn(base, adapters=[IdAdapter(op.adapter_ids)])
    else:
        d4 = conn_http.HttpConn(base)
        d4.add_adapter(IdAdapter(op.adapter_ids))
    d5 = CallerConn(Caller16(base).clone(conn_http.BAuthConn.Adapter("u", "p")))
    d6 = conn_http.HttpConn(d1, adapters=[ReplacingIdAdapter(op.adapter_ids)])
    # (a clone of a method caller made without any adapter of its own - clone(), clone(None), clone([]))
    d7 = CallerConn(Caller16(base).clone(*([], [None], [[]])[_MK[0] % 3]))
    return op, [base, d1, d2, d3, d4, d5, d6, d7]


def codes():
    impl = getattr(conn_http, "_HttpConnImpl", None)
    gen = getattr(getattr(impl, "_generate_request_id", None), "__code__", None)
    do = getattr(getattr(impl, "do_request", None), "__code__", None)
    if gen is None or do is None:
        raise Inconclusive("_HttpConnImpl._generate_request_id / do_request not found: nothing to instrument")
    return gen, do


def first_requests_race(ctx, seed, rounds):
    """many fresh connections whose very first ids are requested by 2-3 threads at once, with
    yields injected at every line of the id generator (lazily created state is raced here)"""
    gen_code, do_code = codes()
    mon = sys.monitoring
    inj_rng = random.Random(seed)

    def on_line(code, line):
        if inj_rng.random() < 0.6:
            time.sleep(0)

    mon.use_tool_id(TOOL, "vf-c16")
    mon.register_callback(TOOL, mon.events.LINE, on_line)
    mon.set_local_events(TOOL, gen_code, mon.events.LINE)
    old_si = sys.getswitchinterval()
    sys.setswitchinterval(1e-6)
    try:
        for r in range(rounds):
            op, conns = mk_conns()
            n_threads = 2 + r % 2
            start = threading.Barrier(n_threads)
            errors = []

            def worker(i, conns=conns, start=start, errors=errors):
                try:
                    start.wait()
                    sel = [conns[j] for j in (0, 1, 2, 3, 5)]
                    sel[(i + r) % 5].get("/first")
                    sel[(i + r + 1) % 5].get("/second")
                except Exception as err:
                    errors.append(repr(err))

            threads = [threading.Thread(target=worker, args=(i,)) for i in range(n_threads)]
            for t in threads:
                t.start()
            for t in threads:
                t.join(30)
            case = {"workload": "first-requests", "seed": seed, "rounds": rounds}
            if errors:
                ctx.violation("request-raises-under-concurrency", {"errors": errors[:3]}, case)
                return
            ctx.count("fresh_connections_raced")
            if judge_history(ctx, op.reqs, None, [], case) is None:
                return
            if ctx.mech_counts.get("duplicate-request-id") or ctx.mech_counts.get("sequence-numbers-with-gaps-or-repeats"):
                return
    finally:
        sys.setswitchinterval(old_si)
        mon.set_local_events(TOOL, gen_code, 0)
        mon.register_callback(TOOL, mon.events.LINE, None)
        mon.free_tool_id(TOOL)


def uses_id_adapter(thread_index):
    return thread_index % 8 in (4, 6)      # the connections of mk_conns() whose adapters supply ids


def stress_round(ctx, seed, interleavings, case_no):
    rng = random.Random(seed)
    n_threads = rng.randint(4, 8)
    n_req = rng.randint(40, 60)
    op, conns = mk_conns()
    gen_code, do_code = codes()
    mon = sys.monitoring
    inj_rng = random.Random(seed + 1)
    injected = [0]

    def on_line(code, line):
        if inj_rng.random() < 0.5:
            injected[0] += 1
            time.sleep(0)

    mon.use_tool_id(TOOL, "vf-c16")
    mon.register_callback(TOOL, mon.events.LINE, on_line)
    mon.set_local_events(TOOL, gen_code, mon.events.LINE)
    mon.set_local_events(TOOL, do_code, mon.events.LINE)
    old_si = sys.getswitchinterval()
    sys.setswitchinterval(1e-6)
    start = threading.Barrier(n_threads)
    own_expected = []
    errors = []
    described = []
    refused = []
    dropped = []
    lost = []
    http_logger = logging.getLogger(conn_http.__name__)
    old_level = http_logger.level
    if case_no % 4 == 3:
        # requests and responses are written to the debug log (a NullHandler keeps it off the console)
        if not http_logger.handlers:
            http_logger.addHandler(logging.NullHandler())
        http_logger.propagate = False
        http_logger.setLevel(logging.DEBUG)

    def worker(i):
        c = conns[i % len(conns)]
        # a headers dict the caller keeps and passes again (it names the business operation the requests belong to:
        # many requests, also of other threads, carry the same value there)
        reused = {'X-Worker': str(i), 'X-Correlation-ID': "op-%d" % (i % 2), 'X-Trace-ID': "tr-%d" % seed}
        reused_empty = {}
        wrng = random.Random(seed * 31 + i)
        try:
            start.wait()
            for k in range(n_req):
                verb = (c.get, c.post, c.put, c.delete, c.patch)[wrng.randrange(5)]
                kw = {}
                if k % 10 == 7:
                    # the connection is described (log line, console) between two requests
                    described.append(len(str(c)) + len(repr(c)) + len("%s" % (c.conn_impl if hasattr(c, 'conn_impl') else c)))
                shape = wrng.randrange(8)
                if shape == 0:
                    kw['data'] = {'k': k}
                elif shape == 1:
                    kw['data'] = "text %d" % k
                elif shape == 2:
                    kw['data'] = b"bytes"
                elif shape == 3:
                    kw['params'] = {'q': str(k)}
                elif shape == 4:
                    kw['raw_response'] = True
                if k % 10 == 3 and not uses_id_adapter(i):
                    own_id = own_id_for(i, k)
                    # (the caller's headers may be a case-insensitive container, the key spelled in lower case)
                    try:
                        verb("/dropped" if k % 40 == 33 and 'params' not in kw else "/p",
                             headers=(CIDict({'x-request-id': own_id}) if k % 40 == 3 else
                                      HeaderBag([('X-Request-ID', own_id), ('X-Worker', str(i))]) if k % 40 == 13 else
                                      {'X-Request-ID': own_id}),
                             **kw)
                    except http.client.RemoteDisconnected:
                        dropped.append(1)       # (the caller is told; what was sent was sent once, with the caller's id)
                elif k % 10 == 2:
                    # headers in a mapping that never raises KeyError (no id of the caller's in it)
                    verb("/p", headers=collections.defaultdict(str, {'X-Worker': str(i)}), **kw)
                elif k % 10 == 6:
                    # (a headers dict the caller keeps that has nothing in it - and keeps having nothing in it)
                    verb("/p", headers=reused_empty, **kw)
                    if reused_empty:
                        errors.append("the caller's empty headers dict was filled: %r" % sorted(reused_empty))
                        reused_empty.clear()
                elif k % 10 in (5, 8):
                    verb("/p", headers=reused, **kw)
                elif k % 10 == 9 and 'params' not in kw:
                    try:
                        verb("/fail" if k % 20 == 9 else "/unreachable", **kw)
                    except urllib.error.URLError:     # (HTTPError is one)
                        pass
                elif k % 20 == 14 and not uses_id_adapter(i):
                    # a call whose body cannot be serialised (a set, an object of the application): the caller gets the
                    # TypeError, nothing is sent. Whether the number it had been given is lost is left open - but no
                    # request that IS sent may carry a number a second time
                    try:
                        verb("/p", data=({1, 2} if k % 40 == 14 else {'when': object()}))
                        errors.append("a body that cannot be serialised was accepted")
                    except TypeError:
                        lost.append(1)
                elif k % 10 == 4 and k % 20 == 4 and not uses_id_adapter(i):
                    # a call that is refused before anything is sent (the parameters cannot be url-encoded): it is no
                    # request and takes no number
                    try:
                        verb("/p", params=17)
                        errors.append("parameters that cannot be url-encoded were accepted")
                    except TypeError:
                        refused.append(1)
                else:
                    verb("/p", **kw)
        except Exception as err:  # pragma: no cover
            errors.append(repr(err))

    for i in range(n_threads):
        if not uses_id_adapter(i):
            own_expected.extend(own_id_for(i, k) for k in range(n_req) if k % 10 == 3)
    # (in every other round the thread that made the connections is one of the requesting threads)
    creator_works = case_no % 2 == 1
    threads = [threading.Thread(target=worker, args=(i,)) for i in range(1 if creator_works else 0, n_threads)]
    try:
        for t in threads:
            t.start()
        if creator_works:
            worker(0)
            ctx.count("rounds_where_the_creating_thread_sends_requests")
        for t in threads:
            t.join(120)
    finally:
        http_logger.setLevel(old_level)
        sys.setswitchinterval(old_si)
        mon.set_local_events(TOOL, gen_code, 0)
        mon.set_local_events(TOOL, do_code, 0)
        mon.register_callback(TOOL, mon.events.LINE, None)
        mon.free_tool_id(TOOL)
    case = {"workload": "stress", "seed": seed, "threads": n_threads, "requests_per_thread": n_req}
    if any(t.is_alive() for t in threads):
        ctx.inconclusive_note("stress round did not finish (threads still alive)")
        return
    if errors:
        ctx.violation("request-raises-under-concurrency", {"errors": errors[:3]}, case)
        return
    ctx.count("yields_injected", injected[0])
    ctx.count("connections_described_between_requests", len(described))
    ctx.count("calls_refused_before_anything_was_sent", len(refused))
    ctx.count("requests_whose_connection_was_dropped_by_the_server", len(dropped))
    through_id_adapters = sum(n_req for i in range(n_threads) if uses_id_adapter(i))
    ctx.count("requests_through_connections_whose_adapter_supplies_the_id", through_id_adapters)
    if len(op.adapter_ids) != through_id_adapters:
        # (the adapter of such a connection has to see every request of it: its ids are the caller's ids)
        ctx.violation("caller-supplied-id-not-sent-unchanged-exactly-once",
                      {"requests_through_the_id_supplying_connections": through_id_adapters,
                       "ids_the_adapter_was_asked_for": len(op.adapter_ids)}, case)
        return
    ctx.count("calls_refused_after_their_number_was_taken", len(lost))
    order = judge_history(ctx, op.reqs, None, own_expected, case, adapter_ids=op.adapter_ids, n_lost=len(lost))
    if order is not None:
        tid_index = {}
        sig = sig_of([tid_index.setdefault(t, len(tid_index)) for t in order])
        if sig not in interleavings:
            interleavings.add(sig)
            ctx.count("distinct_interleavings")
            ctx.nontrivial("interleaving:" + sig)
        if case_no == 0:
            ctx.sample({"workload": "stress", "threads": n_threads, "requests": len(op.reqs),
                        "first_ids_by_arrival": [request_id_of(r) for _, r in op.reqs[:6]],
                        "thread_order_by_sequence_number(first 30)":
                            [tid_index[t] for t in order[:30]]})


def long_run(ctx, n_requests):
    """more AUTOMATICALLY NUMBERED requests on one underlying connection than any fixed-width field of the id
    can count (requests with the caller's own ids do not count)"""
    op, conns = mk_conns()
    own = []
    numbered = 0
    k = 0
    try:
        while numbered < n_requests:
            c = conns[k % len(conns)]
            via_adapter = k % len(conns) in (4, 6)
            if via_adapter and k % 50:
                c = conns[0]          # the id-supplying connection only now and then
                via_adapter = False
            if k % 1000 == 7 and not via_adapter:
                own.append(f"own-long-{k}")
                c.get("/l", headers={'X-Request-ID': own[-1]})
            else:
                c.get("/l")
                numbered += 0 if via_adapter else 1
            k += 1
    except Exception as err:
        ctx.violation("request-raises-under-concurrency", {"errors": [repr(err)]},
                      {"workload": "long", "requests": n_requests})
        return
    ctx.count("long_run_requests", numbered)
    judge_history(ctx, op.reqs, None, own, {"workload": "long", "requests": n_requests}, adapter_ids=op.adapter_ids)


def independent_roots(ctx):
    """connections created independently of each other - also for one and the same address - are different
    connections: each numbers its own requests 0, 1, 2, ... whatever the others do"""
    for addr_a, addr_b in (("https://h.example", "https://h.example"), ("https://h.example/", "https://h.example"),
                           ("http://h.example", "http://h.example"), ("https://h.example", "http://h.example")):
        ctx.evaluated()
        a = conn_http.HttpConn(addr_a)
        b = conn_http.BAuthConn(addr_b, "u", "p")
        op_a, op_b = Opener(), Opener()
        a.conn_impl.opener = op_a
        b.conn_impl.opener = op_b
        n_a = n_b = 0
        for k in range(40):
            if k % 3 == 1:
                b.get("/p")
                n_b += 1
            else:
                a.post("/p")
                n_a += 1
        case = {"workload": "independent-roots", "addresses": [addr_a, addr_b]}
        ctx.count("independent_connection_pairs")
        for op, n in ((op_a, n_a), (op_b, n_b)):
            if len(op.reqs) != n:
                ctx.violation("independent-connections-share-an-implementation",
                              {"requests_made": n, "requests_seen": len(op.reqs), "addresses": [addr_a, addr_b]}, case)
                break
            judge_history(ctx, op.reqs, None, [], case)


class WireHandler(urllib.request.BaseHandler):
    """stands where the socket would be: the LAST handler of the connection's own urllib opener. Every request
    that would go to the network - also the follow-up request of a redirect - is recorded; paths starting
    with /moved are answered with a redirect"""
    handler_order = 100         # (in front of the real HTTPHandler, which is never reached)

    def __init__(self):
        self.hops = []

    def http_open(self, req):
        import email.message
        import urllib.response
        self.hops.append(req)
        hdrs = email.message.Message()
        path = req.full_url.split("h.example", 1)[-1]
        code = 200
        if path.startswith("/moved"):
            code = (301, 302, 303, 307)[len(self.hops) % 4]
            hdrs['Location'] = "http://h.example/final" + path[len("/moved"):]
        hdrs['Content-Type'] = "application/json"
        resp = urllib.response.addinfourl(io.BytesIO(b"{}"), hdrs, req.full_url, code)
        resp.msg = "OK" if code == 200 else "Moved"
        resp.getheaders = lambda: list(hdrs.items())
        resp._method = req.get_method()         # (as http.client.HTTPResponse has it)
        return resp

    https_open = http_open


def redirect_history(ctx, seed):
    """requests that go through the connection's OWN urllib opener (only the socket is replaced): the server answers
    some of them with a redirect, urllib follows it. Whatever hop of a request carries an id carries the id of that
    request - the caller's own one if the caller gave one - and own ids still use up no number"""
    if _REAL_MAKE_OPENER is None:
        return
    rng = random.Random(seed)
    stub = _impl.__dict__["_make_opener"]
    _impl._make_opener = _REAL_MAKE_OPENER
    try:
        base = conn_http.HttpConn("http://h.example")
    finally:
        _impl._make_opener = stub
    wire = WireHandler()
    try:
        base.conn_impl.opener.add_handler(wire)
    except AttributeError:
        ctx.inconclusive_note("the connection has no urllib opener to attach the wire handler to")
        return
    conns = [base, conn_http.BAuthConn(base, "u", "p"),
             conn_http.HttpConn(base, adapters=conn_http.RequestAdapterAddPathPrefix("/moved"))]
    case = {"workload": "redirects", "seed": seed}
    first_hops, own = [], []
    for k in range(60):
        c = conns[rng.randrange(3)]
        path = rng.choice(["/p", "/p", "/moved/here", "/moved"])
        verb = rng.choice(["get", "get", "delete", "post"])
        kw = {}
        own_id = None
        if rng.random() < 0.3:
            own_id = "own-r-%d" % k
            seen_ids = [request_id_of(h) for _, h in first_hops if not is_own(request_id_of(h))]
            if k % 7 == 3 and seen_ids:
                # the caller's id is spelled like the ids this connection makes itself, with a number far ahead (a
                # replayed log line, an id of another process with the same prefix)
                m = re.fullmatch(r"(.{4})(\d{4})(.*?)(\d+)", seen_ids[-1])
                if m:
                    ahead = int(m.group(4)) + 5000 + k
                    own_id = "%s%04d%s%0*d" % (m.group(1), ahead % 10000, m.group(3), len(m.group(4)), ahead)
                    OWN_LOOK_ALIKES.add(own_id)
                    ctx.count("own_ids_spelled_like_generated_ones")
            kw['headers'] = {'X-Request-ID': own_id}
        n0 = len(wire.hops)
        try:
            getattr(c, verb)(path, **kw)
        except urllib.error.HTTPError:
            pass        # (urllib does not follow every redirect of every verb: the caller gets the error)
        except Exception as err:
            ctx.violation("request-raises-under-concurrency", {"errors": [repr(err)]}, case)
            return
        hops = wire.hops[n0:]
        if not hops:
            ctx.violation("request-without-id", {"count": 1, "note": "nothing reached the wire"}, case)
            return
        ctx.count("requests_through_the_real_opener")
        first_hops.append((0, hops[0]))
        if own_id is not None:
            own.append(own_id)
        if len(hops) > 1:
            ctx.count("redirects_followed")
            first = request_id_of(hops[0])
            for h in hops[1:]:
                rid = request_id_of(h)
                if rid is not None and rid != first:
                    ctx.violation("caller-supplied-id-not-sent-unchanged-exactly-once" if own_id is not None else
                                  "redirected-request-changes-its-id",
                                  {"first_hop": first, "later_hop": rid, "verb": verb, "path": path}, case)
                    return
    judge_history(ctx, first_hops, None, own, case)


def offset_scenario(ctx, off, variant, hold=0.05):
    """thread A is held at bytecode offset `off` of the id generator while B issues a request; A is held for
    `hold` seconds at most (a thread may be descheduled for seconds on a loaded or suspended machine)"""
    made = {}

    def make():
        made['op'], conns = mk_conns()
        made['a'] = conns[0]
        made['b'] = conns[0] if variant in ("same-connection", "raw-threads", "creator-thread") else \
            conns[2] if variant == "derived" else conns[3]
    if variant != "creator-thread":
        make()
    gen_code, _ = codes()
    mon = sys.monitoring
    b_done = threading.Event()
    go_b = threading.Event()
    state = {'hit': False, 'b_in_gap': None}
    a_tid = [None]
    errors = []

    def on_instr(code, offset):
        if offset == off and not state['hit'] and threading.get_ident() == a_tid[0]:
            state['hit'] = True
            go_b.set()
            state['b_in_gap'] = b_done.wait(hold)   # steering only, never a verdict

    mon.use_tool_id(TOOL, "vf-c16")
    mon.register_callback(TOOL, mon.events.INSTRUCTION, on_instr)
    mon.set_local_events(TOOL, gen_code, mon.events.INSTRUCTION)

    def thread_a():
        a_tid[0] = threading.get_ident()
        try:
            if variant == "creator-thread":
                make()          # the thread that is held inside the generator is the one that made the connection
            conn_a = made['a']
            conn_a.get("/a")
            go_b.set()          # offset never reached: let B go anyway
            conn_a.get("/a2", headers={'X-Request-ID': "own-a"})
            conn_a.get("/a3")
        except Exception as err:
            errors.append(repr(err))
            go_b.set()

    def thread_b():
        go_b.wait(5.0)
        try:
            conn_b = made['b']
            conn_b.get("/b")
            b_done.set()
            conn_b.get("/b2")
        except Exception as err:
            errors.append(repr(err))
            b_done.set()

    raw = variant.startswith("raw-threads")
    if raw:
        # threads the threading module does not know about (as started by an embedding application)
        import _thread

        class RawThread:
            def __init__(self, fn):
                self.fn, self.done = fn, threading.Event()

            def start(self):
                def run():
                    try:
                        self.fn()
                    finally:
                        self.done.set()
                _thread.start_new_thread(run, ())

            def join(self, timeout):
                self.done.wait(timeout)

            def is_alive(self):
                return not self.done.is_set()
        ta, tb = RawThread(thread_a), RawThread(thread_b)
    else:
        ta, tb = threading.Thread(target=thread_a), threading.Thread(target=thread_b)
    try:
        tb.start()
        ta.start()
        ta.join(30 + hold)
        tb.join(30 + hold)
    finally:
        mon.set_local_events(TOOL, gen_code, 0)
        mon.register_callback(TOOL, mon.events.INSTRUCTION, None)
        mon.free_tool_id(TOOL)
    case = {"workload": "offset", "offset": off, "variant": variant, "hold": hold}
    if ta.is_alive() or tb.is_alive():
        ctx.inconclusive_note(f"offset scenario {off} did not finish")
        return
    if errors:
        ctx.violation("request-raises-under-concurrency", {"errors": errors[:3]}, case)
        return
    if state['hit']:
        ctx.count("offsets_where_A_was_held")
        if hold > 1:
            ctx.count("holds_of_several_seconds_inside_the_generator")
    if state['b_in_gap']:
        ctx.count("scenarios_where_B_ran_inside_gap")
        ctx.nontrivial(f"offset:{off}:{variant}")
    op = made['op']
    judge_history(ctx, op.reqs, None, ["own-a"], case, adapter_ids=op.adapter_ids)


def run_shard(ctx):
    gen_code, _ = codes()
    offsets = [i.offset for i in dis.get_instructions(gen_code)]
    ctx.counters["bytecode_offsets_of_id_generator"] = len(offsets) if ctx.shard == 0 else 0
    interleavings = set()
    for i in range(ctx.cases):
        ctx.evaluated()
        stress_round(ctx, hash((ctx.seed, ctx.shard, i)) & 0xffffffff, interleavings, i)
    for k in range(3 if ctx.tier == "quick" else 10):
        ctx.evaluated()
        redirect_history(ctx, hash((ctx.seed, ctx.shard, "redirects", k)) & 0xffffffff)
    if ctx.shard == 0:
        independent_roots(ctx)
        ctx.evaluated()
        long_run(ctx, 10400 if ctx.tier == "quick" else 101000)
    ctx.evaluated()
    first_requests_race(ctx, hash((ctx.seed, ctx.shard, 77)) & 0xffffffff, 1500 if ctx.tier == "quick" else 12000)
    variants = ["same-connection", "derived", "derived-of-derived", "raw-threads", "creator-thread"]
    for sweep in range(int(ctx.params.get("sweeps", 1))):
        variant = variants[(ctx.shard * 2 + ctx.seed + sweep) % len(variants)]
        for off in offsets:
            ctx.evaluated()
            offset_scenario(ctx, off, variant)
    if ctx.shard == 0 or ctx.tier != "quick":
        # a thread that stays for seconds between reading and advancing the counter (every other thread has to
        # wait for it, however long it takes)
        names = [(i.offset, i.argval) for i in dis.get_instructions(gen_code)]
        touching = [k for k, (_, name) in enumerate(names) if name == '_cur_req_id']
        k = touching[0] + 1 + ctx.shard % 2 if touching else len(names) // 2
        ctx.evaluated()
        offset_scenario(ctx, names[min(k, len(names) - 1)][0], variants[(ctx.shard + ctx.seed) % 3], hold=6.5)
    if ctx.shard == 0:
        ctx.sample({"workload": "offset sweep", "offsets": offsets[:12] + ["..."], "variants": variants})


def replay(ctx, case):
    ctx.evaluated()
    if case["workload"] == "independent-roots":
        independent_roots(ctx)
    elif case["workload"] == "redirects":
        redirect_history(ctx, case["seed"])
    elif case["workload"] == "first-requests":
        first_requests_race(ctx, case["seed"], case["rounds"])
    elif case["workload"] == "long":
        long_run(ctx, case["requests"])
    elif case["workload"] == "stress":
        for k in range(5):
            stress_round(ctx, case["seed"] + k * 7919, set(), 1)
    else:
        for _ in range(3):
            offset_scenario(ctx, case["offset"], case["variant"], case.get("hold", 0.05))
