"""Mock of the GitPython surface that ak.ghist uses (commit DAGs with several roots allowed)."""
import io
import json
import re
from hashlib import sha1

import vf
vf.use_repo()
from ak.ghist import ProjectRepo, BuildNumData, GitRepo, RepoBuildsBySavedBuildNumDetector  # noqa: E402


class Blob:
    def __init__(self, contents):
        self.data = contents.encode()
        self.hexsha = sha1(self.data).hexdigest()

    @property
    def data_stream(self):
        return io.BytesIO(self.data)


class Tree:
    def __init__(self, files):
        self.files = {p: Blob(c) for p, c in files.items()}

    def __truediv__(self, path):
        return self.files[path]


class Author:
    def __init__(self, name):
        self.name = name


class Commit:
    def __init__(self, repo_name, cid, parents, message, ts, files):
        self.intid = cid
        self.hexsha = sha1(f"{repo_name}:{cid}".encode()).hexdigest()
        self.parents = parents
        self.message = message
        self.committed_date = ts
        self.author = Author("auth%d" % (cid % 3))
        self.tree = Tree(files)

    def __repr__(self):
        return f"C{self.intid}"


class Ref:
    def __init__(self, name, commit):
        self.name = name
        self.commit = commit


class Remote:
    def __init__(self, refs):
        self.refs = refs

    def fetch(self):
        pass


class Repo:
    """commits {cid: Commit}; branches {"origin/release/1.0": cid}; tags {tagname: cid}"""

    def __init__(self, name, commits, branches, tags, remote='origin', decoys=None, other_tags=None):
        """branches are always NAMED "origin/..." here (the oracles use these names); with remote='upstream' the
        repository presents them as branches of the remote 'upstream' and `decoys` ({"origin/master": cid}) as the
        branches of an unrelated remote 'origin'"""
        self.name = name
        self.git_dir = "/mock/" + name
        self.commits = commits
        self.by_hex = {c.hexsha: c for c in commits.values()}
        self.remote = remote
        self.decoys = dict(decoys or {})
        self.refs = {}
        self.tags = dict(tags)
        self.branches = dict(branches)
        for t, cid in tags.items():
            self.refs["refs/tags/" + t] = commits[cid]
        # tags that are no build tags (they only look similar): known to git, unknown to the oracles
        self.other_tags = dict(other_tags or {})
        for t, cid in self.other_tags.items():
            self.refs["refs/tags/" + t] = commits[cid]
        self._publish_branches()

    def _real(self, b):
        return self.remote + b[len("origin"):]

    def _publish_branches(self):
        for k in [k for k in self.refs if k.startswith("refs/remotes/")]:
            del self.refs[k]
        for b, cid in self.branches.items():
            self.refs["refs/remotes/" + self._real(b)] = self.commits[cid]
        self.remotes = {self.remote: Remote([Ref(self._real(b), self.commits[cid])
                                             for b, cid in sorted(self.branches.items())])}
        if self.remote != 'origin':
            for b, cid in self.decoys.items():
                self.refs["refs/remotes/" + b] = self.commits[cid]
            self.remotes['origin'] = Remote([Ref(b, self.commits[cid]) for b, cid in sorted(self.decoys.items())])

    def add_tag(self, name, cid):
        """a tag that appears later (as after a fetch)"""
        self.refs["refs/tags/" + name] = self.commits[cid]
        self.tags[name] = cid

    def add_commit(self, cid, parent_cids, message, ts, files, branch=None):
        """a commit that arrives later (as after a fetch); optionally the new head of a branch"""
        c = Commit(self.name, cid, [self.commits[p] for p in parent_cids], message, ts, files)
        self.commits[cid] = c
        self.by_hex[c.hexsha] = c
        if branch is not None:
            self.branches[branch] = cid
            self._publish_branches()
        return c

    def commit(self, hexsha):
        return self.by_hex[hexsha]

    def iter_refs(self, *prefixes):
        for n, c in self.refs.items():
            if any(n.startswith(p) for p in prefixes):
                yield n, c.hexsha


class TRepo(ProjectRepo):
    _SAVED_BUILD_NUM_SOURCES = ["VERSION"]

    def _read_saved_build_num_from_file(self, blob, path):
        nums = [int(x) for x in blob.data_stream.read().decode().strip().split('.')]
        if len(nums) == 2:
            nums.append(None)
        return BuildNumData(*nums)


class DiskRefsRepo(GitRepo):
    """GitRepo that reads its refs from a real .git directory (GitRepo.iter_refs, the production code) while
    the commit objects come from a mock repository.  Loose ref files are resolved the way GitPython resolves
    them: the file's value names a commit, or a tag object that is peeled to the tagged commit"""

    def __init__(self, mock_repo, git_dir):
        # (git.Repo's constructor is not called: there is no object database)
        self.__dict__['git_dir'] = git_dir
        self.__dict__['_mock'] = mock_repo
        self.__dict__['_tag_objects'] = {}     # hexsha of a tag object -> hexsha of the tagged commit
        self.__dict__['loose_lookups'] = 0

    remotes = property(lambda self: self._mock.remotes)

    def commit(self, hexsha):
        return self._mock.commit(hexsha)

    def get_ref_commit(self, ref_name):
        import os
        with open(os.path.join(self.git_dir, ref_name)) as f:
            value = f.read().strip()
        self.__dict__['loose_lookups'] += 1
        return self._mock.commit(self._tag_objects.get(value, value))


def write_packed_refs(repo, git_dir, rng, loose=0.0, disk_repo=None):
    """the state of .git after 'git pack-refs --all'; about half of the tags are annotated tags (the ref names a
    tag object, the tagged commit follows in a '^' line).  With loose > 0 that share of the refs changed after
    the packing (a fetch): they are loose files under refs/, and half of those still have a - stale - line in
    packed-refs, which git ignores.  Returns the number of annotated tags, or with loose > 0
    (annotated, loose files, stale packed lines, loose annotated tags)."""
    import os
    lines = ["# pack-refs with: peeled fully-peeled sorted "]
    annotated = n_loose = n_stale = n_loose_ann = 0
    hexes = sorted(repo.by_hex)
    for ref in sorted(repo.refs):
        sha = repo.refs[ref].hexsha
        is_ann = ref.startswith("refs/tags/") and rng.random() < 0.5
        tagobj = sha1(("tag object " + ref).encode()).hexdigest()
        packed_sha = sha
        if loose and rng.random() < loose:
            n_loose += 1
            path = os.path.join(git_dir, ref)
            os.makedirs(os.path.dirname(path), exist_ok=True)
            with open(path, "w") as f:
                f.write((tagobj if is_ann else sha) + "\n")
            if is_ann:
                n_loose_ann += 1
                disk_repo._tag_objects[tagobj] = sha
            if rng.random() < 0.5:
                continue                      # created after the packing: no packed line at all
            others = [h for h in hexes if h != sha]
            if not others:
                continue
            n_stale += 1
            packed_sha = rng.choice(others)   # where the ref pointed when the refs were packed
            is_ann = is_ann and rng.random() < 0.5
        if is_ann:
            annotated += 1
            lines.append("%s %s" % (tagobj if packed_sha == sha else sha1(("old tag object " + ref).encode()).hexdigest(), ref))
            lines.append("^" + packed_sha)
        else:
            lines.append("%s %s" % (packed_sha, ref))
    # (every third file was written by a tool that does not sort: the header does not claim it, the entries - a ref
    # line with its optional '^' line - come in another order, refs of different namespaces mixed)
    if int(sha1(git_dir.encode()).hexdigest(), 16) % 3 == 0 or len(lines) % 3 == 0:
        entries, k = [], 1
        while k < len(lines):
            n = 2 if k + 1 < len(lines) and lines[k + 1].startswith("^") else 1
            entries.append(lines[k:k + n])
            k += n
        entries.sort(key=lambda e: sha1(e[0].encode()).hexdigest())
        lines = ["# pack-refs with: peeled fully-peeled "] + [x for e in entries for x in e]
    with open(os.path.join(git_dir, "packed-refs"), "w") as f:
        f.write("\n".join(lines) + "\n")
    if loose:
        return annotated, n_loose, n_stale, n_loose_ann
    return annotated


def disk_refs_repo(mock_repo, git_dir, refs_seed, loose):
    """(DiskRefsRepo over a .git directory written now for `mock_repo`, the statistics of write_packed_refs)"""
    import os
    import random
    import shutil
    shutil.rmtree(git_dir, ignore_errors=True)
    os.makedirs(git_dir)
    disk_repo = DiskRefsRepo(mock_repo, git_dir)
    stats = write_packed_refs(mock_repo, git_dir, random.Random(refs_seed), loose or 1e-12, disk_repo)
    return disk_repo, stats


class TRepoHook(TRepo):
    """a project whose build tags look like 'lib-1.2-b13': it overrides the documented hook that turns a tag into
    build numbers (major and minor are in the tag, the patch number is the build number)"""

    @classmethod
    def parse_buildtag(cls, tag_str):
        m = re.match(r"lib-(\d+)\.(\d+)-b(\d+)$", tag_str)
        if m is None:
            return None
        return BuildNumData(int(m.group(1)), int(m.group(2)), None, build=int(m.group(3)))


class TRepoHookNamed(TRepoHook):
    """... and the hook also reports the documented optional name of the version line"""

    @classmethod
    def parse_buildtag(cls, tag_str):
        bn = super().parse_buildtag(tag_str)
        if bn is not None:
            bn.version_name = "LTS"
        return bn


class TRepoCI(TRepo):
    """a project whose build tags follow its own pattern (the class-level pattern is the customisation point)"""
    _RE_BUILD_TAG = re.compile(r"ci-(?P<build>\d+)-(?P<branch>.*)-ok$")


def repo_for(repo_id, repo, remote=None):
    """the ProjectRepo class matching the tag format used in the mock repository, for the remote it publishes"""
    cls = TRepoCI if any(t.startswith("ci-") for t in repo.tags) else TRepo
    return cls(repo_id, repo, remote or getattr(repo, 'remote', 'origin'))


class TRepoSaved(TRepo):
    """a project without build tags: a commit is a build when the build number saved in its VERSION file
    differs from the numbers of all its parents (the module's alternative builds detector)"""

    def make_builds_detector(self):
        return RepoBuildsBySavedBuildNumDetector(self)


class TRepoTwoSources(TRepo):
    """the version moved to VERSION at some time; the old file is still looked at first and, where present, is
    only a note for humans (reading it fails: the next location is used)"""
    _SAVED_BUILD_NUM_SOURCES = ["version.txt", "VERSION"]


class TRepoSavedTwoSources(TRepoSaved):
    _SAVED_BUILD_NUM_SOURCES = ["version.txt", "VERSION"]


def component_repo_for(repo_id, repo, remote='origin'):
    saved = not repo.tags and any(c.tree.files.get("VERSION") is not None and
                                  c.tree.files["VERSION"].data.count(b".") == 2 for c in repo.commits.values())
    if any(t.startswith("lib-") for t in repo.tags):
        return (TRepoHookNamed if len(repo.commits) % 2 else TRepoHook)(repo_id, repo, remote)
    two = any("version.txt" in c.tree.files for c in repo.commits.values())
    if two:
        return (TRepoSavedTwoSources if saved else TRepoTwoSources)(repo_id, repo, remote)
    return (TRepoSaved if saved else TRepo)(repo_id, repo, remote)


class PRepo(TRepo):
    """repository which pins the version of component 'comp' in file DEPENDS"""
    _COMPONENTS_VERSIONS_LOCATIONS = {'comp': 'DEPENDS'}

    def read_components_from_file(self, v_file_path, blob):
        d = json.load(blob.data_stream)
        return {k: [int(x) for x in v.split('.')] for k, v in d.items()}


class PRepo2(PRepo):
    """pins two components in the same file"""
    _COMPONENTS_VERSIONS_LOCATIONS = {'comp': 'DEPENDS', 'comp2': 'DEPENDS'}


def ancestors(commit):
    seen = {}
    todo = [commit]
    while todo:
        x = todo.pop()
        if x.intid in seen:
            continue
        seen[x.intid] = x
        todo.extend(x.parents)
    return set(seen)


def branch_sort_key(name):
    """independent numeric-aware key; master / main last"""
    short = name[len("origin/"):]
    if short in ("master", "main"):
        return (1, [])
    items = []
    for ch in re.split(r"[/._\-\s]+", name):
        if ch == "":
            continue
        # (a number is what is written in decimal digits - of whatever script)
        items.append((0, int(ch), "") if ch.isdecimal() else (1, 0, ch))
    return (0, items)


def short_branch(b):
    return "master" if b in ("origin/master", "origin/main") else b[len("origin/"):]


def branch_oracle(repo, lower_trunk=None, ties_reversed=False):
    """-> order (ascending), {branch: {builds, anc, lower, head}}; lower_trunk: which of two coexisting trunks
    (origin/main, origin/master) is taken as the lower-sorted one"""
    # (named "origin/..." whatever the remote; only the trunk and the release branches are reported: a ref such as
    # origin/release-notes or origin/feature/x is somebody's work in progress)
    heads = {b: repo.commits[cid] for b, cid in repo.branches.items()
             if short_branch(b) == "master" or b.startswith("origin/release/")}
    # (release branches whose names sort alike - 1.2 and 1_2 - come in either order: ties_reversed gives the other one)
    order = sorted(sorted(heads, reverse=ties_reversed), key=lambda b: (branch_sort_key(b), 0 if b == lower_trunk else 1))
    tagged = set(repo.tags.values())
    lower = set()
    exp = {}
    for b in order:
        h = heads[b]
        anc = ancestors(h)
        builds = {x for x in anc - lower if x in tagged or x == h.intid}
        exp[b] = {'builds': builds, 'anc': anc, 'lower': set(lower), 'head': h.intid}
        lower |= anc
    return order, exp


def describe(repo):
    """JSON-able description of a mock repository (for replay files)"""
    return {
        "name": repo.name,
        "commits": [[c.intid, [p.intid for p in c.parents], c.message, c.committed_date,
                     {p: b.data.decode() for p, b in c.tree.files.items()}]
                    for c in repo.commits.values()],
        "branches": dict(repo.branches), "tags": dict(repo.tags), "remote": getattr(repo, 'remote', 'origin'),
        "decoys": dict(getattr(repo, 'decoys', {})), "other_tags": dict(getattr(repo, 'other_tags', {})),
    }


def rebuild(descr):
    commits = {}
    for cid, parents, msg, ts, files in descr["commits"]:
        commits[cid] = Commit(descr["name"], cid, [commits[p] for p in parents], msg, ts, files)
    return Repo(descr["name"], commits, descr["branches"], descr["tags"], descr.get("remote", "origin"),
                descr.get("decoys"), descr.get("other_tags"))
