"""Mock of the GitPython surface that ak.ghist uses (commit DAGs with several roots allowed)."""
import io
import json
import re
from hashlib import sha1

import vf
vf.use_repo()
from ak.ghist import ProjectRepo, BuildNumData, GitRepo, RepoBuildsBySavedBuildNumDetector  # noqa: E402


class Blob:
    def __init__(self, contents):
        self.data = contents.encode()
        self.hexsha = sha1(self.data).hexdigest()

    @property
    def data_stream(self):
        return io.BytesIO(self.data)


class Tree:
    def __init__(self, files):
        self.files = {p: Blob(c) for p, c in files.items()}

    def __truediv__(self, path):
        return self.files[path]


class Author:
    def __init__(self, name):
        self.name = name


class Commit:
    def __init__(self, repo_name, cid, parents, message, ts, files):
        self.intid = cid
        self.hexsha = sha1(f"{repo_name}:{cid}".encode()).hexdigest()
        self.parents = parents
        self.message = message
        self.committed_date = ts
        self.author = Author("auth%d" % (cid % 3))
        self.tree = Tree(files)

    def __repr__(self):
        return f"C{self.intid}"


class Ref:
    def __init__(self, name, commit):
        self.name = name
        self.commit = commit


class Remote:
    def __init__(self, refs):
        self.refs = refs

    def fetch(self):
        pass


class Repo:
    """commits {cid: Commit}; branches {"origin/release/1.0": cid}; tags {tagname: cid}"""

    def __init__(self, name, commits, branches, tags):
        self.name = name
        self.git_dir = "/mock/" + name
        self.commits = commits
        self.by_hex = {c.hexsha: c for c in commits.values()}
        self.refs = {}
        for b, cid in branches.items():
            self.refs["refs/remotes/" + b] = commits[cid]
        for t, cid in tags.items():
            self.refs["refs/tags/" + t] = commits[cid]
        self.tags = dict(tags)
        self.branches = dict(branches)
        self.remotes = {'origin': Remote([Ref(b, commits[cid]) for b, cid in sorted(branches.items())])}

    def add_tag(self, name, cid):
        """a tag that appears later (as after a fetch)"""
        self.refs["refs/tags/" + name] = self.commits[cid]
        self.tags[name] = cid

    def add_commit(self, cid, parent_cids, message, ts, files, branch=None):
        """a commit that arrives later (as after a fetch); optionally the new head of a branch"""
        c = Commit(self.name, cid, [self.commits[p] for p in parent_cids], message, ts, files)
        self.commits[cid] = c
        self.by_hex[c.hexsha] = c
        if branch is not None:
            self.branches[branch] = cid
            self.refs["refs/remotes/" + branch] = c
            self.remotes = {'origin': Remote([Ref(b, self.commits[x]) for b, x in sorted(self.branches.items())])}
        return c

    def commit(self, hexsha):
        return self.by_hex[hexsha]

    def iter_refs(self, *prefixes):
        for n, c in self.refs.items():
            if any(n.startswith(p) for p in prefixes):
                yield n, c.hexsha


class TRepo(ProjectRepo):
    _SAVED_BUILD_NUM_SOURCES = ["VERSION"]

    def _read_saved_build_num_from_file(self, blob, path):
        nums = [int(x) for x in blob.data_stream.read().decode().strip().split('.')]
        if len(nums) == 2:
            nums.append(None)
        return BuildNumData(*nums)


class DiskRefsRepo(GitRepo):
    """GitRepo that reads its refs from a real .git directory (GitRepo.iter_refs, the production code) while
    the commit objects come from a mock repository"""

    def __init__(self, mock_repo, git_dir):
        # (git.Repo's constructor is not called: there is no object database)
        self.__dict__['git_dir'] = git_dir
        self.__dict__['_mock'] = mock_repo

    remotes = property(lambda self: self._mock.remotes)

    def commit(self, hexsha):
        return self._mock.commit(hexsha)


def write_packed_refs(repo, git_dir, rng):
    """the state of .git after 'git pack-refs --all'; about half of the tags are annotated tags (the ref names a
    tag object, the tagged commit follows in a '^' line).  Returns the number of annotated tags."""
    import os
    lines = ["# pack-refs with: peeled fully-peeled sorted "]
    annotated = 0
    for ref in sorted(repo.refs):
        sha = repo.refs[ref].hexsha
        if ref.startswith("refs/tags/") and rng.random() < 0.5:
            annotated += 1
            lines.append("%s %s" % (sha1(("tag object " + ref).encode()).hexdigest(), ref))
            lines.append("^" + sha)
        else:
            lines.append("%s %s" % (sha, ref))
    with open(os.path.join(git_dir, "packed-refs"), "w") as f:
        f.write("\n".join(lines) + "\n")
    return annotated


class TRepoCI(TRepo):
    """a project whose build tags follow its own pattern (the class-level pattern is the customisation point)"""
    _RE_BUILD_TAG = re.compile(r"ci-(?P<build>\d+)-(?P<branch>.*)-ok$")


def repo_for(repo_id, repo, remote='origin'):
    """the ProjectRepo class matching the tag format used in the mock repository"""
    cls = TRepoCI if any(t.startswith("ci-") for t in repo.tags) else TRepo
    return cls(repo_id, repo, remote)


class TRepoSaved(TRepo):
    """a project without build tags: a commit is a build when the build number saved in its VERSION file
    differs from the numbers of all its parents (the module's alternative builds detector)"""

    def make_builds_detector(self):
        return RepoBuildsBySavedBuildNumDetector(self)


def component_repo_for(repo_id, repo, remote='origin'):
    saved = not repo.tags and any(c.tree.files.get("VERSION") is not None and
                                  c.tree.files["VERSION"].data.count(b".") == 2 for c in repo.commits.values())
    return (TRepoSaved if saved else TRepo)(repo_id, repo, remote)


class PRepo(TRepo):
    """repository which pins the version of component 'comp' in file DEPENDS"""
    _COMPONENTS_VERSIONS_LOCATIONS = {'comp': 'DEPENDS'}

    def read_components_from_file(self, v_file_path, blob):
        d = json.load(blob.data_stream)
        return {k: [int(x) for x in v.split('.')] for k, v in d.items()}


class PRepo2(PRepo):
    """pins two components in the same file"""
    _COMPONENTS_VERSIONS_LOCATIONS = {'comp': 'DEPENDS', 'comp2': 'DEPENDS'}


def ancestors(commit):
    seen = {}
    todo = [commit]
    while todo:
        x = todo.pop()
        if x.intid in seen:
            continue
        seen[x.intid] = x
        todo.extend(x.parents)
    return set(seen)


def branch_sort_key(name):
    """independent numeric-aware key; master / main last"""
    short = name[len("origin/"):]
    if short in ("master", "main"):
        return (1, [])
    items = []
    for ch in re.split(r"[/._\-\s]+", name):
        if ch == "":
            continue
        items.append((0, int(ch), "") if ch.isdigit() else (1, 0, ch))
    return (0, items)


def short_branch(b):
    return "master" if b in ("origin/master", "origin/main") else b[len("origin/"):]


def branch_oracle(repo):
    """-> order (ascending), {branch: {builds, anc, lower, head}}"""
    heads = {ref.name: ref.commit for ref in repo.remotes['origin'].refs}
    order = sorted(heads, key=branch_sort_key)
    tagged = set(repo.tags.values())
    lower = set()
    exp = {}
    for b in order:
        h = heads[b]
        anc = ancestors(h)
        builds = {x for x in anc - lower if x in tagged or x == h.intid}
        exp[b] = {'builds': builds, 'anc': anc, 'lower': set(lower), 'head': h.intid}
        lower |= anc
    return order, exp


def describe(repo):
    """JSON-able description of a mock repository (for replay files)"""
    return {
        "name": repo.name,
        "commits": [[c.intid, [p.intid for p in c.parents], c.message, c.committed_date,
                     {p: b.data.decode() for p, b in c.tree.files.items()}]
                    for c in repo.commits.values()],
        "branches": repo.branches, "tags": repo.tags,
    }


def rebuild(descr):
    commits = {}
    for cid, parents, msg, ts, files in descr["commits"]:
        commits[cid] = Commit(descr["name"], cid, [commits[p] for p in parents], msg, ts, files)
    return Repo(descr["name"], commits, descr["branches"], descr["tags"])
