"""Shard context: counters, non-triviality signatures, samples, violations."""
import hashlib
import json
import random
import signal
import sys
import time


def _on_alarm(signum, frame):
    raise CaseTimeout()


class Inconclusive(Exception):
    """the deciding monitor could not do its job (not a verdict)"""


class CaseTimeout(BaseException):
    """one generated case ran far longer than any case ever does: the shard stops here, keeps
    what it found so far and is reported as inconclusive (wall-clock is never a verdict)"""


def jsonable(obj, depth=0):
    """best-effort conversion of a case / witness into JSON data"""
    if depth > 12:
        return repr(obj)[:200]
    if obj is None or isinstance(obj, (bool, int, float, str)):
        return obj
    if isinstance(obj, bytes):
        return {"__bytes__": obj.decode("latin-1")}
    if isinstance(obj, dict):
        if all(isinstance(k, str) for k in obj):
            return {k: jsonable(v, depth + 1) for k, v in obj.items()}
        return {"__dict__": [[jsonable(k, depth + 1), jsonable(v, depth + 1)]
                             for k, v in obj.items()]}
    if isinstance(obj, tuple):
        return {"__tuple__": [jsonable(x, depth + 1) for x in obj]}
    if isinstance(obj, (list,)):
        return [jsonable(x, depth + 1) for x in obj]
    if isinstance(obj, (set, frozenset)):
        return {"__set__": sorted((jsonable(x, depth + 1) for x in obj), key=repr)}
    return {"__repr__": repr(obj)[:300]}


def unjson(obj):
    """inverse of jsonable (for replay files)"""
    if isinstance(obj, list):
        return [unjson(x) for x in obj]
    if isinstance(obj, dict):
        if len(obj) == 1:
            (k, v), = obj.items()
            if k == "__bytes__":
                return v.encode("latin-1")
            if k == "__dict__":
                return {_hashable(unjson(a)): unjson(b) for a, b in v}
            if k == "__tuple__":
                return tuple(unjson(x) for x in v)
            if k == "__set__":
                return {_hashable(unjson(x)) for x in v}
            if k == "__repr__":
                return v
        return {k: unjson(v) for k, v in obj.items()}
    return obj


def _hashable(x):
    if isinstance(x, list):
        return tuple(_hashable(y) for y in x)
    return x


def sig_of(obj):
    """short stable signature of a structure"""
    data = json.dumps(jsonable(obj), sort_keys=True, default=repr)
    return hashlib.sha1(data.encode()).hexdigest()[:16]


class Ctx:
    """what a check module gets for one shard"""

    MAX_VIOLATIONS = 25
    MAX_SAMPLES = 3

    def __init__(self, prop, tier, seed, shard, n_shards, cases, params=None):
        self.prop = prop
        self.tier = tier
        self.seed = seed
        self.shard = shard
        self.n_shards = n_shards
        self.cases = cases
        self.params = params or {}
        self.evaluations = 0
        self.counters = {}
        if sys.flags.optimize:
            # this shard runs in an interpreter started with -O / -OO: assert statements of the code under
            # observation are compiled away there, as for a user who sets PYTHONOPTIMIZE
            self.counters["shards_run_in_an_optimized_interpreter"] = 1
        self.sigs = set()
        self.samples = []
        self.violations = []
        self.n_violations = 0
        self.mech_counts = {}
        self.inconclusive = []
        self.t0 = time.time()
        self.case_timeout = float((params or {}).get("case_timeout", 60))
        self._armed_for = None

    # -- randomness
    def _arm(self, i):
        # a fresh alarm for every new case (main thread only)
        if i != self._armed_for:
            self._armed_for = i
            try:
                signal.signal(signal.SIGALRM, _on_alarm)
                signal.setitimer(signal.ITIMER_REAL, self.case_timeout)
            except (ValueError, OSError):
                pass

    def disarm(self):
        try:
            signal.setitimer(signal.ITIMER_REAL, 0)
        except (ValueError, OSError):
            pass

    def rng(self, i, salt=""):
        self._arm(i)
        return random.Random(f"{self.seed}/{self.prop}/{self.shard}/{i}/{salt}")

    def rng_key(self, i, salt=""):
        """the seed string of rng(i): enough to regenerate a generated case"""
        return f"{self.seed}/{self.prop}/{self.shard}/{i}/{salt}"

    # -- bookkeeping
    def count(self, name, n=1):
        self.counters[name] = self.counters.get(name, 0) + n

    def maxi(self, name, value):
        self.counters[name] = max(self.counters.get(name, 0), value)

    def evaluated(self, n=1):
        self.evaluations += n

    def nontrivial(self, signature):
        """register a non-trivial case; `signature` identifies it structurally"""
        if not isinstance(signature, str):
            signature = sig_of(signature)
        self.sigs.add(signature)

    def sample(self, obj):
        if len(self.samples) < self.MAX_SAMPLES:
            self.samples.append(jsonable(obj))

    def violation(self, mechanism, detail, case):
        """record a violation. `mechanism` is the classification key used for
        matching against known_findings.json; `case` must be enough for replay."""
        self.n_violations += 1
        self.mech_counts[mechanism] = self.mech_counts.get(mechanism, 0) + 1
        # keep the first few witnesses of every mechanism
        kept = sum(1 for v in self.violations if v["mechanism"] == mechanism)
        if kept < 3 and len(self.violations) < self.MAX_VIOLATIONS:
            self.violations.append({
                "mechanism": mechanism,
                "detail": jsonable(detail),
                "case": jsonable(case),
            })

    def inconclusive_note(self, why):
        if len(self.inconclusive) < 20:
            self.inconclusive.append(why)
        self.count("inconclusive_cases")

    def result(self):
        return {
            "prop": self.prop, "shard": self.shard,
            "evaluations": self.evaluations,
            "counters": self.counters,
            "sigs": sorted(self.sigs),
            "samples": self.samples,
            "violations": self.violations,
            "n_violations": self.n_violations,
            "mech_counts": self.mech_counts,
            "inconclusive": self.inconclusive,
            "wall_s": round(time.time() - self.t0, 3),
        }
