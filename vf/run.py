"""Driver.  /venv/bin/python -m vf.run <Cnn> [--tier quick|thorough] [--seed N] [--replay file]

exit 0: property held on everything observed (KNOWN-FINDING lines possible)
exit 1: `VIOLATION property=<id> replay=<path>` printed
exit 2: `INCONCLUSIVE property=<id> <why>` - monitors did not observe enough
"""
import argparse
import concurrent.futures
import importlib
import json
import os
import shutil
import subprocess
import sys
import tempfile
import time

import vf
from vf.core import jsonable

PY = "/venv/bin/python" if os.path.exists("/venv/bin/python") else sys.executable


def load_known(prop):
    path = os.path.join(vf.VERIF, "known_findings.json")
    if not os.path.exists(path):
        return []
    data = json.load(open(path))
    return [f for f in data.get("findings", []) if f["property"] == prop]


ODD_ENV = {"NO_COLOR": "1", "CLICOLOR": "0", "CLICOLOR_FORCE": "0", "FORCE_COLOR": "0", "TERM": "dumb",
           "COLUMNS": "20", "LINES": "5", "LC_ALL": "C", "LANG": "C", "PYTHONWARNINGS": "default"}


def run_one_shard(spec, workdir, timeout):
    spec_path = os.path.join(workdir, f"spec{spec['shard']}.json")
    out_path = os.path.join(workdir, f"out{spec['shard']}.json")
    json.dump(spec, open(spec_path, "w"))
    env = dict(os.environ, PYTHONHASHSEED="0", TZ="UTC", VERIF_REPO=vf.REPO,
               PYTHONDONTWRITEBYTECODE="1",
               PYTHONPATH=vf.VERIF + os.pathsep + os.environ.get("PYTHONPATH", ""))
    env.pop("AK_COLORS_CONF", None)
    if (spec["shard"] % 4 == 0 and spec.get("replay") is None) or os.environ.get("VF_ODD_ENV"):
        # every fourth shard runs in the environment of a cron job on a minimal machine: the conventions other
        # programs follow for colours and terminal sizes are set - the package documents none of them, what the
        # caller asks for is what counts
        env.update(ODD_ENV, VF_SHARD_ODD_ENV="1")
    last = None
    for attempt in (1, 2):
        try:
            proc = subprocess.run(
                [PY] + list(spec.get("py_flags") or []) + ["-m", "vf.shard", spec_path, out_path], cwd=vf.VERIF, env=env,
                timeout=timeout, capture_output=True, text=True)
        except subprocess.TimeoutExpired:
            # never a verdict, and not retried: a hang would only hang again
            return {"watchdog": f"shard {spec['shard']} exceeded the {timeout}s wall-clock watchdog"}
        if os.path.exists(out_path):
            res = json.load(open(out_path))
            res["stderr_tail"] = proc.stderr[-500:] if proc.returncode else ""
            return res
        last = {"harness_error": f"shard {spec['shard']} died rc={proc.returncode}: "
                                 f"{proc.stderr[-1500:]}"}
        # a crash of the interpreter (e.g. memory limit) is retried once
    return last


def extra_floors(prop, tier):
    """floors for the monitor counters that were added after a check's own FLOORS were written: measured on the
    unchanged tree by tools/unfloored.py (40% of the smallest value seen), kept in vf/floors_extra.json"""
    try:
        return json.load(open(os.path.join(vf.VERIF, "vf", "floors_extra.json"))).get(prop, {}).get(tier, {})
    except FileNotFoundError:
        return {}


def main(argv=None):
    ap = argparse.ArgumentParser()
    ap.add_argument("prop")
    ap.add_argument("--tier", default=os.environ.get("VERIF_TIER") or "quick",
                    choices=["quick", "thorough"])
    ap.add_argument("--seed", type=int, default=None)
    ap.add_argument("--replay")
    ap.add_argument("--shards", type=int)
    ap.add_argument("--cases", type=int)
    ap.add_argument("--no-evidence", action="store_true")
    args = ap.parse_args(argv)
    prop = args.prop.upper()
    seed = args.seed
    if seed is None:
        try:
            seed = int(os.environ.get("VERIF_SEED", "0"))
        except ValueError:
            seed = 0
    t0 = time.time()
    vf.use_repo()
    mod = importlib.import_module(f"vf.checks.{prop.lower()}")
    tier_conf = dict(mod.TIERS[args.tier])
    n_shards = args.shards or tier_conf["shards"]
    cases = args.cases or tier_conf["cases"]
    timeout = tier_conf.get("timeout", 900)
    workdir = tempfile.mkdtemp(prefix=f"vf-{prop}-")
    try:
        if args.replay:
            rep = json.load(open(args.replay))
            specs = [dict(prop=prop, tier=args.tier, seed=rep.get("seed", seed), shard=0,
                          n_shards=1, cases=1, params=tier_conf.get("params"),
                          replay=rep["case"])]
        else:
            # (a check may ask for some of its shards to run in an interpreter started with flags such as -O)
            py_flags = tier_conf.get("py_flags_by_shard")
            if py_flags is None:
                # by default the last shard of a check runs with -O (assert statements compiled away)
                py_flags = {n_shards - 1: ["-O"]} if n_shards >= 2 else {}
            if os.environ.get("VF_PY_FLAGS"):       # (exploration aid: every shard with these flags)
                py_flags = {k: os.environ["VF_PY_FLAGS"].split() for k in range(n_shards)}
            specs = [dict(prop=prop, tier=args.tier, seed=seed, shard=k, n_shards=n_shards,
                          cases=cases, params=tier_conf.get("params"), py_flags=py_flags.get(k))
                     for k in range(n_shards)]
        workers = min(len(specs), os.cpu_count() or 4, 16)
        with concurrent.futures.ThreadPoolExecutor(workers) as pool:
            results = list(pool.map(lambda s: run_one_shard(s, workdir, timeout), specs))
    finally:
        shutil.rmtree(workdir, ignore_errors=True)

    # ---- merge
    evaluations = 0
    counters = {}
    sigs = set()
    samples = []
    violations = []
    mech_counts = {}
    inconclusive = []
    for res in results:
        if "watchdog" in res:
            inconclusive.append(res["watchdog"])
            continue
        if "harness_error" in res:
            inconclusive.append("harness error: " + res["harness_error"][-1200:])
            if "evaluations" not in res:
                continue
        evaluations += res["evaluations"]
        for k, v in res["counters"].items():
            if k.startswith("max_"):
                counters[k] = max(counters.get(k, 0), v)
            else:
                counters[k] = counters.get(k, 0) + v
        sigs.update(res["sigs"])
        if len(samples) < 3:
            samples.extend(res["samples"][:3 - len(samples)])
        violations.extend(res["violations"])
        for k, v in res["mech_counts"].items():
            mech_counts[k] = mech_counts.get(k, 0) + v
        if res.get("fatal_inconclusive"):
            inconclusive.extend(res["inconclusive"][-1:])

    if os.environ.get("VF_COVER"):
        cov = set()
        for res in results:
            cov.update(tuple(x) for x in res.get("cover", ()))
        json.dump(sorted(cov), open(os.environ["VF_COVER"], "w"))

    known = load_known(prop)
    known_mechs = {f["mechanism"]: f for f in known}
    new_violations = [v for v in violations if v["mechanism"] not in known_mechs]
    n_new = sum(n for m, n in mech_counts.items() if m not in known_mechs)

    # ---- floors (what turns a silent run into 'inconclusive')
    if not args.replay:
        floors = dict(extra_floors(prop, args.tier), **getattr(mod, "FLOORS", {}).get(args.tier, {}))
        for name, floor in floors.items():
            got = len(sigs) if name == "distinct_nontrivial" else (
                evaluations if name == "evaluations" else counters.get(name, 0))
            if got < floor:
                inconclusive.append(f"monitor counter {name}={got} below floor {floor}")
        for name, ceiling in getattr(mod, "CEILINGS", {}).get(args.tier, {}).items():
            if counters.get(name, 0) > ceiling:
                inconclusive.append(f"monitor counter {name}={counters.get(name)} above ceiling {ceiling}")

    wall = round(time.time() - t0, 2)
    rc = 0
    for f in known:
        n = mech_counts.get(f["mechanism"], 0)
        print(f"KNOWN-FINDING: property={prop} {f['mechanism']}: {f['what']} "
              f"[witnessed {n} times in this run]")
    replay_paths = []
    if new_violations:
        rc = 1
        os.makedirs(os.path.join(vf.VERIF, "replays"), exist_ok=True)
        seen_mech = set()
        for i, v in enumerate(new_violations):
            if v["mechanism"] in seen_mech:
                continue
            seen_mech.add(v["mechanism"])
            path = os.path.join(vf.VERIF, "replays",
                                f"{prop}-{args.tier}-s{seed}-{len(seen_mech)}.json")
            json.dump({"property": prop, "tier": args.tier, "seed": seed,
                       "mechanism": v["mechanism"], "detail": v["detail"],
                       "case": v["case"]}, open(path, "w"), indent=1)
            replay_paths.append(path)
            det = json.dumps(v["detail"], default=repr)[:400]
            print(f"VIOLATION property={prop} replay={path}")
            print(f"  mechanism={v['mechanism']} count={mech_counts.get(v['mechanism'])} detail={det}")
    elif inconclusive:
        rc = 2
        for why in inconclusive[:5]:
            print(f"INCONCLUSIVE property={prop} {why[:1500]}")

    if args.replay:
        print(f"replay of {args.replay}: "
              + ("violation reproduced" if rc == 1 else
                 "inconclusive" if rc == 2 else "no violation"))
        return rc

    if not args.no_evidence:
        coverage = {
            "evaluations": evaluations,
            "distinct_nontrivial": len(sigs),
            "rule": mod.RULE,
            "samples": samples[:3],
            "monitor": counters,
            "shards": n_shards,
            "cases_per_shard": cases,
            "known_findings_witnessed": {m: mech_counts.get(m, 0) for m in known_mechs},
            "violation_mechanisms": {m: n for m, n in mech_counts.items()
                                     if m not in known_mechs},
            "inconclusive": inconclusive[:5],
            "verdict": {0: "held on what was observed", 1: "violated", 2: "inconclusive"}[rc],
            "repo": vf.REPO,
        }
        evidence = {
            "property_id": prop, "tier": args.tier, "seed": seed,
            "level": getattr(mod, "LEVEL", "exploration"),
            "coverage": coverage,
            "assumptions": list(getattr(mod, "ASSUMPTIONS", [])),
            "wall_s": wall,
            "violations": n_new,
        }
        os.makedirs(os.path.join(vf.VERIF, "evidence"), exist_ok=True)
        path = os.path.join(vf.VERIF, "evidence", f"{prop}.json")
        json.dump(jsonable(evidence), open(path + ".tmp", "w"), indent=1)
        os.replace(path + ".tmp", path)
    mon = ", ".join(f"{k}={v}" for k, v in sorted(counters.items())[:40])
    print(f"{prop} {args.tier} seed={seed}: evaluations={evaluations} "
          f"distinct_nontrivial={len(sigs)} violations={n_new} wall={wall}s [{mon}]")
    return rc


if __name__ == "__main__":
    try:
        sys.exit(main())
    except (Exception, KeyboardInterrupt):  # a failure of the driver is never a verdict
        import traceback
        traceback.print_exc()
        print(f"INCONCLUSIVE property={sys.argv[1] if len(sys.argv) > 1 else '?'} driver failed")
        sys.exit(2)
