"""MANIFEST.setup_cmd: nothing to build - verify that everything the checks need is present."""
import sys


def main():
    import vf
    vf.use_repo()
    import sqlite3, json, ast, dis, threading  # noqa
    assert sys.version_info >= (3, 12), "sys.monitoring needs python 3.12"
    import ak.llparser, ak.ghist, ak.color, ak.ppobj, ak.mtd_sql, ak.conn_http  # noqa
    import ak.mcaller_http, ak.xlsread, ak.cli_tools, ak.short_uuid, ak.hdoc  # noqa
    print("vf setup ok: python", sys.version.split()[0], "repo", vf.REPO)


if __name__ == "__main__":
    main()
