"""Runtime-monitoring framework for akorshkov/ak_py (see /verif/DESIGN.md)."""
import os
import sys

REPO = os.environ.get("VERIF_REPO", "/repo")
VERIF = os.path.dirname(os.path.dirname(os.path.abspath(__file__)))


def use_repo():
    """Make sure `import ak` takes the working tree of the repository."""
    if sys.path[0] != REPO:
        sys.path.insert(0, REPO)
    import ak  # noqa
    got = os.path.dirname(os.path.dirname(os.path.abspath(ak.__file__)))
    if os.path.realpath(got) != os.path.realpath(REPO):
        raise RuntimeError(f"ak imported from {got}, expected {REPO}")
