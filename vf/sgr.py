"""Terminal model for SGR escape sequences (independent of ak.color).

cells(s) -> [(char, state)], state = (fg, bg, frozenset(effects)); fg/bg = None (default) or
('c', n) with n in 0..255 (30-37 -> 0..7, 90-97 -> 8..15, 38:5:n / 38;5;n -> n).
Anything that is not `ESC [ params m` with known parameters raises SgrError.
"""
import re

ESC = "\x1b"
SEQ = re.compile(r"\x1b\[([0-9;:]*)m")
EFFECTS = {1: "bold", 2: "faint", 4: "underline", 5: "blink", 9: "crossed"}
DEFAULT = (None, None, frozenset())


class SgrError(Exception):
    pass


def apply_params(state, params):
    fg, bg, eff = state
    eff = set(eff)
    if params == "":
        return DEFAULT
    items = params.split(";")
    i = 0
    while i < len(items):
        it = items[i]
        if ":" in it:
            sub = it.split(":")
            if len(sub) == 3 and sub[0] in ("38", "48") and sub[1] == "5" and sub[2].isdigit() \
                    and 0 <= int(sub[2]) <= 255:
                if sub[0] == "38":
                    fg = ('c', int(sub[2]))
                else:
                    bg = ('c', int(sub[2]))
            else:
                raise SgrError(f"unknown SGR parameter {it!r}")
            i += 1
            continue
        if not it.isdigit():
            raise SgrError(f"malformed SGR parameter {it!r} in {params!r}")
        n = int(it)
        if n == 0:
            fg, bg, eff = None, None, set()
        elif n in EFFECTS:
            eff.add(EFFECTS[n])
        elif 30 <= n <= 37:
            fg = ('c', n - 30)
        elif 40 <= n <= 47:
            bg = ('c', n - 40)
        elif 90 <= n <= 97:
            fg = ('c', n - 90 + 8)
        elif 100 <= n <= 107:
            bg = ('c', n - 100 + 8)
        elif n == 39:
            fg = None
        elif n == 49:
            bg = None
        elif n in (38, 48):
            if i + 2 < len(items) and items[i + 1] == "5" and items[i + 2].isdigit() \
                    and 0 <= int(items[i + 2]) <= 255:
                if n == 38:
                    fg = ('c', int(items[i + 2]))
                else:
                    bg = ('c', int(items[i + 2]))
                i += 2
            else:
                raise SgrError(f"malformed extended colour in {params!r}")
        else:
            raise SgrError(f"unknown SGR parameter {n}")
        i += 1
    return (fg, bg, frozenset(eff))


def cells(s, require_default_at_end=True):
    """run the text through the terminal model"""
    out = []
    state = DEFAULT
    i = 0
    n = len(s)
    while i < n:
        ch = s[i]
        if ch == ESC:
            m = SEQ.match(s, i)
            if not m:
                raise SgrError(f"bare or malformed escape sequence at offset {i}: {s[i:i + 12]!r}")
            state = apply_params(state, m.group(1))
            i = m.end()
        else:
            out.append((ch, state))
            i += 1
    if require_default_at_end and state != DEFAULT:
        raise SgrError("terminal is not in default state at the end of the text (colour bleeds)")
    return out


def strip(s):
    """independent stripper: removes every CSI ... m sequence"""
    return SEQ.sub("", s)


def plain(s):
    return "".join(c for c, _ in cells(s, require_default_at_end=False))


# ---- expected state from a colour request (the documented meaning of ColorFmt arguments)
NAMES = ['BLACK', 'RED', 'GREEN', 'YELLOW', 'BLUE', 'MAGENTA', 'CYAN', 'WHITE']


def color_value(spec):
    """ColorFmt colour argument -> ('c', n) / None; raises ValueError for invalid values"""
    if spec is None:
        return None
    if isinstance(spec, str):
        if spec in NAMES:
            return ('c', NAMES.index(spec))
        if spec.startswith('g') and spec[1:].isdigit() and 0 <= int(spec[1:]) <= 23:
            return ('c', 232 + int(spec[1:]))
        raise ValueError(spec)
    if isinstance(spec, bool):
        raise ValueError(spec)
    if isinstance(spec, int):
        if 0 <= spec <= 255:
            return ('c', spec)
        raise ValueError(spec)
    if isinstance(spec, (tuple, list)):
        if len(spec) == 3 and all(isinstance(x, int) and 0 <= x <= 5 for x in spec):
            return ('c', 16 + 36 * spec[0] + 6 * spec[1] + spec[2])
        raise ValueError(spec)
    raise ValueError(spec)


def expected_state(color=None, bg_color=None, **effects):
    eff = frozenset(k for k, v in effects.items() if v and k in EFFECTS.values())
    return (color_value(color), color_value(bg_color), eff)
