"""Self-test: apply each catalogue mutant to a scratch copy of /repo (under /tmp, removed
afterwards) and run the property's check against it with VERIF_REPO=<copy>.

  /venv/bin/python selftest/run_mutants.py [--only C08] [--name x] [--tier quick] [--tests]
                                           [--jobs 8] [--benign]

A mutant must be flagged (rc=1); a benign change must stay silent (rc=0).
"""
import argparse
import concurrent.futures
import json
import os
import shutil
import subprocess
import sys
import tempfile

HERE = os.path.dirname(os.path.abspath(__file__))
VERIF = os.path.dirname(HERE)
sys.path.insert(0, HERE)
PY = "/venv/bin/python"


def run_mutant(m, tier, run_tests, seed):
    scratch = tempfile.mkdtemp(prefix="vf-mut-")
    repo = os.path.join(scratch, "repo")
    try:
        shutil.copytree("/repo", repo, ignore=shutil.ignore_patterns(".git", "__pycache__"))
        if m.get("diff"):
            r = subprocess.run(["patch", "-p1", "-s", "-i", os.path.join(VERIF, m["diff"])],
                               cwd=repo, capture_output=True, text=True)
            if r.returncode:
                return dict(name=m["name"], status="PATCH-DOES-NOT-APPLY", out=r.stdout[-300:])
        else:
            path = os.path.join(repo, m["file"])
            src = open(path).read()
            if src.count(m["old"]) < 1:
                return dict(name=m["name"], status="PATCH-DOES-NOT-APPLY")
            open(path, "w").write(src.replace(m["old"], m["new"], 1))
            for f2, old2, new2 in m.get("also", []):
                path2 = os.path.join(repo, f2)
                src2 = open(path2).read()
                if old2 not in src2:
                    return dict(name=m["name"], status="PATCH-DOES-NOT-APPLY")
                open(path2, "w").write(src2.replace(old2, new2, 1))
        tests_ok = None
        if run_tests:
            try:
                t = subprocess.run([PY, "-m", "pytest", "-q", "-x", "-p", "no:cacheprovider", "tests"],
                                   cwd=repo, capture_output=True, text=True, timeout=400)
                tests_ok = t.returncode == 0
            except subprocess.TimeoutExpired:
                tests_ok = "hang"
        res = {}
        for prop in m["props"]:
            env = dict(os.environ, VERIF_REPO=repo, VERIF_SEED=str(seed))
            r = subprocess.run([PY, "-m", "vf.run", prop, "--tier", tier, "--no-evidence"],
                               cwd=VERIF, env=env, capture_output=True, text=True)
            lines = [l for l in r.stdout.splitlines()
                     if l.startswith(("VIOLATION", "  mechanism", "INCONCLUSIVE"))]
            rc = r.returncode
            if rc == 1 and not any(l.startswith("VIOLATION property=" + prop) for l in lines):
                rc = 3  # crashed, not a verdict
            res[prop] = dict(rc=rc, lines=[l[:300] for l in lines[:4]])
        return dict(name=m["name"], status="ran", tests_ok=tests_ok, res=res)
    finally:
        shutil.rmtree(scratch, ignore_errors=True)


def main():
    ap = argparse.ArgumentParser()
    ap.add_argument("--only")
    ap.add_argument("--name")
    ap.add_argument("--tier", default="quick")
    ap.add_argument("--tests", action="store_true", help="also run the repo's own tests on the mutant")
    ap.add_argument("--jobs", type=int, default=4)
    ap.add_argument("--seed", type=int, default=0)
    ap.add_argument("--benign", action="store_true")
    args = ap.parse_args()
    import catalogue
    muts = catalogue.BENIGN if args.benign else catalogue.MUTANTS
    if args.only:
        muts = [m for m in muts if args.only.upper() in m["props"]]
    if args.name:
        muts = [m for m in muts if args.name in m["name"]]
    want = 0 if args.benign else 1
    bad = 0
    out = []
    with concurrent.futures.ThreadPoolExecutor(args.jobs) as pool:
        for r in pool.map(lambda m: run_mutant(m, args.tier, args.tests, args.seed), muts):
            out.append(r)
            if r["status"] != "ran":
                bad += 1
                print(f"{r['name']:34} {r['status']}")
                continue
            for prop, pr in r["res"].items():
                ok = pr["rc"] == want
                bad += not ok
                first = pr["lines"][1].strip() if len(pr["lines"]) > 1 else (pr["lines"][0] if pr["lines"] else "")
                print(f"{r['name']:34} {prop} tests_pass={r['tests_ok']!s:5} rc={pr['rc']} "
                      f"{'OK ' if ok else 'MISSED ' if want else 'FALSE-ALARM '}{first[:150]}")
    json.dump(out, open(os.path.join(HERE, "last_results.json"), "w"), indent=1)
    print(f"{len(out)} entries, {bad} not as expected")
    return 1 if bad else 0


if __name__ == "__main__":
    sys.exit(main())
