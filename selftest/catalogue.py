"""Mutation catalogue: small realistic changes to akorshkov/ak_py that break one property.
Each entry: name, props (checks expected to flag it), file, old, new (first occurrence replaced)."""

MUTANTS = []
BENIGN = []


def M(name, props, file, old, new):
    MUTANTS.append(dict(name=name, props=props.split(), file=file, old=old, new=new))


def B(name, props, file, old, new):
    BENIGN.append(dict(name=name, props=props.split(), file=file, old=old, new=new))


# ---------------------------------------------------------------- C20
M("c20_revert_keyerror", "C20", "ak/short_uuid.py",
  "    except (ValueError, KeyError) as err:", "    except ValueError as err:")
M("c20_no_reverse", "C20", "ak/short_uuid.py",
  "    for char in string[::-1]:", "    for char in string:")
M("c20_pad_last_char", "C20", "ak/short_uuid.py",
  "    out += _ALPHABET[0] * remainder_len", "    out += _ALPHABET[-1] * remainder_len")
M("c20_len_check_lt", "C20", "ak/short_uuid.py",
  "len(uuid_short_str) != _SHORT_GUID_LEN:", "len(uuid_short_str) < _SHORT_GUID_LEN:")
M("c20_overflow_wraps", "C20", "ak/short_uuid.py",
  "        uuid_obj = uuid.UUID(int=uuid_number)",
  "        uuid_obj = uuid.UUID(int=uuid_number % 2**128)")
B("c20_local_rename", "C20", "ak/short_uuid.py",
  "    alpha_len = len(_ALPHABET)\n    for char in string[::-1]:\n        number = number * alpha_len + _INDEX_ALPHABET[char]",
  "    base = len(_ALPHABET)\n    for char in reversed(string):\n        number = number * base + _INDEX_ALPHABET[char]")

# ---------------------------------------------------------------- C01
M("c01_any_token_except_keeps_one_excluded", "C01", "ak/llparser.py",
  "        return [t for t in terminals if t not in tokens_to_exclude]",
  "        return [t for t in terminals if t not in sorted(tokens_to_exclude)[1:]]")
M("c01_splice_reversed", "C01", "ak/llparser.py",
  "                        t_elem.value.extend(suffix_elem.value)",
  "                        t_elem.value.extend(suffix_elem.value[::-1])")
M("c01_rollback_keeps_cursor", "C01", "ak/llparser.py",
  "        self.values = []\n        self.cur_token_pos = self.start_token_pos\n        self.cur_prod_id += 1",
  "        self.values = []\n        self.cur_prod_id += 1")
M("c01_rollback_keeps_values", "C01", "ak/llparser.py",
  "        self.values = []\n        self.cur_token_pos = self.start_token_pos\n        self.cur_prod_id += 1",
  "        self.values = self.values[:0] if len(self.values) != 2 else self.values[:1]\n        self.cur_token_pos = self.start_token_pos\n        self.cur_prod_id += 1")
M("c01_suffix_not_popped_when_empty", "C01", "ak/llparser.py",
  "                    suffix_elem = t_elem.value.pop()\n                    if suffix_elem.value is not None:",
  "                    suffix_elem = t_elem.value[-1]\n                    if suffix_elem.value is not None:\n                        t_elem.value.pop()")
M("c01_keyword_before_synonym", "C01", "ak/llparser.py",
  "                        keyword_token = self.keywords.get((token_name, value))",
  "                        keyword_token = self.keywords.get((match.lastgroup, value))")
M("c01_nested_suffix_dropped", "C01", "ak/llparser.py",
  "                    if suffix_elem.value is not None:\n                        t_elem.value.extend(suffix_elem.value)",
  "                    if suffix_elem.value is not None:\n                        t_elem.value.extend(\n                            x for x in suffix_elem.value if x.value is not None or x.name in self.terminals)")

# ---------------------------------------------------------------- C02
M("c02_revert_follow_overapprox", "C02", "ak/llparser.py",
  "                            follow_sets[cur_symbol].update(first_sets[next_symbol])\n",
  "                            follow_sets[cur_symbol].update(first_sets[next_symbol])\n"
  "                            if next_symbol in nullables:\n"
  "                                follows_deps[cur_symbol].add(next_symbol)\n")
M("c02_follow_dep_on_parent_dropped", "C02", "ak/llparser.py",
  "                        follows_deps[cur_symbol].add(non_term)", "                        pass")
M("c02_first_stops_at_nullable", "C02", "ak/llparser.py",
  "                        if symbol not in nullables:\n                            break\n            if not fsets_updated:",
  "                        break\n            if not fsets_updated:")
M("c02_table_ignores_follow_for_nullable_prod", "C02", "ak/llparser.py",
  "                    start_symbols |= follow_sets[non_term]",
  "                    start_symbols |= follow_sets[non_term] - first_sets[non_term]")
# (a mutant dropping one alternative during the 'smart' undo of a factorization is NOT in the
# catalogue: the un-factored group is ambiguous by construction, so neither C01 (soundness of
# trees), C02 (exactness for conflict-free tables) nor C03 speak about it)
M("c02_follow_single_pass", "C02", "ak/llparser.py",
  "                sets_updated |= len(follow_set) != orig_len\n            if not sets_updated:\n                break",
  "                sets_updated |= len(follow_set) != orig_len\n            break")
M("c02_end_token_not_in_follow_of_start", "C02", "ak/llparser.py",
  "        follow_sets[start_symbol_name].add(cls._END_TOKEN_NAME)",
  "        follow_sets[start_symbol_name].add(cls._END_TOKEN_NAME) if len(prods_map) < 3 else None")
M("c02_is_ambiguous_gt2", "C02", "ak/llparser.py",
  "        return any(len(prods) != 1 for prods in self.parse_table.values())",
  "        return any(len(prods) > 2 for prods in self.parse_table.values())")

# ---------------------------------------------------------------- C03
M("c03_revert_processed_nullable", "C03", "ak/llparser.py",
  "                    if cur_symbol in nullables:\n                        # symbols behind a nullable symbol must be checked too\n                        _next_symbol(stack)\n                    else:\n                        _next_prod(stack)\n                    continue",
  "                    _next_prod(stack)\n                    continue")
M("c03_prev_nullable_inverted", "C03", "ak/llparser.py",
  "                if not prev_symbol_is_nullable:\n                    # do not check",
  "                if prev_symbol_is_nullable and cur_symbol_id > 0:\n                    # do not check")
M("c03_after_pop_always_next_prod", "C03", "ak/llparser.py",
  "                        if cur_prod_symbol in nullables:\n                            _next_symbol(stack)\n                        else:\n                            _next_prod(stack)\n                    continue",
  "                        _next_prod(stack)\n                    continue")
M("c03_suffix_symbols_preseeded", "C03", "ak/llparser.py",
  "        processed_symbols = set(self.terminals)\n        for symbol, prod_rules in sorted(self.prods_map.items()):",
  "        processed_symbols = set(self.terminals) | set(self._suffix_symbols)\n        for symbol, prod_rules in sorted(self.prods_map.items()):")
M("c03_only_start_reachable_checked", "C03", "ak/llparser.py",
  "            if symbol in processed_symbols:\n                continue\n            # (symbol, prod_rules, cur_prod_id, cur_symbol_id)",
  "            if symbol in processed_symbols or len(processed_symbols) > len(self.terminals):\n                continue\n            # (symbol, prod_rules, cur_prod_id, cur_symbol_id)")
M("c03_cycle_search_only_compares_with_top", "C03", "ak/llparser.py",
  "                for i, (stack_symbol, _, _, _) in enumerate(stack):\n                    if stack_symbol == cur_symbol:",
  "                for i, (stack_symbol, _, _, _) in enumerate(stack):\n                    if stack_symbol == cur_symbol and i >= len(stack) - 1:")
# (a mutant that ignores a match at the bottom of the DFS stack is equivalent: the cycle is found
# one level deeper; one that only compares with the top of the stack makes the constructor itself
# loop forever - the repo's test hangs - so neither is in the catalogue)

# ---------------------------------------------------------------- C04
M("c04_revert_line_start", "C04", "ak/llparser.py",
  "            if cur_span_symbol is None:\n                # first token of the line starts on this line, not at the\n                # end of the last token of previous line\n                prev_end_pos = SrcPos(src_name, line_id, 1)\n",
  "")
M("c04_line_start_reset_inside_span", "C04", "ak/llparser.py",
  "            if cur_span_symbol is None:\n                # first token of the line starts on this line, not at the\n                # end of the last token of previous line\n                prev_end_pos = SrcPos(src_name, line_id, 1)\n",
  "            prev_end_pos = SrcPos(src_name, line_id, 1)\n")
M("c04_span_end_off_by_one", "C04", "ak/llparser.py",
  "                        value = \"\\n\".join(cur_span_lines)\n                        token_name = self.synonyms.get(\n                            cur_span_symbol, cur_span_symbol)\n                        new_end_pos = SrcPos(src_name, line_id, match.end() + 1)",
  "                        value = \"\\n\".join(cur_span_lines)\n                        token_name = self.synonyms.get(\n                            cur_span_symbol, cur_span_symbol)\n                        new_end_pos = SrcPos(src_name, line_id, match.end())")
M("c04_empty_node_at_previous_token", "C04", "ak/llparser.py",
  "                    cur_src_pos = tokens[top.cur_token_pos].start_pos",
  "                    cur_src_pos = tokens[max(0, top.cur_token_pos - 1)].end_pos")
M("c04_lexical_error_previous_line", "C04", "ak/llparser.py",
  "                        raise LexicalError(SrcPos(src_name, line_id, col), text_line)",
  "                        raise LexicalError(SrcPos(src_name, line_id - (col == 0 and line_id > 1), col), text_line)")
M("c04_orig_text_multiline_drops_middle_blank_lines", "C04", "ak/llparser.py",
  "            for i in range(start_l+1, end_l):\n                result_lines.append(lines[i])",
  "            for i in range(start_l+1, end_l):\n                if lines[i]:\n                    result_lines.append(lines[i])")
M("c04_inner_node_end_from_last_nonempty_child", "C04", "ak/llparser.py",
  "                self.start_pos = self.value[0].start_pos\n                self.end_pos = self.value[-1].end_pos",
  "                self.start_pos = self.value[0].start_pos\n                self.end_pos = max((x.end_pos for x in self.value if x.value is not None), key=lambda p: p.coords, default=self.value[-1].end_pos)")

# ---------------------------------------------------------------- C05
M("c05_trailing_none_always_popped", "C05", "ak/llparser.py",
  "            and values_list[-1] is None\n            and self.allow_final_delimiter\n",
  "            and values_list[-1] is None\n")
M("c05_map_first_key_wins", "C05", "ak/llparser.py",
  "        t_elem.value = dict(kv_pairs)",
  "        t_elem.value = dict(reversed(kv_pairs))")
M("c05_map_final_delimiter_always_allowed", "C05", "ak/llparser.py",
  "        if not self.allow_final_delimiter:\n            map_kv_tail_prods.pop(1)",
  "        if not self.allow_final_delimiter and self.optional:\n            map_kv_tail_prods.pop(1)")
M("c05_list_final_delimiter_always_allowed", "C05", "ak/llparser.py",
  "            if not self.allow_final_delimiter:\n                list_tail_prods.pop(1)",
  "            if not self.allow_final_delimiter and not has_brackets:\n                list_tail_prods.pop(1)")
M("c05_seq_elements_appended", "C05", "ak/llparser.py",
  "            seq.insert(0, next_val)", "            seq.insert(len(seq) // 2 if len(seq) > 3 else 0, next_val)")
M("c05_optional_empty_is_none", "C05", "ak/llparser.py",
  "        if self.optional and t_elem.value is None:\n            return\n\n        values_list = []",
  "        if self.optional and (t_elem.value is None or len(t_elem.value) == 2):\n            t_elem.value = None\n            return\n\n        values_list = []")
M("c05_deep_tail_drops_items_after_10", "C05", "ak/llparser.py",
  "        item_elem_pos, tail_elem_pos = self.tail_prods_signatures[signature]\n\n        if item_elem_pos is not None:\n            item_t_elem = t_elem.value[item_elem_pos]\n            cleanuper._cleanup(item_t_elem, for_container=True)\n            values_list.append(item_t_elem)",
  "        item_elem_pos, tail_elem_pos = self.tail_prods_signatures[signature]\n\n        if item_elem_pos is not None:\n            item_t_elem = t_elem.value[item_elem_pos]\n            cleanuper._cleanup(item_t_elem, for_container=True)\n            if len(values_list) < 10:\n                values_list.append(item_t_elem)")
M("c05_map_key_order_sorted", "C05", "ak/llparser.py",
  "        t_elem.value = dict(kv_pairs)",
  "        t_elem.value = dict(sorted(dict(kv_pairs).items()))")

# ---------------------------------------------------------------- C06
MUTANTS.append(dict(name="c06_revert_notmerged_fix", props=["C06"], diff="selftest/patches/c06_revert_notmerged_fix.diff"))
M("c06_notmerged_not_filtered", "C06", "ak/ghist.py",
  "            if rcommit.is_explicit and iid not in merged_rcommits", "            if rcommit.is_explicit")
M("c06_prev_branch_builds_ignored", "C06", "ak/ghist.py",
  "            iid in self.brcommits and iid not in prev_branches_builds)", "            iid in self.brcommits)")
M("c06_branch_sort_plain_string", "C06", "ak/ghist.py",
  "                return item_0 - item_1\n            if is_int_0:  # other is not int\n                return -1  # string is always bigger",
  "                return (str(item_0) > str(item_1)) - (str(item_0) < str(item_1))\n            if is_int_0:  # other is not int\n                return -1  # string is always bigger")
M("c06_printable_drops_build_commit", "C06", "ak/ghist.py",
  "            if rcommit.is_explicit]", "            if rcommit.is_explicit and rcommit is not self.rcommit]")
M("c06_notmerged_carry_over_lost", "C06", "ak/ghist.py",
  "        repo_cache.prev_branches_rcommits.update(merged_rcommits)",
  "        repo_cache.prev_branches_rcommits = dict(merged_rcommits)")

# ---------------------------------------------------------------- C07
M("c07_trivial_bump_test", "C07", "ak/ghist.py",
  "        return self.to_rbuild.iid in self.from_rbuilds", "        return bool(self.from_rbuilds)")
M("c07_bump_dfs_does_not_stop", "C07", "ak/ghist.py",
  "            if cur_rbuild.iid in included_before:\n                # do not go deeper\n                dfs_sp[-1] = cur_sp - 1\n                continue",
  "            if False:\n                continue")
# (registering parent builds in the other order only permutes included_at: not a violation)
M("c07_cycle_check_only_direct", "C07", "ak/ghist.py",
  "                if repo_id in dfs_path_names]", "                if repo_id in dfs_path_names[-1:]]")
M("c07_sorted_by_supply_order", "C07", "ak/ghist.py",
  "            if not not_processed_sub_components:\n                # all dependecies",
  "            if not not_processed_sub_components or len(dfs_stack) > 2:\n                # all dependecies")
M("c07_not_built_head_not_registered", "C07", "ak/ghist.py",
  "                    if my_rbuild.build_num.is_fake_not_merged():\n                        continue",
  "                    if my_rbuild.build_num.is_fake_not_merged() or my_rbuild.build_num.is_fake_not_built():\n                        continue")

# ---------------------------------------------------------------- C08
M("c08_chunk_pos_boundary", "C08", "ak/color.py",
  "            if position < len(chunk.text):\n                return chunk_id, position",
  "            if position <= len(chunk.text) and chunk.text:\n                return chunk_id, min(position, len(chunk.text) - 1)")
M("c08_negative_end_clamp", "C08", "ak/color.py",
  "        elif end_pos < 0:\n            end_pos = max(0, self.scrlen + end_pos)",
  "        elif end_pos < 0:\n            end_pos = self.scrlen + end_pos + 1")
M("c08_negative_start_not_clamped", "C08", "ak/color.py",
  "            start_pos = max(0, self.scrlen + start_pos)", "            start_pos = self.scrlen + start_pos")
M("c08_merge_compares_suffix", "C08", "ak/color.py",
  "        return self.c_prefix == other.c_prefix\n\n    def add_chunks_same_type",
  "        return self.c_suffix == other.c_suffix\n\n    def add_chunks_same_type")
M("c08_radd_order", "C08", "ak/color.py",
  "    def __radd__(self, other) -> 'CHText':\n        return CHText(other, self)",
  "    def __radd__(self, other) -> 'CHText':\n        return CHText(self, other)")
M("c08_format_width_counts_escapes", "C08", "ak/color.py",
  "        filler_width = max(width - self.scrlen, 0)", "        filler_width = max(width - len(str(self)), 0)")
M("c08_center_extra_on_left", "C08", "ak/color.py",
  "            prefix_width = filler_width // 2\n", "            prefix_width = (filler_width + 1) // 2\n")
M("c08_fixed_len_returns_self_shared", "C08", "ak/color.py",
  "        if len_diff < 0:\n            return self[:desired_len]\n        if len_diff > 0:\n            return self + \" \"*len_diff",
  "        if len_diff < 0:\n            return self[:desired_len]\n        if len_diff > 0:\n            self += \" \"*len_diff")
M("c08_revert_fixed_len_copy", "C08", "ak/color.py",
  "        # a new object, as in the other cases: the text can be modified in place (\"+=\")\n        return CHText(self)\n",
  "        return self\n")
M("c08_eq_ignores_colors_of_single_chunk", "C08", "ak/color.py",
  "        if isinstance(other, str):\n            return self.is_plain() and self.text == other\n\n        return NotImplemented\n\n    def __iadd__",
  "        if isinstance(other, str):\n            return self.text == other\n\n        return NotImplemented\n\n    def __iadd__")

# ---------------------------------------------------------------- C09
M("c09_revert_strip_regex", "C09", "ak/color.py",
  'cls._SEQ_RE = re.compile("\\033\\\\[[;:\\\\d]*m")', 'cls._SEQ_RE = re.compile("\\033\\\\[[;\\\\d]*m")')
M("c09_gray_ramp_base", "C09", "ak/color.py", "                color = 232 + shade", "                color = 231 + shade")
M("c09_cube_multipliers_swapped", "C09", "ak/color.py",
  "            color = 16 + r * 36 + g * 6 + b", "            color = 16 + r * 6 + g * 36 + b")
M("c09_upper_bound_exclusive", "C09", "ak/color.py",
  "            if color < 0 or color > 255:", "            if color < 0 or color >= 255:")
M("c09_no_suffix_for_bg_only", "C09", "ak/color.py",
  "        if color_codes:\n            color_prefix = \"\\033[\" + \";\".join(c for c in color_codes) + \"m\"\n            color_suffix = \"\\033[0m\"",
  "        if color_codes:\n            color_prefix = \"\\033[\" + \";\".join(c for c in color_codes) + \"m\"\n            color_suffix = \"\\033[0m\" if (color is not None or len(color_codes) > 1) else \"\"")
M("c09_blink_crossed_codes_swapped", "C09", "ak/color.py",
  "            if blink:\n                color_codes.append(\"5\")", "            if blink:\n                color_codes.append(\"6\")")
M("c09_cube_component_6_accepted", "C09", "ak/color.py",
  "            if len(color) != 3 or any(c < 0 or c > 5 for c in color):",
  "            if len(color) != 3 or any(c < 0 or c > 6 for c in color):")
M("c09_bytes_suffix_missing_for_effects_only", "C09", "ak/color.py",
  "        if make_bytes:\n            color_prefix = color_prefix.encode()\n            color_suffix = color_suffix.encode()",
  "        if make_bytes:\n            color_prefix = color_prefix.encode()\n            color_suffix = color_suffix.encode() if (color is not None or bg_color is not None) else b\"\"")

# ---------------------------------------------------------------- C14
M("c14_revert_dash_with_parent", "C14", "ak/color.py",
  "            elif self.fg_color == \"-\":\n                self.fg_color = None\n            if self.bg_color == \"\":\n                self.bg_color = parent.bg_color\n            elif self.bg_color == \"-\":\n                self.bg_color = None\n",
  "            if self.bg_color == \"\":\n                self.bg_color = parent.bg_color\n")
M("c14_parent_modifiers_win", "C14", "ak/color.py",
  "            self.modifiers = {**parent.modifiers, **self.modifiers}",
  "            self.modifiers = {**self.modifiers, **parent.modifiers}")
M("c14_cache_not_reset", "C14", "ak/color.py",
  "        if any(synt_id not in self.syntax_map for synt_id in new_items):\n            self._cache = {}",
  "        if all(synt_id not in self.syntax_map for synt_id in new_items):\n            self._cache = {}")
M("c14_last_registration_wins", "C14", "ak/color.py",
  "            if synt_id in self.syntax_map:\n                # properties of this syntax are defined already. Probably in\n                # config file.\n                continue",
  "            if synt_id in self.syntax_map and self.syntax_map[synt_id].src_obj_name == 'config':\n                continue")
M("c14_no_color_only_for_parentless", "C14", "ak/color.py",
  "        if no_color:\n            self.color_fmt = ColorsConfig._NO_EFFECTS_FMT",
  "        if no_color and parent is None:\n            self.color_fmt = ColorsConfig._NO_EFFECTS_FMT")
M("c14_bg_inherits_fg_of_parent", "C14", "ak/color.py",
  "                self.bg_color = parent.bg_color\n", "                self.bg_color = parent.fg_color\n")
M("c14_synced_palette_resynced_only_when_nothing_pending", "C14", "ak/color.py",
  "        if any_modifications and self is _GLOBAL_COLORS_CONF:",
  "        if any_modifications and not cant_resolve and self is _GLOBAL_COLORS_CONF:")
# (marking the current item in cant_resolve, or a single resolution pass, are equivalent mutants)

# ---------------------------------------------------------------- C11
M("c11_comma_lost_at_wrap", "C11", "ak/ppobj.py",
  "                        if need_new_line and not is_first_in_line:\n                            yield cp.text(\",\")",
  "                        if need_new_line and not is_first_in_line:\n                            yield cp.text(\"\")")
M("c11_last_element_dropped_when_alone_on_line", "C11", "ak/ppobj.py",
  "                        if is_first_in_line:\n                            yield prefix\n                            len_yielded = offset + 2",
  "                        if is_first_in_line:\n                            if i == len(items_chunks) - 1 and i > 0:\n                                yield None\n                                break\n                            yield prefix\n                            len_yielded = offset + 2")
M("c11_sort_key_dropped_for_oneline_dict", "C11", "ak/ppobj.py",
  "                for key in sorted_keys:\n                    if not is_first:\n                        chunks.append(cp.text(\", \"))",
  "                for key in obj_to_print:\n                    if not is_first:\n                        chunks.append(cp.text(\", \"))")
B("c11_nested_offset_not_increased(layout only)", "C11", "ak/ppobj.py",
  "                yield from self._gen_ch_chunks_for_obj(\n                    cp, obj_to_print[key], offset+2)",
  "                yield from self._gen_ch_chunks_for_obj(\n                    cp, obj_to_print[key], offset)")
M("c11_duplicate_element_after_wrap", "C11", "ak/ppobj.py",
  "                            yield cp.text(\",\")\n                            yield None\n                            len_yielded = 0\n                            is_first_in_line = True",
  "                            yield cp.text(\",\")\n                            yield None\n                            len_yielded = 0\n                            is_first_in_line = True\n                            if i % 64 == 63:\n                                yield prefix\n                                yield item_chunk\n                                yield cp.text(\",\")\n                                yield None")
M("c11_empty_container_in_oneline_dict", "C11", "ak/ppobj.py",
  "        elif isinstance(value, dict):\n            assert not value\n            return cp.text(\"{}\")",
  "        elif isinstance(value, dict):\n            assert not value\n            return cp.text(\"[]\")")
M("c11_float_keyword_check", "C11", "ak/ppobj.py",
  "        elif isinstance(value, Number):\n            return cp.number(str(value))",
  "        elif isinstance(value, Number):\n            return cp.number(str(int(value)) if value == int(value) and abs(value) < 10 else str(value))")

# ---------------------------------------------------------------- C12
M("c12_dots_len_always_3", "C12", "ak/ppobj.py", "        dots_len = min(3, width)", "        dots_len = 3")
M("c12_skipped_counts_service_lines", "C12", "ak/ppobj.py",
  "                1 if not isinstance(tl, self._ServiceLine) else 0", "                1")
M("c12_last_lines_with_zero", "C12", "ak/ppobj.py",
  "            last_lines = table_lines[-n_last:] if n_last else []", "            last_lines = table_lines[-n_last:]")
M("c12_limit_off_by_one", "C12", "ak/ppobj.py",
  "            and len(table_lines) > n_first + n_last + 1", "            and len(table_lines) > n_first + n_last")
# (an enum length cache that under-estimates unknown values only makes an unbounded column narrower
# and its cell truncated with dots: allowed by the letter of C12, so not in the catalogue)
M("c12_center_filler_sign", "C12", "ak/ppobj.py",
  "        filler_len = width - CHText.calc_chunks_len(ch_chunks)\n        if filler_len == 0:",
  "        filler_len = width - CHText.calc_chunks_len(ch_chunks)\n        if filler_len == 0 or (filler_len == -1 and width > 6):")
M("c12_break_by_compares_first_field_only", "C12", "ak/ppobj.py",
  "                prev_break_by_values != cur_break_by_values\n",
  "                prev_break_by_values[:1] != cur_break_by_values[:1]\n")
M("c01_revert_span_empty_lines", "C01", "ak/llparser.py",
  "            while col < len(text_line) or span_line_pending:",
  "            while col < len(text_line):")
M("c07_revert_bump_walk_stops_at_contained_builds", "C07", "ak/ghist.py",
  "            if cur_rbuild.iid in included_before:",
  "            if cur_rbuild.iid in self.from_rbuilds:")
M("c08_revert_derived_receiver_takes_base_operand_as_str", "C08", "ak/color.py",
  "        elif isinstance(other, CHText):\n            # (copy of the list",
  "        elif isinstance(other, type(self)):\n            # (copy of the list")
MUTANTS.append(dict(name="c12_revert_enum_caches_keyed_by_value_only", props=["C12"],
                    diff="selftest/patches/c12_revert_enum_caches_keyed_by_value_only.diff"))
M("c06_registered_type_ignores_remote_name", "C06", "ak/ghist.py",
  "        return repo_class(repo_id, repo_address, remote_name)",
  "        return repo_class(repo_id, repo_address, 'origin')")
M("c12_set_fmt_loses_break_by", "C12", "ak/ppobj.py",
  "                    c.fmt_modifier, c.break_by,\n                    c.min_w, c.max_w))\n\n        self.columns = columns",
  "                    c.fmt_modifier, False,\n                    c.min_w, c.max_w))\n\n        self.columns = columns")
M("c12_footer_width_minus_2", "C12", "ak/ppobj.py",
  "                [cp.text(self.footer)], table_width, ALIGN_LEFT, cp))",
  "                [cp.text(self.footer)], table_width - 2, ALIGN_LEFT, cp))")

# ---------------------------------------------------------------- C13
M("c13_revert_width_suffix_parser", "C13", "ak/ppobj.py",
  "        if width_fmt.endswith(')') and '(' in width_fmt:", "        if False:")
M("c13_revert_remove_columns_width_reset", "C13", "ak/ppobj.py",
  "        for c in self.columns:\n            c.width = None\n", "")
M("c13_serializer_drops_break_by", "C13", "ak/ppobj.py",
  "        if self.break_by:\n            fmt_str += \"!\"\n\n        if self.min_width == self.max_width:",
  "        if self.break_by and self.fmt_modifier is None:\n            fmt_str += \"!\"\n\n        if self.min_width == self.max_width:")
M("c13_serializer_drops_modifier_when_ranged", "C13", "ak/ppobj.py",
  "        if self.fmt_modifier is not None:\n            fmt_str += f\"/{self.fmt_modifier}\"\n\n        if self.break_by:",
  "        if self.fmt_modifier is not None and self.width is None:\n            fmt_str += f\"/{self.fmt_modifier}\"\n\n        if self.break_by:")
M("c13_setter_does_not_copy_limits", "C13", "ak/ppobj.py",
  "            else:\n                self.limit_flines = other.limit_flines\n                self.limit_llines = other.limit_llines",
  "            else:\n                self.set_limits(self._DFLT_LIMIT_LINES)")
M("c13_clone_keeps_width", "C13", "ak/ppobj.py",
  "        return ReprColumn(\n            self.field,\n            self.fmt_modifier,\n            self.break_by,\n            self.min_width,\n            self.max_width,\n        )",
  "        res = ReprColumn(\n            self.field,\n            self.fmt_modifier,\n            self.break_by,\n            self.min_width,\n            self.max_width,\n        )\n        res.width = self.width\n        return res")
M("c13_limits_omitted_when_unknown", "C13", "ak/ppobj.py",
  "        if self.any_lines_skipped is None or self.any_lines_skipped is True:",
  "        if self.any_lines_skipped is True:")
M("c13_fixed_width_serialised_as_range_start", "C13", "ak/ppobj.py",
  "            fmt_str += f\":{self.min_width}-{self.max_width}\"\n", "            fmt_str += f\":{self.min_width}-{max(self.max_width - 1, self.min_width) if self.max_width < 20 else self.max_width}\"\n")

# ---------------------------------------------------------------- C15
M("c15_empty_not_in_is_false", "C15", "ak/mtd_sql.py",
  "                sql = \"0\" if self.op == 'IN' else \"1\"", "                sql = \"0\"")
M("c15_or_joined_with_and", "C15", "ak/mtd_sql.py", "        result += \" OR \".join(", "        result += \" AND \".join(")
M("c15_and_joined_with_or", "C15", "ak/mtd_sql.py",
  "            sql += \" WHERE \" + \" AND \".join(", "            sql += \" WHERE \" + \" OR \".join(")
M("c15_or_group_without_brackets", "C15", "ak/mtd_sql.py",
  "        result = \"(\"\n", "        result = \"\" if len(self.operands) == 2 else \"(\"\n")
M("c15_value_interpolated_for_like", "C15", "ak/mtd_sql.py",
  "        elif self.op in ('LIKE', 'NOT LIKE'):\n            values_list.append(self.value)\n            sql = self.field_name + sql_clauses[self.op]",
  "        elif self.op in ('LIKE', 'NOT LIKE'):\n            sql = self.field_name + f\" {self.op} '{self.value}'\"")
M("c15_neq_none_becomes_is_null", "C15", "ak/mtd_sql.py",
  "                self.op = 'IS NULL' if self.op == '=' else 'IS NOT NULL'", "                self.op = 'IS NULL'")
B("c15_conditions_emitted_in_another_order", "C15", "ak/mtd_sql.py",
  "            args = list(args)\n            args.extend(sorted(kwargs.items()))\n\n        filters =",
  "            args = sorted(kwargs.items()) + [a for a in args if not hasattr(a, 'operands')] + [a for a in args if hasattr(a, 'operands')]\n\n        filters =")
M("c15_in_values_deduplicated", "C15", "ak/mtd_sql.py",
  "                values_list.extend(self.value)\n", "                values_list.extend(dict.fromkeys(self.value))\n")
M("c15_order_by_ignored_for_scalars", "C15", "ak/mtd_sql.py",
  "        if order_by_clause is not None:\n            sql += \" ORDER BY \" + order_by_clause",
  "        if order_by_clause is not None and not as_scalars:\n            sql += \" ORDER BY \" + order_by_clause")
M("c15_one_or_none_returns_first", "C15", "ak/mtd_sql.py",
  "        if len(all_records) > 1:\n            raise ValueError", "        if len(all_records) > 2:\n            raise ValueError")

# ---------------------------------------------------------------- C16
M("c16_lock_dropped", "C16", "ak/conn_http.py",
  "        with self._reqid_generator_guard:\n            next_req_id = self._cur_req_id\n            self._cur_req_id += 1",
  "        next_req_id = self._cur_req_id\n        self._cur_req_id += 1")
M("c16_increment_outside_lock", "C16", "ak/conn_http.py",
  "        with self._reqid_generator_guard:\n            next_req_id = self._cur_req_id\n            self._cur_req_id += 1",
  "        with self._reqid_generator_guard:\n            next_req_id = self._cur_req_id\n        self._cur_req_id = next_req_id + 1")
M("c16_lock_per_call", "C16", "ak/conn_http.py",
  "        with self._reqid_generator_guard:\n            next_req_id = self._cur_req_id",
  "        with threading.Lock():\n            next_req_id = self._cur_req_id")
M("c16_derived_gets_own_impl", "C16", "ak/conn_http.py",
  "        self.parent_conn = parent_conn\n        self.conn_impl = parent_conn.conn_impl\n",
  "        self.parent_conn = parent_conn\n        self.conn_impl = parent_conn.conn_impl\n        if isinstance(conn_data, _HttpConnBase) and isinstance(conn_data.parent_conn, _HttpConnBase):\n            import copy\n            self.conn_impl = copy.copy(parent_conn.conn_impl)\n")
M("c16_own_id_consumes_number", "C16", "ak/conn_http.py",
  "            if 'X-Request-ID' not in headers:\n                headers['X-Request-ID'] = self._generate_request_id()",
  "            new_id = self._generate_request_id()\n            if 'X-Request-ID' not in headers:\n                headers['X-Request-ID'] = new_id")
M("c16_read_before_lock", "C16", "ak/conn_http.py",
  "        with self._reqid_generator_guard:\n            next_req_id = self._cur_req_id\n            self._cur_req_id += 1",
  "        next_req_id = self._cur_req_id\n        with self._reqid_generator_guard:\n            self._cur_req_id = next_req_id + 1")

# ---------------------------------------------------------------- C17
M("c17_revert_clone_isinstance", "C17", "ak/mcaller_http.py",
  "        elif not isinstance(http_conn_adapters, (list, tuple)):", "        elif isinstance(http_conn_adapters, (list, tuple)):")
M("c17_headers_not_copied", "C17", "ak/conn_http.py",
  "        self.headers = headers.copy() if headers else {}", "        self.headers = headers if headers else {}")
M("c17_adapters_aliased_with_parent", "C17", "ak/conn_http.py",
  "        self.adapters = self.own_adapters + self.parent_conn.adapters",
  "        self.adapters = (self.own_adapters + self.parent_conn.adapters) if self.own_adapters else self.parent_conn.adapters")
M("c17_response_adapters_forward_order", "C17", "ak/conn_http.py",
  "        for adapter in adapters[::-1]:\n            ret_val = adapter.process_response(ret_val)",
  "        for adapter in adapters:\n            ret_val = adapter.process_response(ret_val)")
M("c17_clone_shares_prefix_cache", "C17", "ak/mcaller_http.py",
  "        return type(self)(cloned_http_conn)\n",
  "        res = type(self)(cloned_http_conn)\n        res._mc_conns_by_prefix = self._mc_conns_by_prefix\n        return res\n")
M("c17_params_dict_updated_in_place", "C17", "ak/conn_http.py",
  "        if params:\n            path += \"?\" + urlencode(params)",
  "        if params:\n            params.setdefault('a', 1)\n            path += \"?\" + urlencode(params)")
M("c17_str_body_json_encoded", "C17", "ak/conn_http.py",
  "            if isinstance(data, str):\n                str_data = data", "            if isinstance(data, str) and data:\n                str_data = data")
M("c17_double_slash_kept", "C17", "ak/conn_http.py",
  "        if suffix_path and suffix_path.startswith('/') and self.prefix.endswith('/'):",
  "        if suffix_path and suffix_path.startswith('/') and self.prefix.endswith('//'):")

# ---------------------------------------------------------------- C18
M("c18_ladder_fills_behind_first_filled_cell", "C18", "ak/xlsread.py",
  "                            current_row[i] = prev_row[i]\n                        else:\n                            break",
  "                            current_row[i] = prev_row[i]\n                        else:\n                            pass")
M("c18_ladder_uses_raw_previous_row", "C18", "ak/xlsread.py",
  "            prev_row = current_row\n\n            yield results", "            prev_row = row\n\n            yield results")
M("c18_duplicate_title_first_wins_shift", "C18", "ak/xlsread.py",
  "                    col_name: i for i, col_name in enumerate(cols_names)}",
  "                    col_name: i + (1 if col_name == 'Num' and i + 1 < len(cols_names) else 0) for i, col_name in enumerate(cols_names)}")
M("c18_range_does_not_stop_at_known_column", "C18", "ak/xlsread.py",
  "                        if in_range:\n                            break  # all range cells processed\n                        continue  # skip first columns",
  "                        continue  # skip first columns")
M("c18_origin_of_substituted_cell_from_current_row", "C18", "ak/xlsread.py",
  "                attr_origins = cell.coordinate\n            setattr",
  "                attr_origins = cell.coordinate[:1] + anchor_cell.coordinate[1:] if attr_name != 'key' and len(cell.coordinate) == len(anchor_cell.coordinate) else cell.coordinate\n            setattr")
M("c18_stop_on_blank_all_checks_first_cell", "C18", "ak/xlsread.py",
  "                else:\n                    if self._row_is_empty(row):\n                        break",
  "                else:\n                    if self._cell_is_empty(row[0]) and self._cell_is_empty(row[-1]):\n                        break")
M("c18_str_cell_not_stripped", "C18", "ak/xlsread.py",
  "        return \"\" if v is None else str(v).strip()", "        return \"\" if v is None else str(v).rstrip()")
M("c18_leading_blank_rows_limit", "C18", "ak/xlsread.py",
  "            if not titles_processed and self._row_is_empty(row):\n                continue",
  "            if not titles_processed and self._row_is_empty(row) and row[0].coordinate.endswith('1'):\n                continue")
M("c18_range_set_origin_only_marked", "C18", "ak/xlsread.py",
  "            if self.cell_type.val_from_cell(cell)\n        }\n        attr_origins = {\n            cell_title: cell.coordinate\n            for cell_title, cell in zip(cells_titles, cells)\n        }",
  "            if self.cell_type.val_from_cell(cell)\n        }\n        attr_origins = {\n            cell_title: cell.coordinate\n            for cell_title, cell in zip(cells_titles, cells)\n            if cell.value is not None\n        }")

# ---------------------------------------------------------------- C19
M("c19_revert_idempotent_registration", "C19", "ak/cli_tools.py",
  "        assert self._dependent_parsers.get(name, parser) is parser", "        assert name not in self._dependent_parsers")
M("c19_ascendants_not_registered", "C19", "ak/cli_tools.py",
  "                for parser in self.command_parsers.values():\n                    if p in parser._dependent_parsers:\n                        parser.register_dependent(parser_name, cmd_parser)",
  "                pass")
M("c19_double_propagation", "C19", "ak/cli_tools.py",
  "                dependent_parser.add_argument(*args, _propagate=False, **kwargs)",
  "                dependent_parser.add_argument(*args, _propagate=len(dependent_parser._dependent_parsers) == 1, **kwargs)")
M("c19_default_inserted_for_options_of_first_command_only", "C19", "ak/cli_tools.py",
  "                args.insert(0, self.default_command)", "                args.insert(0, next(iter(self.command_parsers)))")
M("c19_global_option_skips_internal_parents_children", "C19", "ak/cli_tools.py",
  "            for cmd_parser in self.command_parsers.values():\n                cmd_parser.add_argument(*args, _propagate=False, **kwargs)",
  "            for cmd_parser in self.command_parsers.values():\n                if not cmd_parser._dependent_parsers or len(self.command_parsers) < 4:\n                    cmd_parser.add_argument(*args, _propagate=False, **kwargs)")
M("c19_only_first_parent_registered", "C19", "ak/cli_tools.py",
  "            for p in parents:\n                parent_parser = self.command_parsers[p]",
  "            for p in sorted(parents)[:2]:\n                parent_parser = self.command_parsers[p]")
M("c19_no_color_not_normalised", "C19", "ak/cli_tools.py",
  "        if args.no_color:\n            args.color = False", "        if args.no_color and args.color != 'auto':\n            args.color = False")

# ---------------------------------------------------------------- C10
M("c10_revert_enum_cache_key", "C10", "ak/ppobj.py",
  "        self._cache = weakref.WeakKeyDictionary()", "        self._cache = {}")
MUTANTS[-1]["also"] = [("ak/ppobj.py", "        cache_key = field_palette  # need to maintain", "        cache_key = id(field_palette)  # need to maintain")]
# (storing the no_color palette on the Palette base class is shadowed by the per-class attribute: equivalent)
# (an __iter__ that yields the already built whole text as a single 'line' gives the same text: equivalent)
M("c10_palette_cache_ignores_config", "C10", "ak/color.py",
  "            return colors_conf.get_cached_obj(cls)", "            return cls.__dict__.get('_vf_last_palette')")
MUTANTS[-1]["also"] = [("ak/color.py", "            colors_conf.put_into_cache(cls, palette)", "            cls._vf_last_palette = palette")]
M("c10_title_cell_width_counts_escapes", "C10", "ak/ppobj.py",
  "        filler_len = width - CHText.calc_chunks_len(ch_chunks)\n        if filler_len == 0:",
  "        filler_len = width - (CHText.calc_chunks_len(ch_chunks) if len(ch_chunks) != 2 else len(str(CHText.make(list(ch_chunks)))) - 0)\n        if filler_len == 0:")
M("c10_enum_cache_shared_between_palettes", "C10", "ak/ppobj.py",
  "        cache_key = field_palette  # need to maintain", "        cache_key = type(field_palette)  # need to maintain")
M("c10_pp_keyword_dropped_in_no_color", "C10", "ak/ppobj.py",
  "            return cp.keyword(self._consts[value])", "            return cp.keyword(self._consts[value] if cp.keyword('x').c_prefix or value is not None else 'nil')")
M("c10_sub_palette_cache_ignores_no_color", "C10", "ak/color.py",
  "            result = actual_palette_class(self.colors_conf, self._no_color)\n",
  "            result = actual_palette_class(self.colors_conf, False)\n")
M("c04_revert_factorized_node_end", "C04", "ak/llparser.py",
  "                    else:\n                        # the suffix matched nothing, so the element ends\n                        # where it's last actual child ends\n                        t_elem.end_pos = t_elem.value[-1].end_pos\n",
  "")
