"""Mutation catalogue: small realistic changes to akorshkov/ak_py that break one property.
Each entry: name, props (checks expected to flag it), file, old, new (first occurrence replaced)."""

MUTANTS = []
BENIGN = []


def M(name, props, file, old, new):
    MUTANTS.append(dict(name=name, props=props.split(), file=file, old=old, new=new))


def B(name, props, file, old, new):
    BENIGN.append(dict(name=name, props=props.split(), file=file, old=old, new=new))


# ---------------------------------------------------------------- C20
M("c20_revert_keyerror", "C20", "ak/short_uuid.py",
  "    except (ValueError, KeyError) as err:", "    except ValueError as err:")
M("c20_no_reverse", "C20", "ak/short_uuid.py",
  "    for char in string[::-1]:", "    for char in string:")
M("c20_pad_last_char", "C20", "ak/short_uuid.py",
  "    out += _ALPHABET[0] * remainder_len", "    out += _ALPHABET[-1] * remainder_len")
M("c20_len_check_lt", "C20", "ak/short_uuid.py",
  "len(uuid_short_str) != _SHORT_GUID_LEN:", "len(uuid_short_str) < _SHORT_GUID_LEN:")
M("c20_overflow_wraps", "C20", "ak/short_uuid.py",
  "        uuid_obj = uuid.UUID(int=uuid_number)",
  "        uuid_obj = uuid.UUID(int=uuid_number % 2**128)")
B("c20_local_rename", "C20", "ak/short_uuid.py",
  "    alpha_len = len(_ALPHABET)\n    for char in string[::-1]:\n        number = number * alpha_len + _INDEX_ALPHABET[char]",
  "    base = len(_ALPHABET)\n    for char in reversed(string):\n        number = number * base + _INDEX_ALPHABET[char]")
