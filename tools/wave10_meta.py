"""one-off: re-run the quick check on every wave-10 seeded change, refresh `checks` in meta.json, add wave/history"""
import concurrent.futures, json, os, shutil, subprocess, sys, tempfile, time
VERIF = os.path.dirname(os.path.dirname(os.path.abspath(__file__)))
M = "MISSED by the check as it stood when this change arrived (quick tier exit 0): "
D = "detected by the check as it stood when this change arrived"
H = {
 "C01-19": M + "skip_tokens was a set, tuple or list; every third parser now gets the names as a generator expression",
 "C01-20": M + "line inputs had no terminators; a share of the texts is now read from a file object (lines carry their line breaks, which are characters like any other)",
 "C02-19": M + "no C02 grammar used the sequence template; LL(1) grammars written with ProdSequence and AnyTokenExcept first / last / in the middle were added, membership decided by a regular expression",
 "C02-20": M + "see C01-19: skip_tokens as a one-shot iterable",
 "C03-19": M + "maps had token keys and were never parsed with the trace on; the map of the template family now has two-word keys (tree nodes) and every other text is parsed with debug=True",
 "C03-20": D + " (invalid texts whose furthest failure lies inside a nested suffix symbol)",
 "C04-19": D + " (texts refused for an unclosed comment are followed by other texts on the same long-lived parser)",
 "C04-20": M + "every span regexp consumed its closing mark; added the configuration 'closing-mark-is-a-token' (look-ahead closer that may match nothing: right behind the opener, at the start of a later line)",
 "C05-19": M + "no C05 token ran over several lines; triple-quoted strings as list items and map keys were added - which also exposed a genuine defect of the unchanged code (empty lines inside a span token were dropped from its value, fixed in e15ba5f)",
 "C05-20": M + "every parser had its own AnyTokenExcept object; one object now serves two parsers whose tokenizers know different tokens",
 "C06-19": M + "search texts were single-line; texts spanning a line break of the message were added",
 "C06-20": M + "remote names had no slash; 'up/stream' was added",
 "C07-19": M + "which component builds are report-related was read off the report; it is now decided by the harness (ticket anywhere in the message, earliest containing build of the main line) and messages naming the ticket only in their body were added",
 "C07-20": D + " (loose and packed entries of one build tag with different targets)",
 "C08-19": M + "each look had one formatter; formatters naming the same effects in another keyword order were added",
 "C08-20": M + "widths were written without leading zeros; behind an explicit fill and alignment they may now have one",
 "C09-19": D + " (rgb triples with float components are among the invalid values)",
 "C09-20": D + " (names with blanks around them are among the invalid values)",
 "C10-19": D + " (results iterated twice by lines)",
 "C10-20": M + "the custom palette classes were made once; the factory now makes a second pair with the same qualified names and other syntax ids, both used under one long-lived configuration",
 "C11-19": M + "int keys were small; neighbouring ints beyond 2**53 were added",
 "C11-20": M + "palette objects were made for a configuration; the synced palette object (synced=True) is now one of the no-colour routes",
 "C12-19": M + "enum values never read alike; '1', '2', 'None' (strings) now stand next to 1, 2, None",
 "C12-20": M + "fields were named by strings; a record shape with RecordField objects, one of them a subclass computing its value, was added",
 "C13-19": D + " (hidden fields with multi-line titles, tables rebuilt from their reported format)",
 "C13-20": D + " (record limits with a zero)",
 "C14-19": M + "ids were upper-case or prefixed; ids spelled like colour names in small letters, referred to by other items, were added",
 "C14-20": D + " (configurations that give TEXT a colour of its own while chains are pending)",
 "C15-19": M + "no column had two underscores in its name; column x__y with keyword filters was added",
 "C15-20": M + "values were ints, strings and None; binary values (a BLOB column) were added",
 "C16-19": D + " (requests answered with an HTTP error status are part of the stress rounds)",
 "C16-20": D + " (caller-supplied ids are mixed into the threaded workload)",
 "C17-19": M + "every wrapper named one component and one caller class was used; a wrapper naming two components is now called through two caller classes built from the same mixins",
 "C17-20": M + "adapters compared by identity; a path-prefix adapter with value equality is attached with add_adapter() while an equal one is in the chain",
 "C18-19": D + " (ladder tables with blank-but-not-None leading cells)",
 "C18-20": D + " (composite keys whose cells convert to None)",
 "C19-19": D + " (positional first arguments spelled like commands of other parsers of the process)",
 "C19-20": M + "the constructor flag _no_log was never set; it now is for a fifth of the parsers, with an application option called --verbose",
 "C20-19": M + "foreign characters were single ones; 22-character strings with a balanced pair of braces (replacement fields) were added",
 "C20-20": M + "str subclasses were hashable; a subclass with its own __eq__ (hence unhashable) was added",
}
def one(d):
    prop = d.split("-")[0]
    sd = os.path.join(VERIF, "seeded", d)
    scratch = tempfile.mkdtemp(prefix="vf-w10-")
    repo = os.path.join(scratch, "repo")
    shutil.copytree("/repo", repo, ignore=shutil.ignore_patterns(".git", "__pycache__"))
    try:
        r = subprocess.run(["patch", "-p1", "-s", "-i", os.path.join(sd, "patch.diff")], cwd=repo, capture_output=True, text=True)
        assert r.returncode == 0, (d, r.stdout, r.stderr)
        t0 = time.time()
        r = subprocess.run(["/venv/bin/python", "-m", "vf.run", prop, "--tier", "quick", "--no-evidence"], cwd=VERIF,
                           env=dict(os.environ, VERIF_REPO=repo), capture_output=True, text=True)
        lines = [l[:400] for l in r.stdout.splitlines() if l.startswith("VIOLATION") or l.startswith("  mechanism")][:2]
        det = r.returncode == 1 and any(l.startswith("VIOLATION property=" + prop) for l in lines)
        m = json.load(open(os.path.join(sd, "meta.json")))
        m["checks"] = {prop: {"tier": "quick", "rc": r.returncode, "detected": det, "wall_s": round(time.time() - t0, 1),
                              "first_lines": lines}}
        m["wave"] = 10
        m["history"] = H[d]
        json.dump(m, open(os.path.join(sd, "meta.json"), "w"), indent=1)
        return d, det, r.returncode
    finally:
        shutil.rmtree(scratch, ignore_errors=True)
ds = sorted(H)
with concurrent.futures.ThreadPoolExecutor(8) as ex:
    for d, det, rc in ex.map(one, ds):
        print(d, "DETECTED" if det else "MISSED rc=%s" % rc)
