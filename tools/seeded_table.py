"""print the markdown table of /verif/seeded for DESIGN.md"""
import json
import os
import textwrap

VERIF = os.path.dirname(os.path.dirname(os.path.abspath(__file__)))
rows = []
for d in sorted(os.listdir(os.path.join(VERIF, "seeded"))):
    if not os.path.isdir(os.path.join(VERIF, "seeded", d)):
        continue
    m = json.load(open(os.path.join(VERIF, "seeded", d, "meta.json")))
    first = " ".join(m.get("needs_to_manifest", "").split())
    first = first[:230] + ("..." if len(first) > 230 else "")
    chk = m.get("checks", {})
    mech = ""
    for p, c in chk.items():
        if c.get("first_lines") and len(c["first_lines"]) > 1:
            mech = c["first_lines"][1].strip().split(" ")[0].replace("mechanism=", "")
    hist = m.get("history", "")
    at_first = "yes" if hist.startswith(("caught", "detected", "flagged")) else "no (extended)"
    rows.append(f"| {d} | {first} | {mech} | {at_first} |")
print("| change | what it is / what it needs | flagged as | caught by the check as it stood |")
print("|---|---|---|---|")
print("\n".join(rows))
