"""measure, on the unchanged tree, the monitor counters that have no floor in their check's own FLOORS and write
vf/floors_extra.json (40% of the smallest value seen; counters that only record what was skipped / observed /
refused, and counters seen fewer than 25 times, get no floor):

    tools/unfloored.py --tier quick [--seeds 0,1,2] [--jobs 4] [C01 C02 ...]      (evidence files are rewritten)

a counter without a floor cannot turn a silent run into 'inconclusive'"""
import argparse, concurrent.futures, importlib, json, os, re, shutil, subprocess, sys, tempfile
VERIF = os.path.dirname(os.path.dirname(os.path.abspath(__file__)))
sys.path.insert(0, VERIF)
ap = argparse.ArgumentParser()
ap.add_argument("props", nargs="*")
ap.add_argument("--tier", default="quick")
ap.add_argument("--seeds", default="0,1,2")
ap.add_argument("--jobs", type=int, default=2)
args = ap.parse_args()
props = args.props or ["C%02d" % i for i in range(1, 21)]
seeds = [int(x) for x in args.seeds.split(",")]
NO_FLOOR = re.compile(r"\(|^max_|^shards_run|skipped|rejected|rejections|raised|refused_|_errors?$|^bytecode_offsets")


def measure(prop):
    cur, used = {}, 0
    for seed in seeds:
        r = subprocess.run(["/venv/bin/python", "-m", "vf.run", prop, "--tier", args.tier, "--seed", str(seed)],
                           cwd=VERIF, capture_output=True, text=True)
        if r.returncode:
            print(prop, "seed", seed, "rc", r.returncode, "(not used)")
            continue
        mon = json.load(open(os.path.join(VERIF, "evidence", prop + ".json")))["coverage"]["monitor"]
        mon = {k: v for k, v in mon.items() if isinstance(v, (int, float)) and not isinstance(v, bool)}
        if not used:
            cur = dict(mon)
        else:
            cur = {k: min(cur.get(k, 0), mon.get(k, 0)) for k in set(cur) | set(mon)}
        used += 1
    return prop, cur


low = {}
with concurrent.futures.ThreadPoolExecutor(args.jobs) as ex:
    for prop, cur in ex.map(measure, props):
        low[prop] = cur
path = os.path.join(VERIF, "vf", "floors_extra.json")
extra = json.load(open(path)) if os.path.exists(path) else {}
for prop in props:
    mod = importlib.import_module("vf.checks." + prop.lower())
    own = getattr(mod, "FLOORS", {}).get(args.tier, {})
    new = {k: max(1, int(v * 0.4)) for k, v in sorted(low.get(prop, {}).items())
           if k not in own and not NO_FLOOR.search(k) and v >= 25}
    extra.setdefault(prop, {})[args.tier] = new
    print(prop, args.tier, json.dumps(new))
json.dump(extra, open(path, "w"), indent=1, sort_keys=True)
