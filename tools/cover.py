"""Which lines of the code a property is anchored in did the check's workload actually execute?

    tools/cover.py C05 [--tier quick] [--files llparser.py,...]

Runs the check with VF_COVER (sys.monitoring LINE events, each line reported once) and lists, per function of
the anchor files, the executable lines that were never reached.  Runtime monitoring says nothing about paths
the workload never drives; this is the tool used to find them.
"""
import argparse
import json
import os
import subprocess
import sys
import tempfile

HERE = os.path.dirname(os.path.dirname(os.path.abspath(__file__)))
REPO = os.environ.get("VERIF_REPO", "/repo")


def code_lines(path):
    """{qualname: (firstline, set(lines))} for every code object of the file"""
    src = open(path).read()
    top = compile(src, path, "exec")
    out = {}

    def walk(code, qual):
        lines = {l for _, _, l in code.co_lines() if l is not None}
        lines.discard(code.co_firstlineno)
        out[qual] = (code.co_firstlineno, lines)
        for c in code.co_consts:
            if hasattr(c, "co_lines"):
                walk(c, (qual + "." if qual != "<module>" else "") + c.co_name)
    walk(top, "<module>")
    return out, src.splitlines()


def main():
    ap = argparse.ArgumentParser()
    ap.add_argument("prop")
    ap.add_argument("--tier", default="quick")
    ap.add_argument("--files")
    ap.add_argument("--seed", default="0")
    args = ap.parse_args()
    prop = args.prop.upper()
    files = args.files.split(",") if args.files else None
    if files is None:
        for l in open(os.path.join(HERE, "properties.jsonl")):
            p = json.loads(l)
            if p["id"] == prop:
                files = [f[len("ak/"):] for f in p["anchors"]["files"] if f.startswith("ak/")]
    fd, tmp = tempfile.mkstemp(suffix=".json")
    os.close(fd)
    env = dict(os.environ, VF_COVER=tmp, PYTHONHASHSEED="0")
    r = subprocess.run([sys.executable, "-m", "vf.run", prop, "--tier", args.tier, "--seed", args.seed,
                        "--no-evidence"], cwd=HERE, env=env, capture_output=True, text=True)
    print(f"# {prop} {args.tier}: rc={r.returncode}")
    hit = {}
    for f, l in json.load(open(tmp)):
        hit.setdefault(f, set()).add(l)
    os.unlink(tmp)
    for f in files:
        info, src = code_lines(os.path.join(REPO, "ak", f))
        h = hit.get(f, set())
        tot = sum(len(v[1]) for v in info.values())
        got = sum(len(v[1] & h) for v in info.values())
        print(f"## {f}: {got}/{tot} executable lines reached")
        for qual, (first, lines) in sorted(info.items(), key=lambda kv: kv[1][0]):
            if qual == "<module>" or not lines:
                continue
            miss = sorted(lines - h)
            if not miss:
                continue
            if not (lines & h):
                print(f"  {qual} (line {first}): NEVER CALLED ({len(lines)} lines)")
                continue
            print(f"  {qual} (line {first}): {len(miss)}/{len(lines)} lines not reached")
            for l in miss:
                print(f"      {l:5d}: {src[l - 1].strip()[:110]}")


if __name__ == "__main__":
    main()
