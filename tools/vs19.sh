#!/bin/bash
# verify & keep wave-19 seeded changes (kept as <id>-37, <id>-38):  tools/vs2.sh C09 C14 ...
for p in "$@"; do for n in 1 2; do
  if [ -f /tmp/seed19/$p-out/patch$n.diff ]; then
    m=$((n+36))
    mkdir -p /tmp/seed19/renamed/$p-out
    cp /tmp/seed19/$p-out/patch$n.diff /tmp/seed19/renamed/$p-out/patch$m.diff
    cp /tmp/seed19/$p-out/demo$n.py /tmp/seed19/renamed/$p-out/demo$m.py
    cp /tmp/seed19/$p-out/notes$n.txt /tmp/seed19/renamed/$p-out/notes$m.txt 2>/dev/null
    /venv/bin/python /verif/tools/verify_seeded.py $p $m --src /tmp/seed19/renamed --keep 2>&1 | /venv/bin/python -c "
import json,sys
try:
    r=json.load(sys.stdin)
    print(r['property'], r['n'], 'tests_pass=',r.get('repo_tests_pass_with_change'),'demo=',r.get('demo_fails_with_change'),r.get('demo_passes_without_change'), {k:('DETECTED' if v['detected'] else 'MISSED rc=%s'%v['rc'], (v['first_lines'][1][:170] if len(v['first_lines'])>1 else v['first_lines'])) for k,v in r.get('checks',{}).items()})
except Exception as e: print('verify failed', e)"
  fi
done; done
