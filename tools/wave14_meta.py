"""one-off: re-run the quick check on every wave-14 seeded change, refresh `checks` in meta.json, add wave/history"""
import concurrent.futures, json, os, shutil, subprocess, sys, tempfile, time
VERIF = os.path.dirname(os.path.dirname(os.path.abspath(__file__)))
M = "MISSED by the check as it stood when this change arrived (quick tier exit 0): "
D = "detected by the check as it stood when this change arrived"
H = {
 "C01-27": M + "the harness crashed on it (a bare string where a tree element has to be made the validator raise): such a child is now the violation 'child-is-not-a-tree-element'",
 "C01-28": M + "AnyTokenExcept objects were of the package's class; a subclass of the application that overrides the documented expansion (one more token left out) was added",
 "C02-27": D + " (token patterns that look at the text in front of the token)",
 "C02-28": M + "C02 never switched the trace on; every seventh text is now parsed with debug=True",
 "C03-27": M + "C03 grammars had no template written by the caller and were parsed without clean-up; a quarter of them now has one, every third parse uses the default clean-up",
 "C03-28": M + "start_symbol_name was never given to parse() in C03; the first half of every fourth text is now parsed as a fragment that starts at another symbol",
 "C04-27": M + "C04 never named the start symbol; every fourth text is parsed again with start_symbol_name and must give the same spans",
 "C04-28": D + " (a keyword directly followed by a token)",
 "C05-27": M + "all C05 parsers used the default smart_factorization; 30% of the option sets now build the parser with smart_factorization=False",
 "C05-28": M + "sequences were plain ProdSequence objects; a sequence class with the post-processing hook (which only looks) was added",
 "C06-27": M + "only rgraph.branches was read; the documented by-name view must now hold the same branches",
 "C06-28": M + "every report had a fresh builds detector; a project class that hands out ONE detector is now asked for two reports",
 "C07-27": M + "both components were pinned in one file; half of the two-component scenarios now pin them in two files",
 "C07-28": M + "parent build counters started at 1; a third of the parents now counts from 8885 / 9996, across the numbers the package reserves",
 "C08-27": M + "C08 read the visible text from plain_text(); it is now also read through strip_colors(str())",
 "C08-28": M + "CHText.make() only got resized chunk lists; the operation 'text made from the chunk lists of two texts' was added",
 "C09-27": M + "fixed_len was not driven by C09; a one-chunk text is padded and the padding must have the terminal's own look",
 "C09-28": D + " (centred format specs on chunks)",
 "C10-27": M + "results were formatted with the empty spec only; the mode 'centred' (a field 7 wider, '_' as filler) was added",
 "C10-28": M + "the sum of a result with an empty text was only printed; it is now extended in place and the result must stay what it was",
 "C11-27": M + "results were never compared with each other; a coloured and a no-colour result of one value are compared from both sides, the no-colour one is read afterwards",
 "C11-28": M + "the caller's own copy of the text came from get_ch_text(); it now also comes from a whole-text slice and from the sum with an empty text",
 "C12-27": M + "fields lists were all names or all field objects; a list that mixes them was added",
 "C12-28": M + "formats came from format strings; a format built by hand from ReprColumn objects with one width limit each was added",
 "C13-27": M + "the format of a sibling table was taken after its first print; it is now also taken before (and the sibling has more records than the first table)",
 "C13-28": D + " (limits-only formats set after a print)",
 "C14-27": D + " (sub-palettes of compound palettes under a second configuration)",
 "C14-28": D + " (a palette class given together with a configuration)",
 "C15-27": M + "OR groups held conditions and OR groups; a group class of the application derived from the OR group (joining with AND) was added as operand",
 "C15-28": D + " (keyword filters through SqlMethodT.one_or_none)",
 "C16-27": M + "the fake opener answered or refused; it now also drops the connection without an answer (RemoteDisconnected) for requests with the caller's own id",
 "C16-28": M + "the method caller was cloned with an adapter; a clone made without adapters (clone(), clone(None), clone([])) is now one of the connections of every family",
 "C17-27": D + " (connections described before two own adapters are used)",
 "C17-28": M + "adapters were never touched after construction; the prefix of a live adapter is re-assigned between two requests",
 "C18-27": M + "marks were 'v' = yes; sheets with inverted marks (blank = yes, read by a CellBool configured accordingly) were added",
 "C18-28": M + "objects were truthy; on the map route every other class is one whose objects are falsy",
 "C19-27": D + " (an explicit default command declared with parents)",
 "C19-28": D + " (first arguments that are prefixes of command names)",
 "C20-27": M + "arguments were positional; every third string is given by the parameter's name",
}
def one(d):
    prop = d.split("-")[0]
    sd = os.path.join(VERIF, "seeded", d)
    scratch = tempfile.mkdtemp(prefix="vf-w14-")
    repo = os.path.join(scratch, "repo")
    shutil.copytree("/repo", repo, ignore=shutil.ignore_patterns(".git", "__pycache__"))
    try:
        r = subprocess.run(["patch", "-p1", "-s", "-i", os.path.join(sd, "patch.diff")], cwd=repo, capture_output=True, text=True)
        assert r.returncode == 0, (d, r.stdout, r.stderr)
        t0 = time.time()
        r = subprocess.run(["/venv/bin/python", "-m", "vf.run", prop, "--tier", "quick", "--no-evidence"], cwd=VERIF,
                           env=dict(os.environ, VERIF_REPO=repo), capture_output=True, text=True)
        lines = [l[:400] for l in r.stdout.splitlines() if l.startswith("VIOLATION") or l.startswith("  mechanism")][:2]
        det = r.returncode == 1 and any(l.startswith("VIOLATION property=" + prop) for l in lines)
        m = json.load(open(os.path.join(sd, "meta.json")))
        m["checks"] = {prop: {"tier": "quick", "rc": r.returncode, "detected": det, "wall_s": round(time.time() - t0, 1),
                              "first_lines": lines}}
        m["wave"] = 14
        m["history"] = H[d]
        json.dump(m, open(os.path.join(sd, "meta.json"), "w"), indent=1)
        return d, det, r.returncode
    finally:
        shutil.rmtree(scratch, ignore_errors=True)
ds = sorted(H)
with concurrent.futures.ThreadPoolExecutor(8) as ex:
    for d, det, rc in ex.map(one, ds):
        print(d, "DETECTED" if det else "MISSED rc=%s" % rc)
