"""one-off: re-run the quick check on every wave-8 seeded change, refresh `checks` in meta.json, add wave/history"""
import concurrent.futures, json, os, shutil, subprocess, sys, tempfile, time
VERIF = os.path.dirname(os.path.dirname(os.path.abspath(__file__)))
M = "MISSED by the check as it stood when this change arrived (quick tier exit 0): "
D = "detected by the check as it stood when this change arrived"
H = {
 "C01-15": M + "line generators never used the parser they feed; one form of the line input now starts another parse on the same parser between two lines",
 "C01-16": M + "no text began with U+FEFF as a token; added the tokenizer configuration 'catch-all-words' (the mark is a token of its own, words hold other invisible characters)",
 "C02-15": M + "all templates were the package's own; one symbol's alternatives are now given through a template class written by the caller (CAN_POST_PROCESS_TELEM = False)",
 "C02-16": M + "the containers given to the constructor were never touched again; span_matchers and skip_tokens are now the caller's objects, emptied and refilled with junk after the construction",
 "C03-15": D + " (quoted strings with an empty value were already among the lexemes)",
 "C03-16": D + " (three-step nullable chains in front of a recursive symbol are produced by the nullable-led family)",
 "C04-15": M + "see C02-16: the span_matchers dictionary is changed by the caller after the construction",
 "C04-16": M + "get_orig_text was given the object that was parsed; it now also gets the lines as a tuple, a one-shot iterator or a generator",
 "C05-15": M + "every grammar skipped blanks; added grammars whose skip_tokens is an empty collection (set, tuple, list, frozenset): a blank is the list delimiter, comments are items",
 "C05-16": M + "C03 described parsers before use, C05 did not; a third of the long-lived parsers now print their detailed description before the first text",
 "C06-15": D + " (multi-line commit messages with the searched text in the body were already generated)",
 "C06-16": M + "C06 judged collections of one repository; the generators of C07 now also feed C06: the parent's own listing is judged while a pinned component with builds days apart is analysed in the same report",
 "C07-15": M + "a pin never moved across more than a dozen builds; added the deterministic case of one bump over 1500 component builds",
 "C07-16": M + "the parent's trunk was always origin/master; a third of the parents now call it origin/main",
 "C08-15": M + "(as the wave arrived) no shard ran without assert statements; since the -O shard introduced for C19-15 the last shard of every check runs under python -O and catches it",
 "C08-16": M + "colour numbers started at 100; colour number 0 as foreground and as background was added to the formatters (C09 caught it as it stood)",
 "C09-15": M + "only whole texts were formatted to a width; single chunks are now formatted with fill and alignment and the padding must show nothing",
 "C09-16": M + "operands were CHText, chunks, strings and lists; instances of a class derived from CHText are now operands of plain texts, chunks and join",
 "C10-15": D + " (PPWrap objects under configurations that colour TEXT, added in wave 7)",
 "C10-16": D + " (flat lists of many numbers wrapped over lines)",
 "C11-15": M + "strings had no U+2028 / U+2029 and no result was read by lines after its whole text had been taken; both added",
 "C11-16": D + " (top-level scalars read by lines were already compared with the whole text)",
 "C12-15": D + " (tables consumed in turns materialise their lines before conversion)",
 "C12-16": D + " (repeated record objects in tables built from a format object)",
 "C13-15": D + " (bounded field types re-formatted before printing)",
 "C13-16": M + "only the enum type had modifiers; field 'd' now has a user field type whose modifiers are free text with slashes and percent signs",
 "C14-15": M + "(as the wave arrived) no shard ran without assert statements; the -O shard catches it",
 "C14-16": M + "configurations were never copied; a deep copy of the global configuration is now extended and the global one must stay what it is",
 "C15-15": D + " (OR groups mixing positional and keyword operands)",
 "C15-16": M + "rows were stored in id order, so a statement that lost its ORDER BY still answered in order; the rows are now stored shuffled and id is an ordinary column",
 "C16-15": M + "the thread that made the connection only started workers; it now sends requests too (every other stress round) and is the thread held inside the generator in the 'creator-thread' offset sweep",
 "C16-16": M + "C17 described connections between requests, C16 did not; str / repr / %s of the connection now happen between requests of the stress rounds",
 "C17-15": M + "authenticating adapters only set a header; an authentication adapter of the application's own that puts the key into the path and listens to responses was added",
 "C17-16": M + "wrappers ran eagerly; a wrapper written as a generator is now consumed by plain code and inside a wrapper of another component",
 "C18-15": M + "every reader had its own rules object; one rules object now serves two readers whose sheets (columns mirrored) are read in turns",
 "C18-16": M + "object classes had a __dict__ only; a class declaring its attributes in __slots__ was added",
 "C19-15": M + "no interpreter without assert statements; two of the four shards now run under -O and -OO (and the last shard of every other check under -O)",
 "C19-16": M + "parsers were never copied; a quarter of the parsers are deep copies of a bare template parser, which must stay without the options",
 "C20-15": M + "the loggers were silent; every fourth case (and every fourth shard of every check) runs with the package's loggers at DEBUG",
 "C20-16": D + " (first decodes of a fresh process raced under yield injection)",
}
def one(d):
    prop = d.split("-")[0]
    sd = os.path.join(VERIF, "seeded", d)
    scratch = tempfile.mkdtemp(prefix="vf-w8-")
    repo = os.path.join(scratch, "repo")
    shutil.copytree("/repo", repo, ignore=shutil.ignore_patterns(".git", "__pycache__"))
    try:
        r = subprocess.run(["patch", "-p1", "-s", "-i", os.path.join(sd, "patch.diff")], cwd=repo, capture_output=True, text=True)
        assert r.returncode == 0, (d, r.stdout, r.stderr)
        t0 = time.time()
        r = subprocess.run(["/venv/bin/python", "-m", "vf.run", prop, "--tier", "quick", "--no-evidence"], cwd=VERIF,
                           env=dict(os.environ, VERIF_REPO=repo), capture_output=True, text=True)
        lines = [l[:400] for l in r.stdout.splitlines() if l.startswith("VIOLATION") or l.startswith("  mechanism")][:2]
        det = r.returncode == 1 and any(l.startswith("VIOLATION property=" + prop) for l in lines)
        m = json.load(open(os.path.join(sd, "meta.json")))
        m["checks"] = {prop: {"tier": "quick", "rc": r.returncode, "detected": det, "wall_s": round(time.time() - t0, 1),
                              "first_lines": lines}}
        m["wave"] = 8
        m["history"] = H[d]
        json.dump(m, open(os.path.join(sd, "meta.json"), "w"), indent=1)
        return d, det, r.returncode
    finally:
        shutil.rmtree(scratch, ignore_errors=True)
ds = sorted(H)
with concurrent.futures.ThreadPoolExecutor(8) as ex:
    for d, det, rc in ex.map(one, ds):
        print(d, "DETECTED" if det else "MISSED rc=%s" % rc)
