"""one-off: re-run the quick check on every wave-15 seeded change, refresh `checks` in meta.json, add wave/history"""
import concurrent.futures, json, os, shutil, subprocess, sys, tempfile, time
VERIF = os.path.dirname(os.path.dirname(os.path.abspath(__file__)))
M = "MISSED by the check as it stood when this change arrived (quick tier exit 0): "
D = "detected by the check as it stood when this change arrived"
H = {
 "C01-33": M + "every span body pattern of the configurations could end a line wherever it stood; 'comments-with-the-documented-pattern' (the pattern of the package's documentation, which cannot end a line at '**/') and strings with escaped quotes over several lines were added",
 "C01-34": M + "no keyword was keyed on the empty text; the empty string is now a keyword of 'words+keywords+comments'",
 "C02-33": M + "no tokenizer pattern of C02 had an inline flag; 'inline-flag-in-the-tokenizer-pattern' (a here-document that ends at EOT in capitals only) was added",
 "C02-34": M + "no token value of the non-sentences held a per cent sign; words and a terminal with per cent signs were added",
 "C03-33": M + "no terminal of a C03 grammar was called '%'; one configuration now has such a terminal, so it stands in reported cycles",
 "C03-34": M + "C03 texts came as str, list or iterator of stripped lines; a third of the list forms is now an open file object whose lines keep their ends",
 "C04-33": D + " (tabs in front of tokens of a text given as one str)",
 "C04-34": D + " (blanks no pattern matches)",
 "C05-33": M + "the tokens under AnyTokenExcept had names made of letters; terminals called '$' and '$$' were added to the second tokenizer of 'shared_any_case'",
 "C05-34": M + "every C05 tokenizer skipped \\s+; 'twice_case' now skips blanks and tabs only and 40% of its texts have CR LF line ends",
 "C06-33": M + "the version numbers of branch names were ASCII; names typed in the digits of another script were added (and the reference order reads every decimal digit as a number)",
 "C06-34": M + "ref names were ASCII; tags whose names hold U+2028, U+2029 or U+0085 are now among the refs written to packed-refs",
 "C07-33": M + "parents had no tags besides their build tags; a fifth of them now has tags in a namespace whose names end like build tags",
 "C07-34": M + "the branch part of parent build tags was 'release_5_N'; 15% of the parents now tag 'build_N_release_5.x-lts_success' and keep major.minor in VERSION",
 "C08-33": M + "no formatter of C08 switched an effect off by name; three formatters with bold / faint / blink = False were added (flagged through the terminal model, which does not know SGR 22)",
 "C08-34": D + " (field widths in the digits of another script)",
 "C09-33": D + " (the empty text as a colour value)",
 "C09-34": M + "no invalid colour value was a bytes object; six were added, three of them three small bytes",
 "C10-33": M + "the notes of the help texts were strings; the notes hook of the application's gadget now returns a line of coloured blanks for one method",
 "C10-34": M + "results were formatted with plain widths; the mode 'zero_width' writes the width with a leading zero",
 "C11-33": M + "the character pool had no character that prints nothing beyond U+FFFF; a tag character and a private-use glyph of plane 15 were added (with NBSP, soft hyphen, U+E000)",
 "C11-34": M + "no dict had keys on both sides of U+FFFF next to U+E000-U+FFFF; an emoji, a CJK extension B character, a fullwidth letter, U+FFFD and U+E000 were added to the keys",
 "C12-33": M + "ranges were typed without blanks and a cut cell was accepted whenever the width lay within the bounds; ranges are now also typed '3 - 12' and, on the first print, a value may only be cut when it is too long for the column's maximum",
 "C12-34": M + "every enum key was truthy; 'falsy_keys_enum_case' has yes/no and 0.0 enums whose widest value is the falsy one",
 "C13-33": M + "every modifier of the fourth field was a non-empty text; the empty modifier ('d/') was added (the field type shows its mark with nothing behind it)",
 "C14-33": M + "colour numbers were written as plain digits; a fifth is now written with a sign or an underscore",
 "C14-34": M + "modifier lists were typed 'a,b' or 'a, b'; no-break spaces, wide blanks, form feeds and U+2028 now stand next to the commas",
 "C15-33": M + "the literals of the static conditions had single blanks; conditions on 'a  b' and 'a<TAB>b' (and such rows) were added",
 "C15-34": M + "the column names that are no identifiers gave plain rows; a method whose columns are called 'class' and '_s' was added, half of the time as a method object that meets its first request",
 "C16-33": D + " (own ids given in case-insensitive header containers)",
 "C16-34": D + " (own ids given in case-insensitive header containers)",
 "C17-33": D + " (non-ASCII text in list and dict bodies)",
 "C17-34": M + "component names were words; 'M4' now has a component called 'srv,eu' next to one called 'eu'",
 "C18-33": M + "blank cells held None, '' or ASCII blanks; no-break spaces and wide blanks were added (ladder keys, blank sheets)",
 "C18-34": M + "list cells had blanks and line feeds around their separators; CR LF, tabs, form feeds and wide blanks were added",
 "C19-33": M + "parent lists were typed with ASCII blanks; wide blanks, no-break spaces and form feeds were added",
 "C19-34": M + "first arguments had no line end; a command name followed by a line end is now one of the values that are no command names",
 "C20-33": M + "damaged canonical strings had one foreign character in place of one character; two letters written as ONE character (ligature ff, capital sharp s, dotted capital i) were added",
 "C20-34": M + "the junk around valid strings was blanks and line ends; a byte order mark in front of short and canonical strings was added",
}
def one(d):
    prop = d.split("-")[0]
    sd = os.path.join(VERIF, "seeded", d)
    scratch = tempfile.mkdtemp(prefix="vf-w17-")
    repo = os.path.join(scratch, "repo")
    shutil.copytree("/repo", repo, ignore=shutil.ignore_patterns(".git", "__pycache__"))
    try:
        r = subprocess.run(["patch", "-p1", "-s", "-i", os.path.join(sd, "patch.diff")], cwd=repo, capture_output=True, text=True)
        assert r.returncode == 0, (d, r.stdout, r.stderr)
        t0 = time.time()
        r = subprocess.run(["/venv/bin/python", "-m", "vf.run", prop, "--tier", "quick", "--no-evidence"], cwd=VERIF,
                           env=dict(os.environ, VERIF_REPO=repo), capture_output=True, text=True)
        lines = [l[:400] for l in r.stdout.splitlines() if l.startswith("VIOLATION") or l.startswith("  mechanism")][:2]
        det = r.returncode == 1 and any(l.startswith("VIOLATION property=" + prop) for l in lines)
        m = json.load(open(os.path.join(sd, "meta.json")))
        m["checks"] = {prop: {"tier": "quick", "rc": r.returncode, "detected": det, "wall_s": round(time.time() - t0, 1),
                              "first_lines": lines}}
        m["wave"] = 17
        m["history"] = H[d]
        json.dump(m, open(os.path.join(sd, "meta.json"), "w"), indent=1)
        return d, det, r.returncode
    finally:
        shutil.rmtree(scratch, ignore_errors=True)
ds = sorted(H)
with concurrent.futures.ThreadPoolExecutor(8) as ex:
    for d, det, rc in ex.map(one, ds):
        print(d, "DETECTED" if det else "MISSED rc=%s" % rc)
