"""one-off: re-run the quick check on every wave-11 seeded change, refresh `checks` in meta.json, add wave/history"""
import concurrent.futures, json, os, shutil, subprocess, sys, tempfile, time
VERIF = os.path.dirname(os.path.dirname(os.path.abspath(__file__)))
M = "MISSED by the check as it stood when this change arrived (quick tier exit 0): "
D = "detected by the check as it stood when this change arrived"
H = {
 "C01-21": D + " (alternatives that start with the same terminal and go on differently)",
 "C01-22": M + "no skipped name was also a key of the synonyms map; the configuration 'skipped-name-is-also-a-synonym-key' was added",
 "C02-21": D + " (LL(1) grammars whose FOLLOW sets need the closure over non-nullable symbols)",
 "C02-22": M + "every symbol had at least one alternative; symbols declared with an empty list of alternatives (a TODO of the grammar author) were added, a constructor that raises anything but the documented error counts as a rejection",
 "C03-21": D + " (recursions reached behind a repeated nullable symbol)",
 "C03-22": M + "left recursions were never hidden behind a symbol that matches nothing; a symbol without alternatives in front of the recursive use was added",
 "C04-21": M + "suffix symbols were never nested in prefix groups that were rolled back; grammars with nested common prefixes (NP templates) were added and every inner node is judged from its first to its last token",
 "C04-22": M + "the last child of a node was never a token with an empty value; declarations with an empty string literal in front of an optional suffix were added",
 "C05-21": M + "no item started with an optional container followed by a token; TAGGED items (optional tag list, '@', word) were added to the keyword family",
 "C05-22": M + "no list had neither brackets nor a delimiter; command lines made of two such lists in a row were added",
 "C06-21": D + " (release branches whose names are prefixes of each other chunk by chunk)",
 "C06-22": M + "every tag was a build tag or clearly none; tags that only END like a build tag (prebuild_7_release_1_0_success) were added",
 "C07-22": D + " (version bumps whose previous build pins a component build outside the report)",
 "C08-21": D + " (text += text with mergeable neighbours)",
 "C08-22": M + "lists given to += were flat; lists with nested lists and tuples of parts were added",
 "C09-21": M + "rgb cube values were plain tuples and lists; a named tuple (a tuple subclass) was added",
 "C09-22": M + "effect flags were True / False; truthy values (1, 'yes', 2) were added",
 "C10-21": M + "the harness never touched the column texts a record formatter returned; they are now edited in place before the next record is formatted",
 "C10-22": M + "custom palette defaults never referred to a built-in id while adding effects of their own; variant 2 of the custom palette now does",
 "C11-21": M + "lists had at most a few dozen items; lists of more than 100 numbers with booleans among them were added",
 "C11-22": M + "empty containers were plain dicts and lists; empty OrderedDict, defaultdict and Counter objects were added",
 "C12-21": D + " (multi-line titles next to single-line ones in columns narrower than their title)",
 "C12-22": M + "every format given to the setter was valid; a format naming an unknown field is now refused and the table must render as before",
 "C13-21": M + "field types kept the default width bounds; a field type with bounds up to 2000 and columns wider than 999 were added",
 "C13-22": M + "field names were words; a field whose name is a number makes a one-section format that looks like record limits",
 "C14-21": D + " (synced palettes that register their defaults while the global configuration is replaced)",
 "C14-22": M + "configurations were built by the harness; the start-up helper std_app_configure(syntax_amends=dict) is now one of the routes",
 "C15-21": M + "LIKE patterns and values had no backslash; both now may",
 "C15-22": M + "ordering comparisons never had None as operand; they now do (no row satisfies them)",
 "C16-21": M + "threads were held inside the generator for 50 ms at most; one scenario per run now holds a thread between reading and advancing the counter for 6.5 s",
 "C16-22": M + "every call reached the opener; calls refused while the url is built (params=17) were added - they must not take a number",
 "C17-21": M + "no caller class declared an inherited wrapper anew; a derived class that does, for another component, was added",
 "C17-22": M + "request paths never had an empty segment; '//bucket/key' and '/p//q/' were added",
 "C18-21": M + "titles of the column group were distinct; a title repeated inside the group (cells with different marks) was added, the value judged against the cell the reader reports",
 "C18-22": M + "every column fed one attribute; a class reading Tags and Opt twice (text and list, two defaults) was added",
 "C19-21": D + " (argument vectors taken from sys.argv)",
 "C19-22": M + "every option stored something; inherited options with action='version' / 'help' were added - accepted means exit status 0 and the text on stdout",
 "C20-21": M + "boundary numbers were single powers +-2; numbers whose 64-bit halves are boundary values on their own (zero, all ones, multiples of 57) were added",
 "C20-22": M + "no string came in quotes; short and canonical strings in single, double and back quotes were added",
}
def one(d):
    prop = d.split("-")[0]
    sd = os.path.join(VERIF, "seeded", d)
    scratch = tempfile.mkdtemp(prefix="vf-w11-")
    repo = os.path.join(scratch, "repo")
    shutil.copytree("/repo", repo, ignore=shutil.ignore_patterns(".git", "__pycache__"))
    try:
        r = subprocess.run(["patch", "-p1", "-s", "-i", os.path.join(sd, "patch.diff")], cwd=repo, capture_output=True, text=True)
        assert r.returncode == 0, (d, r.stdout, r.stderr)
        t0 = time.time()
        r = subprocess.run(["/venv/bin/python", "-m", "vf.run", prop, "--tier", "quick", "--no-evidence"], cwd=VERIF,
                           env=dict(os.environ, VERIF_REPO=repo), capture_output=True, text=True)
        lines = [l[:400] for l in r.stdout.splitlines() if l.startswith("VIOLATION") or l.startswith("  mechanism")][:2]
        det = r.returncode == 1 and any(l.startswith("VIOLATION property=" + prop) for l in lines)
        m = json.load(open(os.path.join(sd, "meta.json")))
        m["checks"] = {prop: {"tier": "quick", "rc": r.returncode, "detected": det, "wall_s": round(time.time() - t0, 1),
                              "first_lines": lines}}
        m["wave"] = 11
        m["history"] = H[d]
        json.dump(m, open(os.path.join(sd, "meta.json"), "w"), indent=1)
        return d, det, r.returncode
    finally:
        shutil.rmtree(scratch, ignore_errors=True)
ds = sorted(H)
with concurrent.futures.ThreadPoolExecutor(8) as ex:
    for d, det, rc in ex.map(one, ds):
        print(d, "DETECTED" if det else "MISSED rc=%s" % rc)
