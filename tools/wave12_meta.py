"""one-off: re-run the quick check on every wave-12 seeded change, refresh `checks` in meta.json, add wave/history"""
import concurrent.futures, json, os, shutil, subprocess, sys, tempfile, time
VERIF = os.path.dirname(os.path.dirname(os.path.abspath(__file__)))
M = "MISSED by the check as it stood when this change arrived (quick tier exit 0): "
D = "detected by the check as it stood when this change arrived"
H = {
 "C01-23": M + "the working directory held no file named like a text; the shards now run in a scratch directory where every fifth plain text is also the name of a file that holds another text of the grammar",
 "C01-24": D + " (non-terminals named like a key of the synonyms map)",
 "C02-23": D + " (string tokens whose named group is empty)",
 "C02-24": D + " (see C01-24)",
 "C03-23": M + "cycles went through a handful of symbols; token-free cycles through 40 to 4000 symbols (and the same chains broken by a token) were added",
 "C03-24": M + "every parser got its own productions description; one description with a sequence template is now given to two parsers (a refusal is fine, 'grammar is recursive' is not)",
 "C04-23": M + "no tokenizer pattern carried an inline flag; the configuration 'inline-flag-in-the-tokenizer-pattern' ((?i), comments closed by a small-letter mark, capital look-alikes inside) was added",
 "C04-24": M + "non-ASCII letters were precomposed; letters written as base letter + combining mark and Hangul jamo were added to strings and comments",
 "C05-23": M + "long-lived parsers were only asked for whole texts; every seventh text is now preceded by a fragment parsed with start_symbol_name on the same parser",
 "C05-24": M + "every token called COMMENT... was a skipped comment; a grammar with documentation comments (COMMENT_DOC) as list items and map values and the default skip_tokens was added",
 "C06-23": D + " (three branches, the one sorted directly before is empty)",
 "C06-24": M + "every search text occurred somewhere or nowhere in any case; texts typed in the wrong case (bug-7, Fix) were added - nothing is reported for them",
 "C07-23": M + "every repository tracked 'origin'; 15% of the scenarios now track 'upstream' / 'up/stream' (a decoy 'origin' exists) and the ProjectRepo objects are handed over as they are",
 "C07-24": M + "the tag hook of the component returned numbers only; half of the hook components now also report the documented version name",
 "C08-23": M + "every part of a += list could be shown; lists with a part whose __str__ raises (behind a part that merges into the last run of characters) were added - afterwards the text must still be a text",
 "C08-24": M + "fill characters did not include '.'; '.' and ',' were added",
 "C09-23": M + "invalid colour names had no braces; names that read like replacement fields ({}, {0}, {names}, %s) were added",
 "C09-24": M + "texts had no control characters but ESC-related ones; SI, SO, BEL, BS were added",
 "C10-23": M + "the looks of enum names were colours of the enum palette; a look that is the id of a global syntax (WARN) and an unknown word were added",
 "C10-24": D + " (custom table palettes used for the first time after a default-palette rendering)",
 "C11-23": M + "strings never read like data; '[]', '{}', '[1, 2]', 'null' ... as values and as the whole value were added",
 "C11-24": M + "ints fitted into a float; 10**400, 2**1024 and -2**1100 were added",
 "C12-23": M + "mapping records had keys only; records that are mappings with attributes of the same names (other values) were added",
 "C12-24": M + "field names were distinct whatever the case; a record shape whose fields all have an upper-case twin was added",
 "C13-23": M + "no title read like the name of another field; titles 'a' (for field b) and 'st' (for field d) were added",
 "C13-24": M + "no field was named like another field in one of its formats; the fourth field may now be called 'st/val' or 'st/name'",
 "C14-23": M + "nobody read the report of a configuration; half of the histories now read it between the registration batches",
 "C14-24": M + "configurations were copied deeply only; a copy.copy taken while descriptions are missing is now judged by the descriptions it has",
 "C15-23": M + "results were consumed at once; in mode 'all' another request now runs on the same connection after the first row was taken",
 "C15-24": M + "no column held time stamps; a TIMESTAMP column filtered with datetime values (=, <, >=, !=, IN) was added",
 "C16-23": M + "the opener of the connection was replaced as a whole; one workload now keeps the connection's own urllib opener, replaces only the socket level and answers some requests with redirects",
 "C16-24": M + "the caller's own ids were text; ids given as UTF-8 bytes with a non-ASCII character were added",
 "C17-23": M + "no path read like an address; 'http://other.example/x' and 'HTTPS://h/p' were added to the paths",
 "C17-24": M + "the first parameter of every wrapper was called self; wrappers with 'this' and 'me' (called directly and through another wrapper) were added",
 "C18-23": M + "no data row read like the title row (int and bool columns forbid it); a glossary family of all-text tables whose rows may repeat the titles was added",
 "C18-24": M + "defaults compared by value; a marker object (object()) as default of a missing optional column was added",
 "C19-23": M + "no option of the application was called --version; a fifth of the graphs now has one (own, inherited or common)",
 "C19-24": M + "common options were optional; a second parser per graph with a required common option was added",
 "C20-23": M + "strings were judged outside any error handling; every other string is now judged while the caller handles an exception of its own",
 "C20-24": M + "uuid objects were plain uuid.UUID; subclasses that print themselves in the short form / a tagged form were added",
}
def one(d):
    prop = d.split("-")[0]
    sd = os.path.join(VERIF, "seeded", d)
    scratch = tempfile.mkdtemp(prefix="vf-w12-")
    repo = os.path.join(scratch, "repo")
    shutil.copytree("/repo", repo, ignore=shutil.ignore_patterns(".git", "__pycache__"))
    try:
        r = subprocess.run(["patch", "-p1", "-s", "-i", os.path.join(sd, "patch.diff")], cwd=repo, capture_output=True, text=True)
        assert r.returncode == 0, (d, r.stdout, r.stderr)
        t0 = time.time()
        r = subprocess.run(["/venv/bin/python", "-m", "vf.run", prop, "--tier", "quick", "--no-evidence"], cwd=VERIF,
                           env=dict(os.environ, VERIF_REPO=repo), capture_output=True, text=True)
        lines = [l[:400] for l in r.stdout.splitlines() if l.startswith("VIOLATION") or l.startswith("  mechanism")][:2]
        det = r.returncode == 1 and any(l.startswith("VIOLATION property=" + prop) for l in lines)
        m = json.load(open(os.path.join(sd, "meta.json")))
        m["checks"] = {prop: {"tier": "quick", "rc": r.returncode, "detected": det, "wall_s": round(time.time() - t0, 1),
                              "first_lines": lines}}
        m["wave"] = 12
        m["history"] = H[d]
        json.dump(m, open(os.path.join(sd, "meta.json"), "w"), indent=1)
        return d, det, r.returncode
    finally:
        shutil.rmtree(scratch, ignore_errors=True)
ds = sorted(H)
with concurrent.futures.ThreadPoolExecutor(8) as ex:
    for d, det, rc in ex.map(one, ds):
        print(d, "DETECTED" if det else "MISSED rc=%s" % rc)
