"""one-off: re-run the quick check on every wave-15 seeded change, refresh `checks` in meta.json, add wave/history"""
import concurrent.futures, json, os, shutil, subprocess, sys, tempfile, time
VERIF = os.path.dirname(os.path.dirname(os.path.abspath(__file__)))
M = "MISSED by the check as it stood when this change arrived (quick tier exit 0): "
D = "detected by the check as it stood when this change arrived"
H = {
 "C01-31": M + "no tokenizer configuration had a keyword called like a pattern that has a synonym; 'keyword-called-like-a-pattern' was added",
 "C01-32": M + "no span opener was called like the synonym of another pattern; the configuration 'two-kinds-of-comments' was added",
 "C02-31": D + " (explicit productions next to an AnyTokenExcept expansion)",
 "C02-32": D + " (a keyword text inside a token of another kind)",
 "C03-31": M + "no two symbols of a C03 grammar had the same alternatives; a third of the hidden-cycle grammars now has a twin of a symbol on the cycle, reached first",
 "C03-32": M + "no production named a token that is skipped before parsing; every eighth grammar now has one",
 "C04-31": M + "no comment body repeated an earlier line of the text; a block comment holding a copy of an earlier statement line is now appended to every seventh text",
 "C04-32": D + " (two span openers reported under one token name)",
 "C05-31": M + "every C05 production named a container symbol once; 'twice_case' has one optional list symbol on both sides of an arrow",
 "C05-32": M + "no optional list stood directly in front of a list that opens with the same bracket; 'twice_case' has dimensions in front of values",
 "C06-31": M + "branch names that sort alike were taken out of the histories (their order is unspecified); half of the histories now keep both and are judged under either order",
 "C06-32": M + "all commit times lay within 29 days; 'cutoff_boundary_case' puts the head of a higher-sorted branch exactly thirty days before the first reported build",
 "C07-32": M + "merged component histories told their builds by tags; a third of them now tells them by the saved number, a merge carrying the higher number of its parents",
 "C08-31": M + "lists of parts held different list objects; one list object is now named twice in one argument of '+=' and of the constructor",
 "C09-31": M + "C09 never appended a text to itself; a text whose first and last chunk have one look is now appended to itself (also as the only part of a list)",
 "C09-32": M + "formatted chunks never consisted of the fill character; a fifth of them now does",
 "C10-31": M + "the table palettes of the application differed from the stock one in the border only; two of them now have a look of their own for the marker of cut cells and for the padding",
 "C10-32": M + "help was asked for the package's own method callers only; a class of the application whose notes hook hands out ready-made notes objects was added",
 "C11-31": M + "dict keys were short; keys that agree in their first 80-160 characters were added",
 "C11-32": M + "dict keys were ASCII or ready-made accented letters; keys spelled with combining marks (and their ready-made twins) were added",
 "C12-31": M + "one enum type per process; another enum type over the same values with other names is now printed first in a third of the cases",
 "C12-32": D + " (a cell that reads like the column separator)",
 "C13-31": D + " (the same limits typed again with a new break-by mark)",
 "C13-32": M + "no spellable field name had an exclamation mark in the middle; 'ok!?' and 'd!x' were added to the aliases of the fourth field",
 "C14-31": M + "every configuration class had the built-in items; 'bare_class_case' uses a class without any and looks at the items right after the constructor",
 "C14-32": M + "an inherited colours section was written 'P:mods' or 'P:/:mods'; 'P::mods' and 'P: :mods' are now written, too",
 "C15-31": M + "every select list had the unique id column; one-row requests now also run over 'SELECT n, s' on tables with twin rows",
 "C15-32": M + "condition objects were made per request; one SqlFieldValCondition object is now used in three requests while its list or set grows and shrinks",
 "C16-31": M + "every call of the threaded rounds had a body that can be serialised; one call in twenty now has not (it is refused after its number was taken)",
 "C16-32": M + "the headers the threads keep had no correlation header; they now carry one value per business operation, shared by many requests",
 "C17-31": M + "the caller's own Authorization header was always spelled that way; 'authorization' and 'aUTHORIZATION' were added",
 "C17-32": M + "the prefixes of one caller class were all different words; 'M4' has '/srv', '/srv/', 'srv' and '/Srv', its wrappers are called on one object in random order",
 "C18-31": D + " (a repeated title in front of ladder columns)",
 "C18-32": D + " (list cells that name an item twice)",
 "C19-31": M + "no argument vector had a standard option in front of a value that reads like a command; '-v', '-vv', '--no-color' now precede such values",
 "C19-32": M + "command names and first arguments were lower case; names that differ only in case and values that are a command name in other letters were added",
 "C20-31": D + " (uuids whose two halves are the same 11-digit word)",
 "C20-32": D + " (a string decoded after its mirror image)",
}
def one(d):
    prop = d.split("-")[0]
    sd = os.path.join(VERIF, "seeded", d)
    scratch = tempfile.mkdtemp(prefix="vf-w16-")
    repo = os.path.join(scratch, "repo")
    shutil.copytree("/repo", repo, ignore=shutil.ignore_patterns(".git", "__pycache__"))
    try:
        r = subprocess.run(["patch", "-p1", "-s", "-i", os.path.join(sd, "patch.diff")], cwd=repo, capture_output=True, text=True)
        assert r.returncode == 0, (d, r.stdout, r.stderr)
        t0 = time.time()
        r = subprocess.run(["/venv/bin/python", "-m", "vf.run", prop, "--tier", "quick", "--no-evidence"], cwd=VERIF,
                           env=dict(os.environ, VERIF_REPO=repo), capture_output=True, text=True)
        lines = [l[:400] for l in r.stdout.splitlines() if l.startswith("VIOLATION") or l.startswith("  mechanism")][:2]
        det = r.returncode == 1 and any(l.startswith("VIOLATION property=" + prop) for l in lines)
        m = json.load(open(os.path.join(sd, "meta.json")))
        m["checks"] = {prop: {"tier": "quick", "rc": r.returncode, "detected": det, "wall_s": round(time.time() - t0, 1),
                              "first_lines": lines}}
        m["wave"] = 16
        m["history"] = H[d]
        json.dump(m, open(os.path.join(sd, "meta.json"), "w"), indent=1)
        return d, det, r.returncode
    finally:
        shutil.rmtree(scratch, ignore_errors=True)
ds = sorted(H)
with concurrent.futures.ThreadPoolExecutor(8) as ex:
    for d, det, rc in ex.map(one, ds):
        print(d, "DETECTED" if det else "MISSED rc=%s" % rc)
