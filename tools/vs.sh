#!/bin/bash
# verify & keep a batch of seeded changes:  tools/vs.sh C09 C14 ...
for p in "$@"; do for n in 1 2; do
  if [ -f /tmp/seed/$p-out/patch$n.diff ] || [ -d /verif/seeded/$p-$n ]; then
  /venv/bin/python /verif/tools/verify_seeded.py $p $n --keep 2>&1 | /venv/bin/python -c "
import json,sys
try:
    r=json.load(sys.stdin)
    print(r['property'], r['n'], 'tests_pass=',r.get('repo_tests_pass_with_change'),'demo=',r.get('demo_fails_with_change'),r.get('demo_passes_without_change'), {k:('DETECTED' if v['detected'] else 'MISSED rc=%s'%v['rc'], (v['first_lines'][1][:170] if len(v['first_lines'])>1 else v['first_lines'])) for k,v in r.get('checks',{}).items()})
except Exception as e: print('verify failed', e)"
  fi
done; done
