"""one-off: re-run the quick check on every wave-7 seeded change, refresh `checks` in meta.json, add wave/history"""
import concurrent.futures, json, os, shutil, subprocess, sys, tempfile, time
VERIF = os.path.dirname(os.path.dirname(os.path.abspath(__file__)))
M = "MISSED by the check as it stood when this change arrived (quick tier exit 0): "
D = "detected by the check as it stood when this change arrived"
H = {
 "C02-13": M + "texts were str or lists of lines; the rejection workload now also hands the lines over as one-shot iterators",
 "C02-14": M + "every span-opening token of the configurations was renamed through a synonym; added the configuration 'multi-line-blocks' whose span matcher keeps its own name (TEXT), which grammars use as a terminal",
 "C03-13": M + "each AnyTokenExcept helper belonged to one parser; added the shared-helper case: one helper object used by two parsers with different terminals",
 "C03-14": M + "parsers were never described before they parsed; the detailed description is now printed before use in a share of the cases (recursion verdict and parses compared as before)",
 "C04-13": M + "a text object was parsed once; one list object is now parsed, extended by the caller and parsed again (prefix parse before the whole)",
 "C04-14": M + "spans were checked on the parser's own tree only; cloned trees are now compared span by span with the originals, including elements that matched an empty string",
 "C05-13": D + " (raw-tree parses followed by a separate cleanup were already in the workload)",
 "C05-14": M + "keep_symbols never named a template symbol; generated grammars may now start at a template and keep-lists include template names",
 "C06-13": M + "every project tracked 'origin'; 12% of the histories are now a fork + upstream setup (ready project object for remote 'upstream' handed over in the plain form, unrelated heads under 'origin')",
 "C06-14": M + "the .git directories had packed refs only; a share of the refs are now loose files, half of them with a stale line left in packed-refs",
 "C07-13": M + "one version location per project; components may now configure an older location first whose file is a note that cannot be read as a number",
 "C07-14": M + "C07 never read refs from disk; 15% of the single-report scenarios now read all refs through the production reader from .git directories with loose annotated tags",
 "C08-13": D + " (list operands of += with a boundary chunk of the same colour were already in the workload)",
 "C08-14": M + "joined iterables were static; join over a generator that grows while it is consumed (the separator is the text being built by the consumer) was added",
 "C09-13": M + "list operands held chunks and strings only; lists now also hold whole texts and nested lists of parts",
 "C09-14": M + "separators were one chunk; multi-chunk separators (several colours) were added to join",
 "C10-13": M + "a field object was used by one table; derived tables now share the field objects of their base and both are rendered",
 "C10-14": M + "PPWrap objects were not rendered; they are now (through the global printer only) before and after the configuration changes",
 "C11-13": M + "results were rendered one after another; two pending results with different palettes are now consumed interleaved",
 "C11-14": M + "a container was printed once; it is now printed, changed in place and printed again by the same printer",
 "C13-13": M + "formats set through the setter had explicit columns; the stage 'limits edited, columns kept' (empty columns section) was added for records of every shape",
 "C13-14": M + "width ranges were ordered; inverted ranges (min above max) were added and the reported format is compared after the round trip",
 "C14-13": M + "group names and ids never coincided; groups named like ids of another component were added",
 "C14-14": M + "palettes were taken after the global switch; a palette obtained from a configuration is now kept across a switch of the global one",
 "C15-13": D + " (one method object used on connections of both placeholder styles was already in the workload)",
 "C15-14": M + "select texts were one line; multi-line texts with end-of-line comments were added (the reference engine runs the same text)",
 "C16-13": M + "caller headers were dicts; defaultdict and case-insensitive mappings were added as caller headers",
 "C16-14": M + "connections to one address were used one after another by the same check instance only; independent roots (two connections to the same https address, distinct id prefixes expected) were added",
 "C17-13": M + "raw responses were not requested; raw-response calls through the whole adapter chain were added",
 "C17-14": M + "adapters edited path and headers only; an adapter that assigns method, params and data was added",
 "C18-13": M + "lists read from cells were only read; the caller now edits a list and the sheet is read again",
 "C18-14": M + "key-less rows were blank; junk that no converter accepts now sits in the non-key cells of key-less rows",
 "C20-13": M + "the check ran under the default interpreter only; a child interpreter with -O / -OO repeats the refusal vectors",
 "C20-14": M + "texts were str; str subclasses whose __str__ shows something else (masked values) were added",
}
def one(d):
    prop = d.split("-")[0]
    sd = os.path.join(VERIF, "seeded", d)
    scratch = tempfile.mkdtemp(prefix="vf-w7-")
    repo = os.path.join(scratch, "repo")
    shutil.copytree("/repo", repo, ignore=shutil.ignore_patterns(".git", "__pycache__"))
    try:
        r = subprocess.run(["patch", "-p1", "-s", "-i", os.path.join(sd, "patch.diff")], cwd=repo, capture_output=True, text=True)
        assert r.returncode == 0, (d, r.stdout, r.stderr)
        t0 = time.time()
        r = subprocess.run(["/venv/bin/python", "-m", "vf.run", prop, "--tier", "quick", "--no-evidence"], cwd=VERIF,
                           env=dict(os.environ, VERIF_REPO=repo), capture_output=True, text=True)
        lines = [l[:400] for l in r.stdout.splitlines() if l.startswith("VIOLATION") or l.startswith("  mechanism")][:2]
        det = r.returncode == 1 and any(l.startswith("VIOLATION property=" + prop) for l in lines)
        m = json.load(open(os.path.join(sd, "meta.json")))
        m["checks"] = {prop: {"tier": "quick", "rc": r.returncode, "detected": det, "wall_s": round(time.time() - t0, 1),
                              "first_lines": lines}}
        m["wave"] = 7
        m["history"] = H[d]
        json.dump(m, open(os.path.join(sd, "meta.json"), "w"), indent=1)
        return d, det, r.returncode
    finally:
        shutil.rmtree(scratch, ignore_errors=True)
ds = sorted(H)
with concurrent.futures.ThreadPoolExecutor(8) as ex:
    for d, det, rc in ex.map(one, ds):
        print(d, "DETECTED" if det else "MISSED rc=%s" % rc)
