"""one-off: re-run the quick check on every wave-15 seeded change, refresh `checks` in meta.json, add wave/history"""
import concurrent.futures, json, os, shutil, subprocess, sys, tempfile, time
VERIF = os.path.dirname(os.path.dirname(os.path.abspath(__file__)))
M = "MISSED by the check as it stood when this change arrived (quick tier exit 0): "
D = "detected by the check as it stood when this change arrived"
H = {
 "C01-37": D + " (a keyword keyed on a token whose pattern has text outside its named group)",
 "C01-38": M + "every alternative of the tokenizer patterns had one named group; 'escapes-with-two-groups' has two side by side",
 "C02-37": M + "parsers were used in the process that built them; one parser per shard is now pickled and used by a worker with another hash seed",
 "C02-38": M + "a text was parsed once per parser state; sentences of the sequence grammars are now parsed again after the caller edited (or cleaned up) the first tree",
 "C04-37": D + " (weakly: 1-11 witnesses; 'same_size_texts_case' now reads small texts of one size one after the other, dropping each)",
 "C04-38": M + "the characters no token starts with were ASCII marks, NUL and the byte order mark; the colour sequences of a terminal were added",
 "C05-37": M + "results were only read; a second result of the same text is now handed to a caller who appends to every list in it",
 "C05-38": M + "same extension as C05-37 (the empty sequences of 'attribute_list_case')",
 "C06-37": M + "what get_printable_rcommits hands out was looped over once; it is now listed twice and counted",
 "C06-38": M + "the lists of builds the report hands out were only read; the caller now reverses and shortens them, and the report is printed again",
 "C07-37": M + "the printed report was taken once; the report object is now shown twice",
 "C07-38": M + "every repository object carried the id the collection knows it by; a third of the component objects now carry another id of their own (and reports that are not labelled with the collection's ids are a violation instead of a harness error)",
 "C08-37": D + " (whole-text slices extended in place)",
 "C08-38": D + " (empty slices extended in place)",
 "C09-37": M + "C09 took no slices; a piece cut with a stop far behind the end is now used again (its last character, the piece in a field)",
 "C09-38": M + "same extension as C09-37: the whole text taken as a slice and extended in place",
 "C10-37": D + " (two walks over one result at the same time)",
 "C10-38": M + "the text of a formatted record was taken once; it is now taken, marked by the caller and taken again",
 "C11-37": D + " (two iterators over one result)",
 "C11-38": M + "the length of a result was asked after its text; a fresh result is now asked for its length first and read in pieces",
 "C12-37": D + " (tables consumed in turns)",
 "C12-38": D + " (a print finished after the record list changed)",
 "C13-37": M + "columns were removed through the table; every other removal now goes through the format object the table hands out",
 "C13-38": M + "formats were set by assignment; a third is now set with set_fmt(), which has to hand the table back",
 "C14-37": M + "palettes were obtained again after every step; 'pending_standard_id_case' keeps one across the registration",
 "C14-38": M + "every accessor of a palette class named an id of its own class or a built-in one; 'foreign_accessor_case' names an id another component describes later",
 "C15-37": M + "the execute() of both fake cursors returned the cursor; the one that stands for the mysql connector now returns nothing",
 "C15-38": M + "SqlMethodT wrapped row methods; the grouping method is now wrapped, too",
 "C16-37": D + " (add_adapter on a derived connection without own adapters)",
 "C16-38": D + " (two independent connections to one address under method callers)",
 "C17-37": M + "add_adapter was never called on a connection made from the caller's list; it is now, and a connection made from that list afterwards knows nothing of it",
 "C17-38": M + "the connection of a clone made without adapters never got one of its own; it does now, and the original's requests stay what they were",
 "C18-37": D + " (rows of objects kept by the caller)",
 "C18-38": M + "the map of a sheet was read once per class; it is now read again after the caller emptied the first one",
 "C19-37": D + " (results of earlier parses looked at again)",
 "C20-37": M + "decoded uuids were compared and dropped; a third of them now travels (copy, deep copy, pickle) and is encoded again",
 "C20-38": D + " (numbers at and just above 57**13 and 57**17)",
}
def one(d):
    prop = d.split("-")[0]
    sd = os.path.join(VERIF, "seeded", d)
    scratch = tempfile.mkdtemp(prefix="vf-w19-")
    repo = os.path.join(scratch, "repo")
    shutil.copytree("/repo", repo, ignore=shutil.ignore_patterns(".git", "__pycache__"))
    try:
        r = subprocess.run(["patch", "-p1", "-s", "-i", os.path.join(sd, "patch.diff")], cwd=repo, capture_output=True, text=True)
        assert r.returncode == 0, (d, r.stdout, r.stderr)
        t0 = time.time()
        r = subprocess.run(["/venv/bin/python", "-m", "vf.run", prop, "--tier", "quick", "--no-evidence"], cwd=VERIF,
                           env=dict(os.environ, VERIF_REPO=repo), capture_output=True, text=True)
        lines = [l[:400] for l in r.stdout.splitlines() if l.startswith("VIOLATION") or l.startswith("  mechanism")][:2]
        det = r.returncode == 1 and any(l.startswith("VIOLATION property=" + prop) for l in lines)
        m = json.load(open(os.path.join(sd, "meta.json")))
        m["checks"] = {prop: {"tier": "quick", "rc": r.returncode, "detected": det, "wall_s": round(time.time() - t0, 1),
                              "first_lines": lines}}
        m["wave"] = 19
        m["history"] = H[d]
        json.dump(m, open(os.path.join(sd, "meta.json"), "w"), indent=1)
        return d, det, r.returncode
    finally:
        shutil.rmtree(scratch, ignore_errors=True)
ds = sorted(H)
with concurrent.futures.ThreadPoolExecutor(8) as ex:
    for d, det, rc in ex.map(one, ds):
        print(d, "DETECTED" if det else "MISSED rc=%s" % rc)
