"""one-off: re-run the quick check on every wave-9 seeded change, refresh `checks` in meta.json, add wave/history"""
import concurrent.futures, json, os, shutil, subprocess, sys, tempfile, time
VERIF = os.path.dirname(os.path.dirname(os.path.abspath(__file__)))
M = "MISSED by the check as it stood when this change arrived (quick tier exit 0): "
D = "detected by the check as it stood when this change arrived"
H = {
 "C01-17": M + "one tokenizer configuration had span tokens and parsers were used right after they were built; a parser with other multi-line tokens (same group names and delimiters) is now built between construction and use",
 "C01-18": M + "no span token had a synonym that is itself a synonym key; added the configuration 'chained-span-synonyms'",
 "C02-17": D + " (strings with form feeds / U+2028 were already among the lexemes)",
 "C02-18": D + " (a keyword keyed on a skipped token type was already in the configuration 'words+keywords+comments')",
 "C03-17": D + " (list templates with nullable delimiter and item are part of the exhaustive template family)",
 "C03-18": M + "texts were lexically valid and the input had no name; a character no token matches is now inserted into a share of the texts and the input is named by a str or a path object",
 "C04-17": M + "texts with an unmatched character were grammatical up to it; the same text is now also parsed behind a first line that is wrong for the grammar",
 "C04-18": M + "no grammar of C04 used a sequence template; the statement 'string literals in a row' is now a ProdSequence and its node's span is judged (it ends at the following token, like every node whose last part matched nothing)",
 "C05-17": M + "no C05 grammar had keywords; added a family with keywords and quoted strings whose text may be spelled like a keyword (list items and map keys)",
 "C05-18": M + "the separate cleanup ran on the raw tree itself; in half of those cases a clone of the raw tree is cleaned up",
 "C06-17": M + "every ref was the trunk or a release branch; refs such as origin/release-notes or origin/feature/x (with matching commits of their own) were added - the oracle ignores them",
 "C06-18": M + "histories had at most 40 commits; a deterministic history of 1500 commits in a line was added",
 "C07-17": M + "build tags were read by the default parser (or a class-level pattern); a component class overriding the parse_buildtag hook (tags 'lib-10.20-b3') was added",
 "C07-18": M + "build numbers started at 1; a fifth of the components start at 0",
 "C08-17": M + "characters were letters and blanks; texts whose characters look like colour sequences (kept as data) are now compared through plain_text(), len() and ==",
 "C08-18": M + "rgb triples were foreground colours only; an rgb triple as background was added to the formatters",
 "C09-17": M + "the spellings a configuration file uses for 'terminal default' ('-', 'default', ...) were not among the invalid values",
 "C09-18": M + "colour codes were plain ints; codes given as IntEnum members and instances of an int subclass were added",
 "C10-17": M + "long-lived tables were re-formatted but never lost columns; tables now lose columns by name between renderings, plus a crafted table whose break lines hide the wide records until the break-by column is removed",
 "C10-18": M + "configurations lived as long as the rendering call; a share of the per-call configurations is dropped (and garbage-collected) before the result is consumed",
 "C11-17": M + "results were only read; the text of a result is now taken out with get_ch_text(), extended, and the result rendered again",
 "C11-18": M + "ints were plain ints; members of an IntEnum / IntFlag were added",
 "C12-17": M + "records were distinct; records that compare equal field by field but read differently (1 / True / 1.0) now follow each other in one table",
 "C12-18": M + "cell values never held colour sequences and the table was taken through str() only; values holding sequences as data were added and plain_text() of the no-colour result is compared with its str()",
 "C13-17": M + "every table had records, fields or a format; tables made of nothing were added (reported format through constructor and setter, before and after printing)",
 "C13-18": D + " (tables built from the format object of a printed table, then rebuilt from their reported format)",
 "C14-17": M + "component classes declared their defaults themselves (or through PARENT_PALETTES); a class inheriting SYNTAX_DEFAULTS from a base class that is never used itself was added",
 "C14-18": D + " (empty descriptions at the top level of the explicit configuration)",
 "C15-17": M + "select texts had no question mark and the fake %s connection replaced %s blindly; a select text with '?' as data was added and the fake connection counts placeholders like the real connector",
 "C15-18": M + "ORDER BY texts were lower-case column names; expressions and capitals were added ('ROUND(id) DESC', 'ID DESC')",
 "C16-17": M + "the underlying connection was always given as an address string; list and dict forms were added",
 "C16-18": M + "the id-supplying adapter was given to the constructor; it is now also attached with add_adapter(), and the adapter has to see every request of its connection",
 "C17-17": M + "adapters assigned path, params, data and method; an adapter assigning the address was added",
 "C17-18": M + "credentials were short and the header was decoded leniently; long generated secrets were added, the value is decoded strictly and must not contain line breaks",
 "C18-17": M + "no title was the text '*'; a column of the ranged group may now be titled with an asterisk",
 "C18-18": M + "under the 'blank first' rule the first column always had a title; an untitled first column (margin numbers) was added",
 "C19-17": M + "graphs had at most 7 commands; a deterministic chain of 1200 commands was added",
 "C19-18": M + "names never ended with '!'; names ending with the marker character were added (commands and internal sets)",
 "C20-17": D + " (small ints and 2**64-type boundaries in one process)",
 "C20-18": M + "foreign characters were ASCII look-alikes and a few letters; characters that Unicode compatibility normalisation folds into alphabet characters (full-width, mathematical, circled, ligatures) were added",
}
def one(d):
    prop = d.split("-")[0]
    sd = os.path.join(VERIF, "seeded", d)
    scratch = tempfile.mkdtemp(prefix="vf-w9-")
    repo = os.path.join(scratch, "repo")
    shutil.copytree("/repo", repo, ignore=shutil.ignore_patterns(".git", "__pycache__"))
    try:
        r = subprocess.run(["patch", "-p1", "-s", "-i", os.path.join(sd, "patch.diff")], cwd=repo, capture_output=True, text=True)
        assert r.returncode == 0, (d, r.stdout, r.stderr)
        t0 = time.time()
        r = subprocess.run(["/venv/bin/python", "-m", "vf.run", prop, "--tier", "quick", "--no-evidence"], cwd=VERIF,
                           env=dict(os.environ, VERIF_REPO=repo), capture_output=True, text=True)
        lines = [l[:400] for l in r.stdout.splitlines() if l.startswith("VIOLATION") or l.startswith("  mechanism")][:2]
        det = r.returncode == 1 and any(l.startswith("VIOLATION property=" + prop) for l in lines)
        m = json.load(open(os.path.join(sd, "meta.json")))
        m["checks"] = {prop: {"tier": "quick", "rc": r.returncode, "detected": det, "wall_s": round(time.time() - t0, 1),
                              "first_lines": lines}}
        m["wave"] = 9
        m["history"] = H[d]
        json.dump(m, open(os.path.join(sd, "meta.json"), "w"), indent=1)
        return d, det, r.returncode
    finally:
        shutil.rmtree(scratch, ignore_errors=True)
ds = sorted(H)
with concurrent.futures.ThreadPoolExecutor(8) as ex:
    for d, det, rc in ex.map(one, ds):
        print(d, "DETECTED" if det else "MISSED rc=%s" % rc)
