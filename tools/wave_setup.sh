#!/bin/bash
# set up seeded-change wave N:  tools/wave_setup.sh 16   (worktrees /tmp/seedN/Cnn, outputs /tmp/seedN/Cnn-out,
# INSTRUCTIONS.txt = tools/seed_instructions.txt + tools/waves/waveN.txt, tools/vsN.sh keeps them as Cnn-(2N-1), Cnn-(2N))
N=$1; W=/tmp/seed$N; LAST=$((2*N-2))
mkdir -p $W && cd /repo && for i in 01 02 03 04 05 06 07 08 09 10 11 12 13 14 15 16 17 18 19 20; do git worktree add --detach $W/C$i HEAD -q 2>&1 | tail -1; mkdir -p $W/C$i-out; done
W=$W LAST=$LAST /venv/bin/python - <<'EOF'
import json, os
W=os.environ['W']; LAST=int(os.environ['LAST'])
for l in open('/verif/properties.jsonl'):
    p=json.loads(l)
    txt=f"""Property {p['id']}: {p['title']}

Statement: {p['statement']}

Quantified over: {p['quantifier']['text']}

Why the existing tests cannot settle it: {p['why_tests_cant']}

Code it is anchored in: {', '.join(p['anchors']['files'])}
""" + "\n".join(f"  - {m['name']} ({m['where']})" for m in p['anchors']['mechanism'])
    prev=[]
    for n in range(1,LAST+1):
        f=f"/verif/seeded/{p['id']}-{n}/notes.txt"
        if os.path.exists(f):
            t=" ".join(open(f).read().split())
            prev.append(t[:240])
    txt += "\n\nSeeded changes ALREADY PROPOSED by others for this property (do NOT repeat these or close variants; pick other code sites / other clauses of the property / other triggering conditions):\n\n" + "\n\n---\n\n".join(prev) + "\n"
    open(f"{W}/{p['id']}-out/property.txt",'w').write(txt)
EOF
sed "s#WAVEDIR#$W#g" /verif/tools/seed_instructions.txt > $W/INSTRUCTIONS.txt
W=$W N=$N python3 - <<'E'
import os
p=os.environ['W']+'/INSTRUCTIONS.txt'; s=open(p).read()
old="time zone, recursion limit, hash seed, terminal size) where the package documents or obviously depends on it; a\n      numeric corner (zero, negative, exactly at a limit, bool where int is expected, very large)."
assert old in s
new=old+"\n"+open('/verif/tools/waves/wave%s.txt'%os.environ['N']).read().rstrip("\n")
open(p,'w').write(s.replace(old,new,1))
E
sed -e "s#seed15#seed$N#g" -e "s#n+28#n+$LAST#" -e "s#fifteenth-wave#wave-$N#" -e "s#<id>-29, <id>-30#<id>-$((LAST+1)), <id>-$((LAST+2))#" /verif/tools/vs15.sh > /verif/tools/vs$N.sh; chmod +x /verif/tools/vs$N.sh
git -C /repo worktree list | wc -l; wc -c $W/C05-out/property.txt
