"""one-off: re-run the quick check on every wave-13 seeded change, refresh `checks` in meta.json, add wave/history"""
import concurrent.futures, json, os, shutil, subprocess, sys, tempfile, time
VERIF = os.path.dirname(os.path.dirname(os.path.abspath(__file__)))
M = "MISSED by the check as it stood when this change arrived (quick tier exit 0): "
D = "detected by the check as it stood when this change arrived"
H = {
 "C01-25": D + " (smart un-factorization of two prefix groups that start with different terminals)",
 "C01-26": M + "keywords were keyed on the word token and on a comment; a keyword on the string token was added (the string 'yes' is a token of its own, the word yes and the string 'if' are not)",
 "C02-25": M + "FOLLOW dependencies formed chains and short loops; a family of LL(1) grammars whose optional symbols depend on each other in a ring of 3-6 was added",
 "C02-26": M + "an empty text given by its lines was one empty line; it is now no line at all (empty list / iterator)",
 "C03-25": D + " (common prefixes nested three levels deep)",
 "C03-26": D + " (six and more alternatives behind one leading terminal)",
 "C04-25": D + " (nodes whose last token is followed by skipped blanks)",
 "C04-26": M + "line breaks were LF only; every third multi-line str text is parsed once more with CR LF and LF in turns and every node must return the characters between its own start and end",
 "C05-25": D + " (a container behind a choice symbol in one production)",
 "C05-26": M + "allow_final_delimiter of the bracket-less map was always written out; when it is True it is now left out in half of the option sets (the documented default)",
 "C06-25": M + "the .git directories had plain names; they now lie in a directory whose name is full of glob and regexp characters",
 "C06-26": M + "main and master never coexisted; they now may (a renamed trunk with the old ref still there): which of the two sorts lower and whether an empty one is shown is left open, every reading is tried",
 "C07-25": M + "the parent had one trunk; 12% of the parents now have main and master, judged together under both readings of their order",
 "C07-26": M + "the versions cache lived for one report; 40% of the multi-report collections now have an owner class that keeps it, and their first report asks for a text only the owner's commits mention",
 "C08-25": M + "fill characters were printable; newline, tab and NUL were added",
 "C08-26": M + "slice bounds stayed near the length; 2**63, 10**30, -2**63-1 and sys.maxsize were added",
 "C09-25": M + "chunks were never walked; the pieces of a chunk (loop, constructor arguments, join) are now compared with its characters",
 "C09-26": M + "the environment was the harness' own; every fourth shard now runs with NO_COLOR, TERM=dumb, COLUMNS=20 and the C locale set",
 "C10-25": M + "no custom palette named a parent palette; a palette that repeats an id of its parent palette with another colour was added, used before or after the parent",
 "C10-26": M + "field types handed over chunk lists; the tagged field type now hands over two of its formats as one text object",
 "C11-25": D + " (multi-line dicts with None among the keys)",
 "C11-26": M + "values were at most five levels deep; one value nested 480-860 levels deep per shard (JSON mode) was added",
 "C12-25": M + "prints were complete before the records changed; a print begun before and finished after the change must still be one table (width and border)",
 "C12-26": M + "records were truthy; a record class whose objects are falsy was added",
 "C13-25": D + " (tables all of whose columns were removed)",
 "C14-25": M + "configuration classes were used as they are; a class whose built-in descriptions are amended after its first object was added",
 "C14-26": M + "the global configuration was only read in the thread that installed it; a worker thread now asks for it",
 "C15-25": D + " (IN lists with equal values of different types)",
 "C15-26": D + " (IN lists of one NULL)",
 "C16-25": M + "header containers were dicts and dict subclasses; a dict-like collection of pairs that is no Mapping was added",
 "C16-26": D + " (PATCH requests with the caller's own id)",
 "C17-25": M + "adapters were truthy; the recording adapter and a counting prefix adapter now have a length, zero when attached",
 "C17-26": M + "secrets were strings; numbers that are equal but read differently (1, True, 1.0, 1234, 1234.0) were added",
 "C18-25": M + "the worksheet mock gave its rows as lists; it now gives tuples (as openpyxl does) for most sheets",
 "C18-26": M + "every sheet had a title row; sheets without a row or with blank rows only were added",
 "C19-25": D + " (the end-of-options marker as first argument)",
 "C19-26": M + "parse_args always got a fresh namespace; half of the default-command vectors are now parsed into a namespace that names another command",
}
def one(d):
    prop = d.split("-")[0]
    sd = os.path.join(VERIF, "seeded", d)
    scratch = tempfile.mkdtemp(prefix="vf-w13-")
    repo = os.path.join(scratch, "repo")
    shutil.copytree("/repo", repo, ignore=shutil.ignore_patterns(".git", "__pycache__"))
    try:
        r = subprocess.run(["patch", "-p1", "-s", "-i", os.path.join(sd, "patch.diff")], cwd=repo, capture_output=True, text=True)
        assert r.returncode == 0, (d, r.stdout, r.stderr)
        t0 = time.time()
        r = subprocess.run(["/venv/bin/python", "-m", "vf.run", prop, "--tier", "quick", "--no-evidence"], cwd=VERIF,
                           env=dict(os.environ, VERIF_REPO=repo), capture_output=True, text=True)
        lines = [l[:400] for l in r.stdout.splitlines() if l.startswith("VIOLATION") or l.startswith("  mechanism")][:2]
        det = r.returncode == 1 and any(l.startswith("VIOLATION property=" + prop) for l in lines)
        m = json.load(open(os.path.join(sd, "meta.json")))
        m["checks"] = {prop: {"tier": "quick", "rc": r.returncode, "detected": det, "wall_s": round(time.time() - t0, 1),
                              "first_lines": lines}}
        m["wave"] = 13
        m["history"] = H[d]
        json.dump(m, open(os.path.join(sd, "meta.json"), "w"), indent=1)
        return d, det, r.returncode
    finally:
        shutil.rmtree(scratch, ignore_errors=True)
ds = sorted(H)
with concurrent.futures.ThreadPoolExecutor(8) as ex:
    for d, det, rc in ex.map(one, ds):
        print(d, "DETECTED" if det else "MISSED rc=%s" % rc)
