"""Verify a seeded change written by a sub-agent and (optionally) keep it under /verif/seeded/.

  /venv/bin/python tools/verify_seeded.py C07 1 [--keep] [--tier quick] [--props C07,C06]

Steps, all on scratch copies of /repo under /tmp (removed afterwards): the patch applies; the repository's
own tests pass with it; the demo fails with it and passes without it; then the property's check(s) are run
against the patched copy (VERIF_REPO) and their verdict is recorded.
"""
import argparse
import json
import os
import shutil
import subprocess
import sys
import tempfile
import time

VERIF = os.path.dirname(os.path.dirname(os.path.abspath(__file__)))
PY = "/venv/bin/python"


def sh(cmd, cwd, timeout=900, env=None):
    try:
        r = subprocess.run(cmd, cwd=cwd, capture_output=True, text=True, timeout=timeout, env=env)
        return r.returncode, (r.stdout + r.stderr)
    except subprocess.TimeoutExpired:
        return 124, "TIMEOUT"


def main():
    ap = argparse.ArgumentParser()
    ap.add_argument("prop")
    ap.add_argument("n")
    ap.add_argument("--src", default="/tmp/seed2")
    ap.add_argument("--keep", action="store_true")
    ap.add_argument("--tier", default="quick")
    ap.add_argument("--props")
    ap.add_argument("--seed", default="0")
    args = ap.parse_args()
    prop, n = args.prop.upper(), args.n
    kept_dir = os.path.join(VERIF, "seeded", f"{prop}-{n}")
    if os.path.isdir(kept_dir) and not os.path.exists(os.path.join(args.src, f"{prop}-out", f"patch{n}.diff")):
        patch, demo, notes = (os.path.join(kept_dir, x) for x in ("patch.diff", "demo.py", "notes.txt"))
    else:
        out = os.path.join(args.src, f"{prop}-out")
        patch, demo, notes = (os.path.join(out, f"{x}{n}.{e}") for x, e in
                              (("patch", "diff"), ("demo", "py"), ("notes", "txt")))
    scratch = tempfile.mkdtemp(prefix="vf-seeded-")
    res = {"property": prop, "n": int(n)}
    try:
        clean = os.path.join(scratch, "clean")
        patched = os.path.join(scratch, "patched")
        ign = shutil.ignore_patterns(".git", "__pycache__")
        shutil.copytree("/repo", clean, ignore=ign)
        shutil.copytree("/repo", patched, ignore=ign)
        rc, outp = sh(["patch", "-p1", "-s", "-i", patch], patched)
        res["patch_applies"] = rc == 0
        if rc:
            res["patch_output"] = outp[-300:]
            print(json.dumps(res, indent=1))
            return 1
        rc, outp = sh([PY, "-m", "pytest", "-q", "-x", "-p", "no:cacheprovider", "tests"], patched, timeout=600)
        res["repo_tests_pass_with_change"] = rc == 0
        res["repo_tests_tail"] = outp.strip().splitlines()[-1] if outp.strip() else ""
        rc1, o1 = sh([PY, demo], patched, timeout=300)
        rc0, o0 = sh([PY, demo], clean, timeout=300)
        res["demo_fails_with_change"] = rc1 != 0
        res["demo_passes_without_change"] = rc0 == 0
        res["demo_failure_tail"] = o1.strip().splitlines()[-1][:200] if o1.strip() else ""
        checks = {}
        for p in (args.props.split(",") if args.props else [prop]):
            t0 = time.time()
            env = dict(os.environ, VERIF_REPO=patched, VERIF_SEED=args.seed)
            rc, outp = sh([PY, "-m", "vf.run", p, "--tier", args.tier, "--no-evidence"], VERIF, timeout=3600, env=env)
            lines = [l for l in outp.splitlines() if l.startswith(("VIOLATION", "  mechanism", "INCONCLUSIVE"))]
            detected = rc == 1 and any(l.startswith("VIOLATION property=" + p) for l in lines)
            checks[p] = {"tier": args.tier, "rc": rc, "detected": detected, "wall_s": round(time.time() - t0, 1),
                         "first_lines": [l[:260] for l in lines[:2]]}
        res["checks"] = checks
        ok = (res["repo_tests_pass_with_change"] and res["demo_fails_with_change"]
              and res["demo_passes_without_change"])
        res["confirmed"] = ok
        print(json.dumps(res, indent=1))
        if args.keep and ok:
            os.makedirs(kept_dir, exist_ok=True)
            if os.path.abspath(patch) != os.path.join(kept_dir, "patch.diff"):
                shutil.copy(patch, os.path.join(kept_dir, "patch.diff"))
                shutil.copy(demo, os.path.join(kept_dir, "demo.py"))
                if os.path.exists(notes):
                    shutil.copy(notes, os.path.join(kept_dir, "notes.txt"))
            meta_path = os.path.join(kept_dir, "meta.json")
            meta = json.load(open(meta_path)) if os.path.exists(meta_path) else {}
            meta.update({
                "breaks_property": prop,
                "written_by": "independent sub-agent given only the property text and a scratch worktree",
                "needs_to_manifest": open(notes).read().strip() if os.path.exists(notes) else meta.get("needs_to_manifest", ""),
                "what_was_run": [
                    "patch -p1 on a scratch copy of /repo",
                    "cd <copy> && /venv/bin/python -m pytest -q -x -p no:cacheprovider tests  -> " + res["repo_tests_tail"],
                    "/venv/bin/python demo.py in the patched copy -> fails; in a clean copy -> passes",
                    f"VERIF_REPO=<copy> /venv/bin/python -m vf.run <prop> --tier {args.tier}",
                ],
                "repo_tests_pass_with_change": res["repo_tests_pass_with_change"],
                "demo_fails_with_change": res["demo_fails_with_change"],
                "demo_passes_without_change": res["demo_passes_without_change"],
            })
            meta.setdefault("checks", {}).update(checks)
            json.dump(meta, open(meta_path, "w"), indent=1)
        return 0 if ok else 1
    finally:
        shutil.rmtree(scratch, ignore_errors=True)


if __name__ == "__main__":
    sys.exit(main())
